#!/usr/bin/env python3
"""tools/confirm_benign.py <worktree> <property-id> <round-tag>: re-verifies every benign<i>.diff an agent left in
<worktree>/OUT (applies, compiles, vets, stock suite passes twice) and stores it as /verif/benign/<ID>-<tag>-<i>/
(patch.diff, meta.json). Whether it really keeps every property is judged afterwards, by hand, for each alarm."""
import glob, json, os, re, shutil, subprocess, sys
wt, pid, tag = sys.argv[1], sys.argv[2], sys.argv[3]
ENV = dict(os.environ, GOFLAGS="-mod=mod", GOPROXY="off", GOSUMDB="off", GOTOOLCHAIN="local")
def sh(cmd, timeout=600):
    p = subprocess.run(cmd, cwd=wt, shell=True, env=ENV, stdout=subprocess.PIPE, stderr=subprocess.STDOUT, text=True, timeout=timeout)
    return p.returncode, p.stdout
for diff in sorted(glob.glob(os.path.join(wt, "OUT", "benign*.diff"))):
    i = re.search(r"benign(\d+)\.diff", diff).group(1)
    mp = os.path.join(wt, "OUT", "benign%s_meta.json" % i)
    if not os.path.exists(mp):
        print(pid, i, "NO META"); continue
    meta = json.load(open(mp))
    sh("git checkout -- .")
    rc, out = sh("git apply --whitespace=nowarn %s" % diff)
    if rc: print(pid, i, "APPLY FAILED", out[-300:]); continue
    rc, out = sh("go build ./... && go vet . && go test -count=1 -timeout 150s . 2>&1 | tail -3 && go test -count=1 -timeout 150s . 2>&1 | tail -3")
    ok = len(re.findall(r"^ok\s", out, re.M)) == 2
    sh("git checkout -- .")
    print(pid, i, "STORED" if ok else "REJECTED", "-", meta.get("summary", "")[:140])
    if not ok:
        print(out[-500:]); continue
    d = os.path.join("/verif/benign", "%s-%s-%s" % (pid, tag, i))
    os.makedirs(d, exist_ok=True)
    shutil.copy(diff, os.path.join(d, "patch.diff"))
    json.dump(meta, open(os.path.join(d, "meta.json"), "w"), indent=1)
