#!/bin/bash
# tools/sweep.sh <tier> <seed> [ids...]: runs checks sequentially, prints one line each
tier=${1:-quick}; seed=${2:-1}; shift 2
ids="$@"; [ -z "$ids" ] && ids="C01 C02 C03 C04 C05 C06 C07 C08 C09 C10 C11 C12 C13 C14 C15 C16 C17 C18 C19 C20"
for id in $ids; do
  out=$(VERIF_SEED=$seed ./check $id $tier 2>&1); rc=$?
  echo "$id rc=$rc $(echo "$out" | grep -E '^(OK|VIOLATION|KNOWN|INCONCLUSIVE|shard)' | head -2 | tr '\n' ' ' | cut -c1-200)"
done
