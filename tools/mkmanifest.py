#!/usr/bin/env python3
"""Regenerates /verif/MANIFEST.json from the table below (claimed checks are those whose
props/cNN_test.go exists). Run after adding a check: python3 tools/mkmanifest.py"""
import json
import os
import subprocess

ROOT = os.path.dirname(os.path.dirname(os.path.abspath(__file__)))

# id -> (technique, level text, level note, design ref)
T = {
 "C01": ("exhaustive class-word enumeration + rapid PBT + native fuzz vs reference unstuffing function",
         "Every word over {'.',CR,LF,x} up to length 8 (quick) / 10 (thorough) plus seeded random 8-bit bodies, under generated segmentations and backend read sizes, in SMTP/LMTP, with a size limit above, at and below the message length (below: only a prefix and never EOF) with a line limit no smaller than the longest LF-delimited stretch, with a pause longer than the server's WriteTimeout in mid-message, after an earlier DATA transaction on the same connection (optionally in the clear before a STARTTLS upgrade, optionally declaring its SIZE), with a declared SIZE that is not too low, and with the end of the connection reported together with the last octets (n > 0, io.EOF), compared octet for octet with an independent reference (split on CRLF, strip one dot); EOF and its stickiness checked, and a failed reader stays failed when asked again.",
         "Reference model ref/unstuff.go; memnet delivers segments exactly as cut; exploration only - streams longer than the bounds are sampled, not enumerated.", "4/C01"),
 "C02": ("rapid PBT + native fuzz over message streams with bait commands and terminator look-alikes; callback-trace and exact reply-stream oracle",
         "Generated message streams containing bait command lines and every end-marker look-alike, crossed with backend read behaviour, verdict, size limit and SMTP/LMTP mode, in plaintext and under TLS, plus stalls past the read timeout and over-long message lines under a small line limit (there only 'nothing of the message is executed' is demanded); oracle: no bait ever reaches a callback, the marker command after the true end marker is executed exactly once and next, and the reply stream is exactly the predicted one.",
         "Markers/baits are recognised by unique addresses; reply stream parsed strictly; exploration.", "4/C02"),
 "C03": ("model-based PBT (rapid; thorough also coverage-guided through rapid.MakeFuzz): generated command histories vs an explicit command-state monitor and callback-trace invariants",
         "Histories of up to 25 (quick) / 40 (thorough) abstract commands with scripted backend decisions, driven lock-step over memnet, in the clear, across STARTTLS or under implicit TLS (NewSession must see the state of a completed handshake); plain backend errors come in several Go shapes (Temporary, net.Error timeout, wrapped, io.EOF ...); the alphabet includes a STARTTLS whose handshake fails and multi-line backend errors, and a graceful Server.Shutdown may begin at any point of the history (the open connection stays served); a reference monitor (transition table in ref/monitor.go) predicts for each command refusal-without-callback or the exact callback, and trace invariants check Reset/Logout placement, recipient limits and the greeting data seen in NewSession.",
         "Monitor follows the observed reply where the specification leaves a choice (second MAIL, malformed BDAT during a transfer); the delivery goroutine's start is gated in half of the cases; exploration.", "4/C03, Appendix A"),
 "C04": ("metamorphic PBT (rapid; thorough also coverage-guided through rapid.MakeFuzz; pipelined/segmented transcript == lock-step transcript) + strict RFC 5321/2034 reply grammar + gated chunked-transfer schedules with message-id verdict attribution",
         "The C03 history generator crossed with sending disciplines (one segment, random segmentation, one segment per line or per octet, optionally with the client's half-close arriving together with the last octets); every server octet stream must parse under a strict reply grammar with enhanced codes of the right class, contain exactly the predicted number of replies, and be identical whether commands are sent one by one or pipelined in any segmentation, also with further input behind the command at which the server ends the connection; at a held command boundary (only the first octets of the next line sent) every complete command has been answered; schedules of gated BDAT deliveries check that each message's final reply reports that message's own verdict.",
         "Attribution of replies to commands comes from the lock-step run (server idle detection), not from parsing; exploration.", "4/C04"),
 "C05": ("rapid PBT + native fuzz over chunkings, refusal states and segmentations vs framing arithmetic",
         "Messages over all 256 octets split into arbitrary BDAT chunkings (zero-size chunks, LAST on empty chunk), with bait commands inside payloads and marker commands after every chunk, in every refusal state (no envelope, no greeting yet, greeting refused by the backend, bad LAST token, over the limit) and with a backend that fails after k octets (framing-only oracle; the client optionally letting the server come to rest between segments), sizes optionally with leading zeros, optionally after an earlier chunked transaction on the connection and under a size limit the messages just fit, optionally while a graceful Server.Shutdown is in progress, in plaintext and under TLS, with stalls past the read timeout, under generated segmentations including command+payload in one segment; oracle: one Data call reading the exact concatenation with EOF only after LAST, one reply per BDAT, markers executed exactly once, bait never; plus transfers that never get a LAST chunk (hang-up at or inside a command boundary, reset, QUIT, RSET, greeting, new MAIL): never end-of-file.",
         "Framing reference is arithmetic on the declared sizes; exploration.", "4/C05"),
 "C06": ("rapid PBT + small-range enumeration, differential against an unlimited server",
         "Limits N in a small range (and around the 4096 buffer in thorough), message sizes N-2..N+2 and far above, by DATA and by every chunking into <=4 BDAT chunks, declared SIZE values around N and around 2^32/2^63, BDAT sizes around 2^31/2^32/2^63/2^64 followed by more than N octets of commands; oracle: octets read <= N, <=N behaves exactly like a server without limit, >N yields reader error + 552 + discarded transaction + marker executed once, SIZE>N refused 552 without callback.",
         "Honest backend (propagates reader errors); plaintext and TLS; content is drawn as wire lines (not only what a conforming dot-stuffer emits) with the limit on line boundaries; optionally after an earlier chunked or DATA transaction on the same connection (completed, RSET, cut by STARTTLS, or refused over the limit); declared SIZE also under HELO, EHLO+HELO, HELO+EHLO and LHLO; exploration.", "4/C06"),
 "C07": ("fault injection at every cut offset of generated conversations (exhaustive per conversation) + abandoning actions",
         "For each rapid-drawn DATA/BDAT conversation (SMTP and LMTP) the client stream is cut at every byte offset, by clean EOF (reported in a Read of its own or together with the last octets) and by reset; chunks announced with enormous sizes (around 2^31, 2^32, 2^63, 2^64 and beyond) are cut short after 0 or 7 octets; and every abandoning action (RSET, QUIT, new greeting, EOF, idle timeout, an over-limit chunk followed by a fitting LAST chunk) is tried between chunks; oracle: the backend reader reports EOF only if the generator knows the message was complete at that offset and the octets are the full message, otherwise a non-EOF error - also when the backend asks again - and no 2xx final reply; conversations run under the default, no and a 1000-octet line limit.",
         "Cut offsets are exhaustive per conversation, conversations are sampled; idle timeout triggered with a 30 ms ReadTimeout (used as trigger, never as oracle).", "4/C07"),
 "C08": ("fault injection at every cut offset + generated buffered suffixes behind every server-initiated close; begin/end callback-trace and goroutine-dump oracle",
         "The C07 corpus cut at every offset plus every server-initiated close reason (QUIT, 4th error, over-long line, idle timeout, backend panic; the backend's Logout optionally reporting an error; optionally after AUTH and a second greeting) followed by a generated suffix of commands in the same segment, plus Server.Close/Shutdown landing exactly while a callback of the connection is parked on a gate, and STARTTLS with a successful or a failed handshake followed by more commands; oracle over the totally ordered begin/end trace: exactly one Logout per session after the join, no callback begins after Logout or after the closing event, no new session, no replies after the closing reply, no goroutine with a server-side go-smtp frame left.",
         "Join point is Server.Shutdown; goroutine exit polled with bounded retry; the moment the BDAT delivery goroutine starts is a generated value (verif hook, start gate); exploration.", "4/C08"),
 "C09": ("rapid PBT over TLS state x config x SASL exchange scripts (server) and scripted mechanisms over a real client-server pair (client)",
         "Server half: generated AUTH exchanges (initial response, '=', bad base64, '*', binary octets, 1-3 challenges) in every TLS/AllowInsecureAuth/backend configuration and surrounding history, against an access model; the recording mechanism must see exactly the base64-decoded octets; mechanisms may finish with data for the client (dropped, or sent the RFC 4954 way, where a cancellation still cancels). Connection faults (half-close, reset, silence past the read timeout) after k of n challenges must never yield 235. Client half: Client.Auth against the real server and against a reference peer that reads the wire strictly by RFC 4954 (and may hang up right after its final reply), with scripted client/server mechanisms; octets cross unaltered, errors cancel with '*', result equals the server's final reply.",
         "TLS over memnet with a throw-away certificate; exploration.", "4/C09"),
 "C10": ("rapid PBT over pre-STARTTLS histories with injected plaintext (server) and misbehaving scripted servers (client); backend-trace and plaintext-octet oracles",
         "Server: histories reaching greeted/authenticated/mid-transaction/mid-BDAT state (Logout optionally returning an error), STARTTLS with a plaintext suffix in the same segment, then probes inside TLS (half of them a complete TLS-side transaction whose final replies must be positive, optionally under a size limit each message fits alone); oracle on the backend trace (Logout, new session sees TLS, nothing remembered, suffix never interpreted). Client: NewClientStartTLS/DialStartTLS/SendMail against scripted servers (no STARTTLS, 454, 220+garbage, 220+injected replies, HELO-only or extension-less EHLO inside TLS); oracle on the plaintext octets the client wrote and on the capabilities it reports after the upgrade (Extension, SupportsAuth, MaxMessageSize).",
         "Package-level SendMail runs on 127.0.0.1 sockets with SSL_CERT_FILE pointing at the test certificate; exploration.", "4/C10"),
 "C11": ("grammar-based generation + single-point mutation + exhaustive short strings + native fuzz, judged by an independent three-valued reference grammar",
         "MAIL/RCPT lines derived from an RFC grammar (all parameters; values put together from pieces: xtext, utf-8-addr-xtext hexpoints at every boundary of the production, NOTIFY lists, sizes, date-times), optionally preceded on the connection by a command of the same verb that the server or the backend refused, or by a whole DATA / BDAT / abandoned transaction, single-octet mutations of them, and all short strings over a syntax-significant alphabet, with extension flags on/off, in plaintext and under TLS; an independent classifier says valid (exact mailbox and option struct expected), definitely invalid (5xx, no callback; 504 for disabled extensions) or unspecified (only 'unchanged or refused').",
         "Classifier ref/grammar.go is the trusted base; its unspecified share is reported; exploration.", "4/C11, Appendix B"),
 "C12": ("complete enumeration of the 7680 configurations vs a capability table, plus one probe per extension and mixed enabled/disabled parameter lines",
         "All 7680 configurations (size limit none / 1000 / 8 GiB; TLS none / available / active / active through a caller-wrapped listener / available after a failed upgrade) are enumerated in both tiers; the EHLO/LHLO reply must equal the table-derived capability set exactly, HELO must be single-line, every advertised extension's command/parameter must be accepted in upper, lower or alternating case (an ordinary DATA transaction included, after refused lines) and every configuration-disabled parameter refused with 504, also on a line that carries parameters of enabled extensions; under unrelated settings (timeouts, Debug writer, line limit), the client naming itself by a label, a domain or an IPv4 / IPv6 literal; the judged greeting is the first on its connection or follows a HELO, a refused greeting, or a HELO with an open transaction.",
         "Finite space enumerated completely (exhaustive: true); the table is written from the RFCs and the property statement.", "4/C12"),
 "C13": ("rapid PBT (quick) / complete enumeration (thorough) of recipient sequences x status scripts vs a pure function of the script",
         "Recipient sequences up to 4 over 2 addresses (with RCPT rejections), every subset/order/timing of SetStatus calls, return value, panic, DATA/BDAT, per-recipient or plain backend (the latter also succeeding without reading), multi-line statuses, recipients differing only in case, optionally after an abandoned chunked transfer, optionally with commands that change nothing (NOOP, VRFY, malformed RCPT, refused BDAT, DATA with an argument) between the RCPTs; a sequential client (writes the whole message, then reads) over a transport without buffering (net.Pipe semantics) against backends that return before the end of the message; the i-th final reply must name the i-th accepted recipient (and nobody else) and carry the status the script assigns to that occurrence; exactly n replies and the marker command answered next (no deadlock, state-based detection).",
         "Misuse of the collector (too many calls, unknown recipient) only checked for liveness and well-formedness; exploration / exhaustive in thorough.", "4/C13"),
 "C14": ("round-trip PBT + native fuzz: real Client -> real Server over memnet, field-by-field equality; per-scalar and short-string enumeration over the encoding alphabet",
         "Every MailOptions/RcptOptions field with generated values, every ASCII octet and sampled (quick) / all (thorough) Unicode scalars in each string-valued option, all short strings over the encoding-significant alphabet, with and without SMTPUTF8, under unrelated server settings (recipient limit, size limit, BINARYMIME, LMTP), with the server's replies delivered in fragments of a few octets, and after connection preludes (AUTH, an earlier transaction, Client.Reset); sender and recipient strings put together from pieces (atoms, quoted strings, brackets, parameter look-alikes, routes, UTF-8, white space at the ends) through Mail/Rcpt and through Client.SendMail with the oracle 'accepted implies observed identically, well-formed implies accepted'; the backend must observe exactly the values passed to the client API, or the client must refuse locally outside the guaranteed domain.",
         "Both ends are go-smtp, as the property states; exploration.", "4/C14"),
 "C15": ("PBT + native fuzz with a scripted fake server: hostile short strings in every string argument x advertised-extension subsets x option subsets; oracle on the octets written",
         "A scripted server advertising generated extension subsets (different on re-EHLO; none at all; or refusing EHLO so that the client falls back to HELO) records the client's octets; each API call may contribute at most one CRLF-terminated line free of bare CR/LF, ESMTP keywords only of extensions in the latest EHLO reply, and REQUIRETLS/SMTPUTF8 not offered must be a local error with nothing written.",
         "Exploration; hostile strings over {CR, LF, NUL, SP, <, >, letter, quote, backslash} enumerated up to length 3 (quick) / 4 (thorough), embedded bare and inside a quoted local part.", "4/C15"),
 "C16": ("exhaustive token words + rapid bodies + native fuzz x Write partitions through the real client to the real server; LF->CRLF normalisation function as oracle",
         "All words over {'.',LF,CRLF,x} up to length 6 (quick) / 8 (thorough) plus random 8-bit bodies and messages of long lines whose line endings straddle the client's 4096-octet flush boundary, written in every 2-split, byte-by-byte and random partitions, optionally after an earlier message with its own verdict (whose writer may be closed again in mid-message: error, zero octets), under a server size limit the message just fits, with replies delivered in fragments and over a transport without buffering, with senders/recipients containing '%' and other format characters, with a slow producer against a short CommandTimeout and a short server WriteTimeout; the backend must read the normalised body with the exact envelope once, Close must return the server's verdict, a second Close must be an error with no further octets reaching the server.",
         "Exploration; both ends are go-smtp.", "4/C16"),
 "C17": ("PBT + native fuzz over error shapes through the wire and through the real client; reply codec reference in both directions",
         "SMTPError values (any code 400-599, enhanced code set/unset/absent, messages from a list of shapes or put together from pieces: lines of several hundred octets, line breaks, padding, signed/code-looking/reply-looking tokens, hyphens, non-ASCII) and plain errors returned from NewSession, Mail, Rcpt and Data (DATA or BDAT, optionally under a size limit the message fits exactly and after an earlier transaction with another outcome); greeted with EHLO or HELO, in SMTP and (envelope callbacks) LMTP mode, through Mail/Rcpt/Data or Client.SendMail; the wire reply must carry code, enhanced code and text per RFC 2034 and the client must return an equal SMTPError; plain errors map to 451/554.",
         "Ambiguous NoEnhancedCode+code-looking-text cases are unspecified; exploration.", "4/C17"),
 "C18": ("model-based PBT: 1-3 LMTP transactions on one client connection vs the scripted per-recipient verdicts",
         "Generated sequences of LMTP transactions (1-3 recipients, some refused at RCPT, verdict vectors, with a status callback, through Data() or through LMTPData(nil), optional Reset, verdict codes incl. 421, a locally refused Mail between recipients, optionally a slow delivery to one recipient), and the same client against a scripted LMTP peer that accepts recipients with 250 or 251, may answer in two lines and may hang up together with the last replies (end of stream reported with the last octets); the callback log must equal the script per transaction and Close must return (state-based hang detection) with the right error.",
         "Real client against real server in LMTP mode over memnet (replies optionally fragmented, transport optionally without buffering), and against a scripted peer; wall-clock time is used only as a trigger for the slow-delivery cases; exploration.", "4/C18"),
 "C19": ("boundary enumeration of line lengths x positions, exhaustive short byte strings, rapid blobs and native fuzz; oracles: no panic log, length rule, bounded octets consumed, error threshold",
         "Line lengths L-2..L+3 and 3L at every conversation position for several limits, endless lines (octets consumed measured on memnet, with and without a Debug writer attached), all strings up to length 4 (quick) / 5 (thorough) over {NUL,CR,LF,SP,A,a,:,<,0xFF,0xE9} and two more lengths over {0xFF,SP,A,LF} as command lines, every verb with an argument that is blank in some sense (Unicode / C / ASCII white space, NUL) in four states, random blobs, and error-threshold mixes (optionally with a STARTTLS upgrade in between, optionally while a chunked transfer is open).",
         "Bounded buffering measured as octets consumed from the network before the server gives up; a death of the test process on library code is reported as a violation with the running case as replay (all checks); exploration.", "4/C19"),
 "C20": ("harness-ordered event schedules executed under the Go race detector + exhaustive Accept fault sequences",
         "Generated orders of harness-controlled events (delivery completes, RSET/next chunk/QUIT, disconnect, Close, Shutdown, context expiry) for chunked and LMTP transfers and pending TLS handshakes on 1-3 connections, each executed under -race; deliveries optionally panic when their transfer is abandoned; Accept fault sequences up to length 5 enumerated completely, and pairs of listeners with temporary errors at the same time; Close against clients that do nothing (silent or mid-handshake connections, two listeners, a listener the application closed first) enumerated completely; oracle: no race report, no state-based deadlock (including Server.Close sitting on a lock while no callback is in progress), no leftover goroutine, Close/Shutdown/Serve return values.",
         "The harness owns its own event order (including, through the verif hook, when the BDAT delivery goroutine starts), not the Go scheduler inside the library; races are only seen on executed schedules; exploration.", "4/C20, 6"),
}

NA = {}


def main():
    checks = []
    na = []
    for pid in sorted(T):
        tech, text, note, ref = T[pid]
        if not os.path.exists(os.path.join(ROOT, "props", pid.lower() + "_test.go")):
            na.append({"property_id": pid, "reason": NA.get(pid, "check not built yet in this revision (work in progress; see DESIGN.md section 4 for the design)")})
            continue
        checks.append({
            "property_id": pid,
            "quick_cmd": "./check %s quick" % pid,
            "thorough_cmd": "./check %s thorough" % pid,
            "evidence_file": "/verif/evidence/%s.json" % pid,
            "replay_cmd_template": "./check %s --replay {path}" % pid,
            "engine": "props",
            "level_claimed": {"category": "exploration", "text": text, "design_ref": "DESIGN.md section " + ref},
            "level_note": note,
            "technique": tech,
        })
    hooks = ["c59604a verif hook: let a harness decide when the BDAT delivery goroutine starts (hooks_verif.go, hooks_noverif.go, one call in conn.go)",
             "bac45df verif hook: let a harness hold a freshly accepted connection before it is registered (hooks_verif.go, hooks_noverif.go, one call in server.go)"]
    m = {
        "version": 1,
        "setup_cmd": "./check --build",
        "hooks": {
            "guard": "verif",
            "enable": "go test -tags verif (passed by ./check to every build): enables smtp.SetVerifBdatStartHook and smtp.SetVerifConnAcceptedHook, through which the harness parks the BDAT delivery goroutine on a gate before it calls the backend, and the goroutine of a freshly accepted connection before the connection is registered with the server; every other oracle observes public API, the wire, Server.ErrorLog, runtime.Stack and the race detector",
            "baseline_off_cmd": "cd /repo && go test -vet=off -count=1 ./...",
            "source_commits": hooks,
            "add_only": True,
        },
        "engines": [{
            "name": "props",
            "path": "/verif/props (go test binary built by ./check against /repo's working tree via the replace directive in /verif/go.mod)",
            "serves_properties": [c["property_id"] for c in checks],
            "kind_free_text": "property-based testing (pgregory.net/rapid v1.3.0), small-scope exhaustive enumeration, Go native fuzzing (nine targets); harness = in-memory network + scripted recording backend + strict reply parser + reference models",
        }],
        "checks": checks,
        "notes": "Driver: ./check <ID> quick|thorough [--replay file]; VERIF_SEED selects the rapid seeds (never 0), VERIF_TIER overrides the tier. Exit 0 held / 1 VIOLATION line / 2 inconclusive. Known and fixed findings: KNOWN_FINDINGS.txt; witnesses of fixed findings under replays/fixed/ are re-run first in every check.",
        "not_applicable": na,
    }
    with open(os.path.join(ROOT, "MANIFEST.json"), "w") as f:
        json.dump(m, f, indent=1)
        f.write("\n")
    print("claimed:", [c["property_id"] for c in checks])
    print("not claimed:", [n["property_id"] for n in na])


if __name__ == "__main__":
    main()
