#!/usr/bin/env python3
"""Sensitivity harness: applies one mutant at a time to /repo's working tree, verifies it still
compiles and the stock suite still passes, runs the quick tier of the named properties, and
restores the tree (git checkout). A mutant is "caught" when at least one named check exits 1.

  tools/mutants.py list
  tools/mutants.py run [name-substring ...]      (default: all)
  tools/mutants.py prun N [name-substring ...]   the same on N scratch copies in parallel: each worker gets
                                                 a copy of /verif under /tmp/verif-mut.<i> whose go.mod points at
                                                 its own git worktree of /repo (/tmp/repo-mut.<i>); /repo itself is
                                                 not touched; the copies are removed afterwards

Mutant sources: mutants/<name>.diff (header lines "# props: C01 C02"), seeded/<id>/patch.diff
(meta.json "property"), and "revert:<commit>" entries generated from KNOWN_FINDINGS.txt fixed lines.
Results are appended to mutants/RESULTS.tsv.
"""
import glob
import json
import os
import re
import subprocess
import sys
import time

ROOT = os.environ.get("MUT_ROOT") or os.path.dirname(os.path.dirname(os.path.abspath(__file__)))
REPO = os.environ.get("MUT_REPO") or "/repo"
SHARD = os.environ.get("MUT_SHARD")  # "i/n": worker i of n (prun)


def sh(cmd, cwd=None, timeout=3600):
    p = subprocess.run(cmd, cwd=cwd, shell=isinstance(cmd, str), stdout=subprocess.PIPE, stderr=subprocess.STDOUT, text=True, timeout=timeout)
    return p.returncode, p.stdout


def clean():
    sh("git checkout -- . && git clean -fdq", cwd=REPO)


def mutants():
    out = []
    for f in sorted(glob.glob(os.path.join(ROOT, "mutants", "*.diff"))):
        props = []
        for line in open(f):
            m = re.match(r"#\s*props:\s*(.*)", line)
            if m:
                props = m.group(1).split()
        out.append((os.path.basename(f)[:-5], ("file", f), props))
    for d in sorted(glob.glob(os.path.join(ROOT, "seeded", "*", "patch.diff"))):
        meta = json.load(open(os.path.join(os.path.dirname(d), "meta.json")))
        props = meta.get("detected_by_expected") or [meta["property"]]
        out.append(("seeded-" + os.path.basename(os.path.dirname(d)), ("file", d), props))
    for line in open(os.path.join(ROOT, "KNOWN_FINDINGS.txt")):
        m = re.match(r"fixed:\s+property=(C\d+)\s+([0-9a-f]{7,})\s+(\S+)", line)
        if m:
            out.append(("revert-%s-%s" % (m.group(3), m.group(2)), ("revert", m.group(2)), [m.group(1)]))
    return out


def apply(src):
    kind, arg = src
    if kind == "file":
        rc, out = sh(["git", "apply", "--whitespace=nowarn", arg], cwd=REPO)
    else:
        rc, out = sh("git show %s -- . | git apply -R --whitespace=nowarn" % arg, cwd=REPO)
    return rc, out


def prun():
    n = int(sys.argv[2])
    sel = sys.argv[3:]
    here = os.path.dirname(os.path.dirname(os.path.abspath(__file__)))
    procs = []
    results_path = os.path.join(here, "mutants", "RESULTS.tsv")
    try:
        baselen = len(open(results_path).read().splitlines())
    except OSError:
        baselen = 0
    try:
        for i in range(n):
            vroot, rroot = "/tmp/verif-mut.%d" % i, "/tmp/repo-mut.%d" % i
            sh("rm -rf %s; git -C /repo worktree remove --force %s 2>/dev/null; rm -rf %s; git -C /repo worktree prune" % (vroot, rroot, rroot))
            rc, out = sh("git -C /repo worktree add --detach %s HEAD" % rroot)
            if rc != 0:
                print(out)
                return 2
            sh("rsync -a --exclude .git --exclude .build --exclude .stats --exclude 'replays/C*.json' %s/ %s/" % (here, vroot))
            sh("sed -i 's#=> /repo#=> %s#' %s/go.mod" % (rroot, vroot))
            env = dict(os.environ, MUT_ROOT=vroot, MUT_REPO=rroot, MUT_SHARD="%d/%d" % (i, n))
            procs.append(subprocess.Popen([sys.executable, os.path.join(vroot, "tools", "mutants.py"), "run"] + sel, env=env))
        for p in procs:
            p.wait()
        with open(results_path, "a") as f:
            for i in range(n):
                try:
                    lines = open("/tmp/verif-mut.%d/mutants/RESULTS.tsv" % i).read().splitlines()
                except OSError:
                    continue
                # every copy started from the same file: append what the worker added
                f.write("".join(l + "\n" for l in lines[baselen:]))
    finally:
        for i in range(n):
            sh("rm -rf /tmp/verif-mut.%d; git -C /repo worktree remove --force /tmp/repo-mut.%d 2>/dev/null; rm -rf /tmp/repo-mut.%d; git -C /repo worktree prune" % (i, i, i))
    return 0


def main():
    if len(sys.argv) >= 3 and sys.argv[1] == "prun":
        return prun()
    if len(sys.argv) < 2 or sys.argv[1] == "list":
        for name, src, props in mutants():
            print(name, src[0], " ".join(props))
        return 0
    sel = sys.argv[2:]
    rc, out = sh("git status --porcelain", cwd=REPO)
    if out.strip():
        print("refusing: /repo working tree is not clean")
        return 2
    results = []
    todo = [m for m in mutants() if not sel or any(s in m[0] for s in sel)]
    if SHARD:
        i, n = map(int, SHARD.split("/"))
        todo = todo[i::n]
    for name, src, props in todo:
        try:
            rc, out = apply(src)
            if rc != 0:
                results.append((name, "APPLY-FAILED", out.strip()[-200:]))
                continue
            rc, out = sh("go build ./... && go vet . >/dev/null 2>&1; go test -count=1 -timeout 90s . 2>&1 | tail -3", cwd=REPO)
            stock = "ok" if re.search(r"^ok\s", out, re.M) else "STOCK-FAILS"
            if stock != "ok":
                results.append((name, stock, out.strip()[-300:].replace("\n", " | ")))
                continue
            verdicts = []
            for p in props:
                t0 = time.time()
                os.environ["VERIF_NO_REGRESS"] = "1"
                rc, out = sh([os.path.join(ROOT, "check"), p, "quick"], cwd=ROOT)
                why = ""
                m = re.search(r"reason: (.*)", out)
                if m:
                    why = m.group(1)[:160]
                verdicts.append("%s=%d(%.0fs)%s" % (p, rc, time.time() - t0, " " + why if why else ""))
            caught = any(re.match(r"C\d+=1", v) for v in verdicts)
            results.append((name, "CAUGHT" if caught else "MISSED", "; ".join(verdicts)))
        finally:
            clean()
        print("\t".join(results[-1]), flush=True)
    os.makedirs(os.path.join(ROOT, "mutants"), exist_ok=True)
    with open(os.path.join(ROOT, "mutants", "RESULTS.tsv"), "a") as f:
        for r in results:
            f.write(time.strftime("%Y-%m-%dT%H:%M:%S") + "\t" + "\t".join(r) + "\n")
    # replays written while a mutant was applied are not findings on the real tree
    for f in glob.glob(os.path.join(ROOT, "replays", "C*.json")):
        os.remove(f)
    return 0


if __name__ == "__main__":
    sys.exit(main())
