#!/usr/bin/env python3
"""Sensitivity harness: applies one mutant at a time to /repo's working tree, verifies it still
compiles and the stock suite still passes, runs the quick tier of the named properties, and
restores the tree (git checkout). A mutant is "caught" when at least one named check exits 1.

  tools/mutants.py list
  tools/mutants.py run [name-substring ...]      (default: all)

Mutant sources: mutants/<name>.diff (header lines "# props: C01 C02"), seeded/<id>/patch.diff
(meta.json "property"), and "revert:<commit>" entries generated from KNOWN_FINDINGS.txt fixed lines.
Results are appended to mutants/RESULTS.tsv.
"""
import glob
import json
import os
import re
import subprocess
import sys
import time

ROOT = os.path.dirname(os.path.dirname(os.path.abspath(__file__)))
REPO = "/repo"


def sh(cmd, cwd=None, timeout=3600):
    p = subprocess.run(cmd, cwd=cwd, shell=isinstance(cmd, str), stdout=subprocess.PIPE, stderr=subprocess.STDOUT, text=True, timeout=timeout)
    return p.returncode, p.stdout


def clean():
    sh("git checkout -- . && git clean -fdq", cwd=REPO)


def mutants():
    out = []
    for f in sorted(glob.glob(os.path.join(ROOT, "mutants", "*.diff"))):
        props = []
        for line in open(f):
            m = re.match(r"#\s*props:\s*(.*)", line)
            if m:
                props = m.group(1).split()
        out.append((os.path.basename(f)[:-5], ("file", f), props))
    for d in sorted(glob.glob(os.path.join(ROOT, "seeded", "*", "patch.diff"))):
        meta = json.load(open(os.path.join(os.path.dirname(d), "meta.json")))
        props = meta.get("detected_by_expected") or [meta["property"]]
        out.append(("seeded-" + os.path.basename(os.path.dirname(d)), ("file", d), props))
    for line in open(os.path.join(ROOT, "KNOWN_FINDINGS.txt")):
        m = re.match(r"fixed:\s+property=(C\d+)\s+([0-9a-f]{7,})\s+(\S+)", line)
        if m:
            out.append(("revert-%s-%s" % (m.group(3), m.group(2)), ("revert", m.group(2)), [m.group(1)]))
    return out


def apply(src):
    kind, arg = src
    if kind == "file":
        rc, out = sh(["git", "apply", "--whitespace=nowarn", arg], cwd=REPO)
    else:
        rc, out = sh("git show %s -- . | git apply -R --whitespace=nowarn" % arg, cwd=REPO)
    return rc, out


def main():
    if len(sys.argv) < 2 or sys.argv[1] == "list":
        for name, src, props in mutants():
            print(name, src[0], " ".join(props))
        return 0
    sel = sys.argv[2:]
    rc, out = sh("git status --porcelain", cwd=REPO)
    if out.strip():
        print("refusing: /repo working tree is not clean")
        return 2
    results = []
    for name, src, props in mutants():
        if sel and not any(s in name for s in sel):
            continue
        try:
            rc, out = apply(src)
            if rc != 0:
                results.append((name, "APPLY-FAILED", out.strip()[-200:]))
                continue
            rc, out = sh("go build ./... && go vet . >/dev/null 2>&1; go test -count=1 -timeout 90s . 2>&1 | tail -3", cwd=REPO)
            stock = "ok" if re.search(r"^ok\s", out, re.M) else "STOCK-FAILS"
            if stock != "ok":
                results.append((name, stock, out.strip()[-300:].replace("\n", " | ")))
                continue
            verdicts = []
            for p in props:
                t0 = time.time()
                os.environ["VERIF_NO_REGRESS"] = "1"
                rc, out = sh([os.path.join(ROOT, "check"), p, "quick"], cwd=ROOT)
                why = ""
                m = re.search(r"reason: (.*)", out)
                if m:
                    why = m.group(1)[:160]
                verdicts.append("%s=%d(%.0fs)%s" % (p, rc, time.time() - t0, " " + why if why else ""))
            caught = any(re.match(r"C\d+=1", v) for v in verdicts)
            results.append((name, "CAUGHT" if caught else "MISSED", "; ".join(verdicts)))
        finally:
            clean()
        print("\t".join(results[-1]), flush=True)
    os.makedirs(os.path.join(ROOT, "mutants"), exist_ok=True)
    with open(os.path.join(ROOT, "mutants", "RESULTS.tsv"), "a") as f:
        for r in results:
            f.write(time.strftime("%Y-%m-%dT%H:%M:%S") + "\t" + "\t".join(r) + "\n")
    # replays written while a mutant was applied are not findings on the real tree
    for f in glob.glob(os.path.join(ROOT, "replays", "C*.json")):
        os.remove(f)
    return 0


if __name__ == "__main__":
    sys.exit(main())
