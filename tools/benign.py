#!/usr/bin/env python3
"""False-alarm harness: applies one property-preserving ("benign") change at a time to /repo's working
tree, verifies it still compiles and the stock suite still passes, runs the quick tier of ALL 20
checks (regression witnesses on), and restores the tree. A check that exits 1 on a benign change is a
false alarm of the machinery (or the change is not benign after all: decided by hand, recorded in
benign/<id>/verdict.txt).

  tools/benign.py list
  tools/benign.py run [name-substring ...]      (default: all)

Sources: benign/<id>/patch.diff (+ meta.json). Results are appended to benign/RESULTS.tsv.
"""
import concurrent.futures
import glob
import json
import os
import re
import subprocess
import sys
import time

ROOT = os.path.dirname(os.path.dirname(os.path.abspath(__file__)))
REPO = "/repo"
ALL = ["C%02d" % i for i in range(1, 21)]


def sh(cmd, cwd=None, timeout=3600, env=None):
    p = subprocess.run(cmd, cwd=cwd, shell=isinstance(cmd, str), stdout=subprocess.PIPE, stderr=subprocess.STDOUT, text=True, timeout=timeout, env=env)
    return p.returncode, p.stdout


def clean():
    sh("git checkout -- . && git clean -fdq", cwd=REPO)


def changes():
    out = []
    for d in sorted(glob.glob(os.path.join(ROOT, "benign", "*", "patch.diff"))):
        out.append((os.path.basename(os.path.dirname(d)), d))
    return out


def run_check(pid):
    t0 = time.time()
    env = dict(os.environ)
    env.pop("VERIF_NO_REGRESS", None)
    rc, out = sh([os.path.join(ROOT, "check"), pid, "quick"], cwd=ROOT, env=env)
    why = ""
    m = re.search(r"reason: (.*)", out)
    if m:
        why = m.group(1)[:200]
    elif rc != 0:
        why = out.strip().splitlines()[0][:200] if out.strip() else ""
    return pid, rc, time.time() - t0, why


def main():
    if len(sys.argv) < 2 or sys.argv[1] == "list":
        for name, path in changes():
            print(name, path)
        return 0
    sel = sys.argv[2:]
    rc, out = sh("git status --porcelain", cwd=REPO)
    if out.strip():
        print("refusing: /repo working tree is not clean")
        return 2
    # build once up front so that parallel checks do not race on the first compile
    sh([os.path.join(ROOT, "check"), "--build"], cwd=ROOT)
    rows = []
    for name, path in changes():
        if sel and not any(s in name for s in sel):
            continue
        try:
            rc, out = sh(["git", "apply", "--whitespace=nowarn", path], cwd=REPO)
            if rc != 0:
                rows.append((name, "APPLY-FAILED", out.strip()[-200:].replace("\n", " | ")))
                print("\t".join(rows[-1]), flush=True)
                continue
            rc, out = sh("go build ./... && go vet . >/dev/null 2>&1; go test -count=1 -timeout 90s . 2>&1 | tail -3", cwd=REPO)
            if not re.search(r"^ok\s", out, re.M):
                rows.append((name, "STOCK-FAILS", out.strip()[-300:].replace("\n", " | ")))
                print("\t".join(rows[-1]), flush=True)
                continue
            with concurrent.futures.ThreadPoolExecutor(max_workers=5) as ex:
                res = list(ex.map(run_check, ALL))
            alarms = ["%s=%d(%.0fs) %s" % (p, rc, dt, why) for p, rc, dt, why in res if rc != 0]
            rows.append((name, "ALARM" if alarms else "SILENT", "; ".join(alarms)))
            print("\t".join(rows[-1]), flush=True)
        finally:
            clean()
    with open(os.path.join(ROOT, "benign", "RESULTS.tsv"), "a") as f:
        for r in rows:
            f.write(time.strftime("%Y-%m-%dT%H:%M:%S") + "\t" + "\t".join(r) + "\n")
    for f in glob.glob(os.path.join(ROOT, "replays", "C*.json")):
        os.remove(f)
    return 0


if __name__ == "__main__":
    sys.exit(main())
