#!/usr/bin/env python3
"""False-alarm harness: applies one property-preserving ("benign") change at a time to /repo's working
tree, verifies it still compiles and the stock suite still passes, runs the quick tier of ALL 20
checks (regression witnesses on), and restores the tree. A check that exits 1 on a benign change is a
false alarm of the machinery (or the change is not benign after all: decided by hand, recorded in
benign/<id>/verdict.txt).

  tools/benign.py list
  tools/benign.py run [name-substring ...]      (default: all)
  tools/benign.py prun N [name-substring ...]   the same on N scratch copies in parallel (copies of /verif under
                                                /tmp/verif-ben.<i>, each pointing at its own git worktree of /repo,
                                                /tmp/repo-ben.<i>); /repo itself is not touched; copies removed afterwards

Sources: benign/<id>/patch.diff (+ meta.json). Results are appended to benign/RESULTS.tsv.
"""
import concurrent.futures
import glob
import json
import os
import re
import subprocess
import sys
import time

ROOT = os.environ.get("BEN_ROOT") or os.path.dirname(os.path.dirname(os.path.abspath(__file__)))
REPO = os.environ.get("BEN_REPO") or "/repo"
SHARD = os.environ.get("BEN_SHARD")  # "i/n": worker i of n (prun)
ALL = ["C%02d" % i for i in range(1, 21)]


def sh(cmd, cwd=None, timeout=3600, env=None):
    p = subprocess.run(cmd, cwd=cwd, shell=isinstance(cmd, str), stdout=subprocess.PIPE, stderr=subprocess.STDOUT, text=True, timeout=timeout, env=env)
    return p.returncode, p.stdout


def clean():
    sh("git checkout -- . && git clean -fdq", cwd=REPO)


def changes():
    out = []
    for d in sorted(glob.glob(os.path.join(ROOT, "benign", "*", "patch.diff"))):
        out.append((os.path.basename(os.path.dirname(d)), d))
    return out


def run_check(pid):
    t0 = time.time()
    env = dict(os.environ)
    env.pop("VERIF_NO_REGRESS", None)
    rc, out = sh([os.path.join(ROOT, "check"), pid, "quick"], cwd=ROOT, env=env)
    why = ""
    m = re.search(r"reason: (.*)", out)
    if m:
        why = m.group(1)[:200]
    elif rc != 0:
        why = out.strip().splitlines()[0][:200] if out.strip() else ""
    return pid, rc, time.time() - t0, why


def prun():
    n = int(sys.argv[2])
    sel = sys.argv[3:]
    here = os.path.dirname(os.path.dirname(os.path.abspath(__file__)))
    results_path = os.path.join(here, "benign", "RESULTS.tsv")
    try:
        baselen = len(open(results_path).read().splitlines())
    except OSError:
        baselen = 0
    procs = []
    try:
        for i in range(n):
            vroot, rroot = "/tmp/verif-ben.%d" % i, "/tmp/repo-ben.%d" % i
            sh("rm -rf %s; git -C /repo worktree remove --force %s 2>/dev/null; rm -rf %s; git -C /repo worktree prune" % (vroot, rroot, rroot))
            rc, out = sh("git -C /repo worktree add --detach %s HEAD" % rroot)
            if rc != 0:
                print(out)
                return 2
            sh("rsync -a --exclude .git --exclude .build --exclude .stats --exclude 'replays/C*.json' %s/ %s/" % (here, vroot))
            sh("sed -i 's#=> /repo#=> %s#' %s/go.mod" % (rroot, vroot))
            env = dict(os.environ, BEN_ROOT=vroot, BEN_REPO=rroot, BEN_SHARD="%d/%d" % (i, n))
            procs.append(subprocess.Popen([sys.executable, os.path.join(vroot, "tools", "benign.py"), "run"] + sel, env=env))
        for p in procs:
            p.wait()
        with open(results_path, "a") as f:
            for i in range(n):
                try:
                    lines = open("/tmp/verif-ben.%d/benign/RESULTS.tsv" % i).read().splitlines()
                except OSError:
                    continue
                f.write("".join(l + "\n" for l in lines[baselen:]))
    finally:
        for i in range(n):
            sh("rm -rf /tmp/verif-ben.%d; git -C /repo worktree remove --force /tmp/repo-ben.%d 2>/dev/null; rm -rf /tmp/repo-ben.%d; git -C /repo worktree prune" % (i, i, i))
    return 0


def main():
    if len(sys.argv) >= 3 and sys.argv[1] == "prun":
        return prun()
    if len(sys.argv) < 2 or sys.argv[1] == "list":
        for name, path in changes():
            print(name, path)
        return 0
    sel = sys.argv[2:]
    rc, out = sh("git status --porcelain", cwd=REPO)
    if out.strip():
        print("refusing: /repo working tree is not clean")
        return 2
    # build once up front so that parallel checks do not race on the first compile
    sh([os.path.join(ROOT, "check"), "--build"], cwd=ROOT)
    rows = []
    todo = [c for c in changes() if not sel or any(s in c[0] for s in sel)]
    if SHARD:
        i, n = map(int, SHARD.split("/"))
        todo = todo[i::n]
    for name, path in todo:
        try:
            rc, out = sh(["git", "apply", "--whitespace=nowarn", path], cwd=REPO)
            if rc != 0:
                rows.append((name, "APPLY-FAILED", out.strip()[-200:].replace("\n", " | ")))
                print("\t".join(rows[-1]), flush=True)
                continue
            rc, out = sh("go build ./... && go vet . >/dev/null 2>&1; go test -count=1 -timeout 90s . 2>&1 | tail -3", cwd=REPO)
            if not re.search(r"^ok\s", out, re.M):
                rows.append((name, "STOCK-FAILS", out.strip()[-300:].replace("\n", " | ")))
                print("\t".join(rows[-1]), flush=True)
                continue
            with concurrent.futures.ThreadPoolExecutor(max_workers=5) as ex:
                res = list(ex.map(run_check, ALL))
            alarms = ["%s=%d(%.0fs) %s" % (p, rc, dt, why) for p, rc, dt, why in res if rc != 0]
            rows.append((name, "ALARM" if alarms else "SILENT", "; ".join(alarms)))
            print("\t".join(rows[-1]), flush=True)
        finally:
            clean()
    with open(os.path.join(ROOT, "benign", "RESULTS.tsv"), "a") as f:
        for r in rows:
            f.write(time.strftime("%Y-%m-%dT%H:%M:%S") + "\t" + "\t".join(r) + "\n")
    for f in glob.glob(os.path.join(ROOT, "replays", "C*.json")):
        os.remove(f)
    return 0


if __name__ == "__main__":
    sys.exit(main())
