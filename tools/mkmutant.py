#!/usr/bin/env python3
"""tools/mkmutant.py <name> "<props>" <file> <old> <new> [<file> <old> <new> ...]
Creates mutants/<name>.diff by replacing the first occurrence of <old> with <new> in /repo/<file>
(working tree restored afterwards)."""
import subprocess, sys
name, props = sys.argv[1], sys.argv[2]
rest = sys.argv[3:]
assert len(rest) % 3 == 0 and rest
for i in range(0, len(rest), 3):
    f, old, new = rest[i:i+3]
    old = old.encode().decode('unicode_escape'); new = new.encode().decode('unicode_escape')
    p = '/repo/' + f
    s = open(p).read()
    if old not in s:
        subprocess.run(['git', '-C', '/repo', 'checkout', '--', '.'])
        sys.exit("pattern not found in %s: %r" % (f, old))
    open(p, 'w').write(s.replace(old, new, 1))
d = subprocess.run(['git', '-C', '/repo', 'diff'], capture_output=True, text=True).stdout
subprocess.run(['git', '-C', '/repo', 'checkout', '--', '.'])
open('/verif/mutants/%s.diff' % name, 'w').write("# props: %s\n%s" % (props, d))
print("wrote mutants/%s.diff (%d lines)" % (name, d.count('\n')))
