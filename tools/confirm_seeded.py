#!/usr/bin/env python3
"""tools/confirm_seeded.py <worktree> <property-id> [round-tag]: re-verifies every change<i> an agent left in <worktree>/OUT
(compiles, stock suite passes with it, demo fails with it, demo passes without) and stores the confirmed ones under
/verif/seeded/<ID>-<i>/ (patch.diff, demo_test.go, meta.json)."""
import glob, json, os, re, shutil, subprocess, sys
wt, pid = sys.argv[1], sys.argv[2]
round_tag = sys.argv[3] + "-" if len(sys.argv) > 3 else ""
ENV = dict(os.environ, GOFLAGS="-mod=mod", GOPROXY="off", GOSUMDB="off", GOTOOLCHAIN="local")
def sh(cmd, timeout=600):
    p = subprocess.run(cmd, cwd=wt, shell=True, env=ENV, stdout=subprocess.PIPE, stderr=subprocess.STDOUT, text=True, timeout=timeout)
    return p.returncode, p.stdout
def clean():
    sh("git checkout -- . && rm -f zz_seeded_demo_test.go")
for diff in sorted(glob.glob(os.path.join(wt, "OUT", "change*.diff"))):
    i = re.search(r"change(\d+)\.diff", diff).group(1)
    demo = os.path.join(wt, "OUT", "change%s_demo_test.go" % i)
    meta = json.load(open(os.path.join(wt, "OUT", "change%s_meta.json" % i)))
    race = "-race " if meta.get("race") else ""
    clean()
    rc, out = sh("git apply --whitespace=nowarn %s" % diff)
    if rc: print(pid, i, "APPLY FAILED", out[-300:]); continue
    rc, out = sh("go build ./... && go vet . && go test -count=1 -timeout 150s . 2>&1 | tail -3")
    stock_ok = bool(re.search(r"^ok\s", out, re.M))
    shutil.copy(demo, os.path.join(wt, "zz_seeded_demo_test.go"))
    rc1, out1 = sh("go test %s-count=1 -timeout 200s -run 'TestSeeded' . 2>&1 | tail -15" % race)
    fails_with = not re.search(r"^ok\s", out1, re.M)
    sh("git checkout -- .")
    rc2, out2 = sh("go test %s-count=1 -timeout 200s -run 'TestSeeded' . 2>&1 | tail -5" % race)
    passes_without = bool(re.search(r"^ok\s", out2, re.M))
    clean()
    ok = stock_ok and fails_with and passes_without
    print(pid, i, "CONFIRMED" if ok else "REJECTED", "stock_ok=%s demo_fails_with=%s demo_passes_without=%s" % (stock_ok, fails_with, passes_without), "-", meta.get("summary", "")[:150])
    if not ok:
        print(out[-400:], out1[-400:], out2[-400:]); continue
    d = os.path.join("/verif/seeded", "%s-%s%s" % (pid, round_tag, i))
    os.makedirs(d, exist_ok=True)
    shutil.copy(diff, os.path.join(d, "patch.diff"))
    shutil.copy(demo, os.path.join(d, "demo_test.go.txt"))
    meta["confirmed"] = {"base_commit": subprocess.run("git rev-parse --short HEAD", cwd=wt, shell=True, stdout=subprocess.PIPE, text=True).stdout.strip(),
                         "ran": ["git apply patch.diff; go build ./... && go vet . && go test -count=1 . -> ok (stock suite passes with the change)",
                                 "go test %s-run TestSeeded . with the change -> FAIL" % race, "same without the change -> ok"]}
    json.dump(meta, open(os.path.join(d, "meta.json"), "w"), indent=1)
