package props

import (
	"fmt"
	"strings"
	"testing"
	"time"
	"unicode"
	"unicode/utf8"

	"github.com/emersion/go-sasl"
	"github.com/emersion/go-smtp"
	"pgregory.net/rapid"

	"verif/harness"
	"verif/ref"
)

// C14 - envelope and options survive the client-to-server trip unchanged.

type c14Case struct {
	ServerUTF8 bool   `json:"server_utf8"`
	TLS        bool   `json:"tls"` // implicit TLS (so that REQUIRETLS is offered)
	From       string `json:"from"`
	To         string `json:"to"`
	// MailOptions
	HasMailOpts bool    `json:"has_mail_opts"`
	Size        int64   `json:"size"`
	RequireTLS  bool    `json:"requiretls"`
	UTF8        bool    `json:"utf8"`
	Return      string  `json:"ret"`
	EnvID       string  `json:"envid"`
	Auth        *string `json:"auth"`
	// RcptOptions
	HasRcptOpts bool     `json:"has_rcpt_opts"`
	Notify      []string `json:"notify"`
	ORcptType   string   `json:"orcpt_type"`
	ORcpt       string   `json:"orcpt"`
	RRVS        int64    `json:"rrvs"` // unix seconds, 0 = unset
	RRVSOffset  int      `json:"rrvs_offset"`
	// The rest of the server's configuration has no bearing on the envelope:
	// a recipient limit, a size limit (above every declared SIZE is not
	// possible, so it is only set when no SIZE is declared or SIZE fits), the
	// other optional extensions, LMTP.
	RcptMax    int   `json:"rcpt_max,omitempty"`
	SizeLimit  int64 `json:"size_limit,omitempty"`
	BinaryMIME bool  `json:"binarymime,omitempty"`
	LMTP       bool  `json:"lmtp,omitempty"`
	// Prelude: what happens on the connection before the judged MAIL/RCPT:
	// "" nothing, "auth" a successful AUTH PLAIN, "txn" a complete earlier
	// transaction, "auth+txn"; with Reset the client calls Reset after it
	// (which renegotiates the capabilities).
	Prelude string `json:"prelude,omitempty"`
	Reset   bool   `json:"reset,omitempty"`
	// LocalRefusal: before the judged Mail, and again before the judged Rcpt,
	// a call that the client itself turns down (an unknown RET value, an
	// unknown NOTIFY item): nothing was sent, nothing is left over
	LocalRefusal bool `json:"local_refusal,omitempty"`
	// Frag > 0: the server's replies reach the client in segments of at most
	// Frag octets (a network may deliver a reply octet by octet)
	Frag int `json:"frag,omitempty"`
}

func printable(s string) bool {
	for i := 0; i < len(s); i++ {
		if s[i] < 0x20 || s[i] > 0x7e {
			return false
		}
	}
	return true
}

// textDomain: printable ASCII or non-ASCII UTF-8 text (the domain the property
// guarantees).
func textDomain(s string) bool {
	if !utf8.ValidString(s) {
		return false
	}
	for _, r := range s {
		if r < 0x20 || r == 0x7f {
			return false
		}
		if r >= 0x80 && r <= 0x9f {
			return false // C1 controls are not text
		}
	}
	return true
}

func c14Run(c c14Case) Verdict {
	cfg := harness.Config{UTF8: c.ServerUTF8, DSN: true, RRVS: true, RequireTLS: true, AllowInsecureAuth: true,
		MaxRecipients: c.RcptMax, MaxMessageBytes: c.SizeLimit, BinaryMIME: c.BinaryMIME, LMTP: c.LMTP, FragmentReplies: c.Frag}
	if c.TLS {
		cfg.TLS = "implicit"
	}
	r := harness.NewRig(cfg, harness.Script{AuthSession: true, Mechs: []string{"PLAIN"}, LMTPSession: c.LMTP,
		SASL: []harness.SASLScript{{SkipChallengesWithIR: true}}})
	var mo *smtp.MailOptions
	if c.HasMailOpts {
		mo = &smtp.MailOptions{Size: c.Size, RequireTLS: c.RequireTLS, UTF8: c.UTF8, Return: smtp.DSNReturn(c.Return), EnvelopeID: c.EnvID}
		if c.Auth != nil {
			a := *c.Auth
			mo.Auth = &a
		}
	}
	var ro *smtp.RcptOptions
	var rrvs time.Time
	if c.HasRcptOpts {
		ro = &smtp.RcptOptions{OriginalRecipientType: smtp.DSNAddressType(c.ORcptType), OriginalRecipient: c.ORcpt}
		for _, n := range c.Notify {
			ro.Notify = append(ro.Notify, smtp.DSNNotify(n))
		}
		if c.RRVS != 0 {
			rrvs = time.Unix(c.RRVS, 0).In(time.FixedZone("", c.RRVSOffset*60))
			ro.RequireRecipientValidSince = rrvs
		}
	}
	var mailErr, rcptErr error
	var preErr error
	preMails, preRcpts := 0, 0
	ok := withClient(r, c.LMTP, func(cl *smtp.Client, w *harness.Wire) {
		if err := cl.Hello("cli"); err != nil {
			mailErr = fmt.Errorf("hello: %w", err)
			return
		}
		if strings.Contains(c.Prelude, "auth") {
			if err := cl.Auth(sasl.NewPlainClient("", "u", "pw")); err != nil {
				preErr = fmt.Errorf("prelude AUTH: %w", err)
				return
			}
		}
		if strings.Contains(c.Prelude, "txn") {
			preMails, preRcpts = 1, 1
			if err := cl.SendMail("p@x", []string{"q@x"}, strings.NewReader("earlier message\r\n")); err != nil {
				preErr = fmt.Errorf("prelude transaction: %w", err)
				return
			}
		}
		if c.Reset {
			if err := cl.Reset(); err != nil {
				preErr = fmt.Errorf("prelude Reset: %w", err)
				return
			}
		}
		if c.LocalRefusal {
			if err := cl.Mail("refused@x", &smtp.MailOptions{Size: 77, EnvelopeID: "left+over=", Return: smtp.DSNReturn("SOMETHING")}); err == nil {
				preErr = fmt.Errorf("prelude: Mail with an unknown RET value was not refused")
				return
			}
		}
		mailErr = cl.Mail(c.From, mo)
		if mailErr != nil {
			return
		}
		if c.LocalRefusal {
			if err := cl.Rcpt("refused@y", &smtp.RcptOptions{Notify: []smtp.DSNNotify{smtp.DSNNotify("SOMETIMES")}, OriginalRecipientType: smtp.DSNAddressTypeRFC822, OriginalRecipient: "left@over"}); err == nil {
				preErr = fmt.Errorf("prelude: Rcpt with an unknown NOTIFY item was not refused")
				return
			}
		}
		rcptErr = cl.Rcpt(c.To, ro)
	})
	if !ok {
		return Verdict{Inconclusive: "watchdog in client run"}
	}
	if p := r.Log.Panicked(); p != "" {
		return failf("panic", "server logged a panic: %s", p)
	}
	if preErr != nil {
		return Verdict{Inconclusive: preErr.Error()}
	}
	evs := r.B.Events()
	mails, rcpts := eventsOf(evs, "Mail", true), eventsOf(evs, "Rcpt", true)
	if len(mails) < preMails || len(rcpts) < preRcpts {
		return Verdict{Inconclusive: "the prelude transaction did not reach the backend"}
	}
	mails, rcpts = mails[preMails:], rcpts[preRcpts:]
	v := Verdict{}
	if c.Prelude != "" || c.Reset {
		v.Classes = append(v.Classes, "after_prelude")
	}
	if c.RcptMax > 0 || c.SizeLimit > 0 || c.BinaryMIME || c.LMTP {
		v.Classes = append(v.Classes, "other_server_settings")
	}
	needsEnc := func(s string) bool { return strings.ContainsAny(s, "+= \\{}\x7f") || !printable(s) }
	v.NonTrivial = needsEnc(c.EnvID) || needsEnc(c.ORcpt) || (c.Auth != nil && (needsEnc(*c.Auth) || *c.Auth == ""))
	if v.NonTrivial {
		v.Classes = append(v.Classes, "value_needs_encoding")
	}
	// which values lie inside the guaranteed domain?
	mailDomain := printable(c.EnvID) && len(c.EnvID) <= 100 && (c.Auth == nil || printable(*c.Auth)) &&
		(c.Return == "" || c.Return == "FULL" || c.Return == "HDRS") && (!c.RequireTLS || c.TLS) && (!c.UTF8 || c.ServerUTF8)
	rcptDomain := true
	switch c.ORcptType {
	case "":
		rcptDomain = c.ORcpt == ""
	case "RFC822":
		rcptDomain = printable(c.ORcpt)
	case "UTF-8":
		rcptDomain = textDomain(c.ORcpt)
	default:
		rcptDomain = false
	}
	if !mailDomain || !rcptDomain {
		v.Classes = append(v.Classes, "outside_domain")
	}
	isLocal := func(err error) bool {
		_, smtpErr := err.(*smtp.SMTPError)
		return err != nil && !smtpErr
	}
	// MAIL
	if mailErr != nil {
		if !c.HasMailOpts || mailDomain {
			return failf("mail-refused", "Mail(%q, %+v) failed: %v (client wire form refused by the server, or local refusal of an in-domain value)", c.From, fmtOpts(mo), mailErr)
		}
		if !isLocal(mailErr) && len(mails) != 0 {
			return failf("mail-refused-after-callback", "Mail failed with %v but the backend was called", mailErr)
		}
		return v // outside the domain: refused is fine
	}
	if len(mails) != 1 {
		return failf("mail-callbacks", "Mail succeeded but the backend saw %d Mail calls", len(mails))
	}
	got := mails[0]
	if got.From != c.From {
		return failf("from-differs", "sender %q arrived as %q", c.From, got.From)
	}
	if c.HasMailOpts {
		o := got.MailOpts
		authEq := (o.Auth == nil) == (c.Auth == nil) && (o.Auth == nil || *o.Auth == *c.Auth || (len(*c.Auth) > 0 && (*c.Auth)[0] == '"' && unquoteLocal(*c.Auth) == *o.Auth))
		if o.Size != c.Size || o.RequireTLS != c.RequireTLS || o.UTF8 != c.UTF8 || string(o.Return) != c.Return || o.EnvelopeID != c.EnvID || !authEq {
			return failf("mail-options-differ", "client passed %s, backend received %s", fmtOpts(mo), fmtMailOpts(o))
		}
		if o.Body != "" && o.Body != smtp.Body8BitMIME {
			return failf("body", "Body arrived as %q", o.Body)
		}
	}
	// RCPT
	if rcptErr != nil {
		if !c.HasRcptOpts || rcptDomain {
			return failf("rcpt-refused", "Rcpt(%q, %+v) failed: %v (client wire form refused by the server, or local refusal of an in-domain value)", c.To, ro, rcptErr)
		}
		return v
	}
	if len(rcpts) != 1 {
		return failf("rcpt-callbacks", "Rcpt succeeded but the backend saw %d Rcpt calls", len(rcpts))
	}
	gr := rcpts[0]
	if gr.To != c.To {
		return failf("to-differs", "recipient %q arrived as %q", c.To, gr.To)
	}
	if c.HasRcptOpts {
		o := gr.RcptOpts
		var gotN []string
		for _, n := range o.Notify {
			gotN = append(gotN, string(n))
		}
		if strings.Join(gotN, ",") != strings.Join(c.Notify, ",") {
			return failf("notify-differs", "NOTIFY %v arrived as %v", c.Notify, gotN)
		}
		if c.ORcpt != "" && (string(o.OriginalRecipientType) != c.ORcptType || o.OriginalRecipient != c.ORcpt) {
			return failf("orcpt-differs", "ORCPT %s;%q arrived as %s;%q", c.ORcptType, c.ORcpt, o.OriginalRecipientType, o.OriginalRecipient)
		}
		if c.ORcpt == "" && o.OriginalRecipient != "" {
			return failf("orcpt-differs", "no ORCPT given, backend received %q", o.OriginalRecipient)
		}
		if c.RRVS != 0 {
			if o.RequireRecipientValidSince.Unix() != c.RRVS {
				return failf("rrvs-differs", "RRVS %v arrived as %v", rrvs, o.RequireRecipientValidSince)
			}
		} else if !o.RequireRecipientValidSince.IsZero() {
			return failf("rrvs-differs", "no RRVS given, backend received %v", o.RequireRecipientValidSince)
		}
	}
	return v
}

func unquoteLocal(mb string) string {
	var sb strings.Builder
	i := 1
	for i < len(mb) {
		if mb[i] == '\\' && i+1 < len(mb) {
			sb.WriteByte(mb[i+1])
			i += 2
			continue
		}
		if mb[i] == '"' {
			i++
			break
		}
		sb.WriteByte(mb[i])
		i++
	}
	return sb.String() + mb[i:]
}

func fmtOpts(o *smtp.MailOptions) string {
	if o == nil {
		return "nil"
	}
	return fmtMailOpts(o)
}

// ---- addresses put together from pieces ----

type c14AddrCase struct {
	ServerUTF8 bool   `json:"server_utf8"`
	From       string `json:"from"`
	To         string `json:"to"`
	ClientUTF8 bool   `json:"client_utf8"` // MailOptions.UTF8
	// ViaSendMail: the envelope is handed to Client.SendMail (one call for
	// sender, recipient and message) instead of Mail and Rcpt
	ViaSendMail bool `json:"via_sendmail,omitempty"`
}

// c14AddrRun: whatever sender / recipient string the client API accepts (the
// call returns nil) is what the backend observes. A string that is a
// well-formed RFC 5321 mailbox (independent reference grammar) must be
// accepted.
func c14AddrRun(c c14AddrCase) Verdict {
	cfg := harness.Config{UTF8: c.ServerUTF8, DSN: true, RRVS: true, AllowInsecureAuth: true}
	r := harness.NewRig(cfg, harness.Script{})
	var mailErr, rcptErr error
	var mo *smtp.MailOptions
	if c.ClientUTF8 {
		mo = &smtp.MailOptions{UTF8: true}
	}
	var sendErr error
	ok := withClient(r, false, func(cl *smtp.Client, w *harness.Wire) {
		if err := cl.Hello("cli"); err != nil {
			mailErr = fmt.Errorf("hello: %w", err)
			return
		}
		if c.ViaSendMail {
			sendErr = cl.SendMail(c.From, []string{c.To}, strings.NewReader("Subject: x\r\n\r\nbody\r\n"))
			return
		}
		mailErr = cl.Mail(c.From, mo)
		if mailErr != nil {
			// a transaction is needed for the recipient
			if err := cl.Mail("fallback@x", nil); err != nil {
				rcptErr = fmt.Errorf("fallback MAIL: %w", err)
				return
			}
		}
		rcptErr = cl.Rcpt(c.To, nil)
	})
	if !ok {
		return Verdict{Inconclusive: "watchdog in client run"}
	}
	if p := r.Log.Panicked(); p != "" {
		return failf("panic", "server logged a panic: %s", p)
	}
	evs := r.B.Events()
	mails, rcpts := eventsOf(evs, "Mail", true), eventsOf(evs, "Rcpt", true)
	flags := ref.Flags{UTF8: c.ServerUTF8, DSN: true, RRVS: true}
	v := Verdict{}
	judge := func(mail bool, addr string, err error, got []string) *Verdict {
		what, line := "recipient", "TO:<"+addr+">"
		if mail {
			what, line = "sender", "FROM:<"+addr+">"
			if cfgBody := " BODY=8BITMIME"; true {
				line += cfgBody // the client adds it when 8BITMIME is offered
			}
			if c.ClientUTF8 && c.ServerUTF8 {
				line += " SMTPUTF8"
			}
		}
		res := ref.Classify(mail, line, flags)
		wellFormed := res.Class == ref.Valid && len(res.Mailboxes) > 0 && contains(res.Mailboxes, addr)
		special := strings.ContainsAny(addr, "<> \"\\:,;()[]") || !printable(addr)
		if special {
			v.NonTrivial = true
		}
		if wellFormed {
			v.Classes = append(v.Classes, what+"_well_formed")
		} else {
			v.Classes = append(v.Classes, what+"_not_a_plain_mailbox")
		}
		if bracketOutsideQuotes(addr) {
			v.Classes = append(v.Classes, what+"_bare_angle_bracket")
		}
		if err != nil {
			if _, isSMTP := err.(*smtp.SMTPError); wellFormed && (isSMTP || true) {
				if mail && c.ClientUTF8 && !c.ServerUTF8 {
					return nil // SMTPUTF8 requested but not offered: local error, C15
				}
				f := failf("addr-refused", "%s %q is a well-formed mailbox but the call failed: %v", what, addr, err)
				return &f
			}
			return nil
		}
		if len(got) != 1 {
			f := failf("addr-callbacks", "%s %q was accepted but the backend saw %d calls", what, addr, len(got))
			return &f
		}
		// a well-formed path may legitimately arrive in another spelling
		// (source route ignored, quoted local part unquoted): the reference
		// grammar lists the acceptable values
		routeless := addr
		if i := strings.IndexByte(addr, ':'); strings.HasPrefix(addr, "@") && i >= 0 {
			routeless = addr[i+1:] // receivers ignore a source route (RFC 5321 4.1.1.3)
		}
		okSpellings := []string{addr, routeless}
		for _, x := range []string{addr, routeless} {
			if strings.HasPrefix(x, "\"") {
				okSpellings = append(okSpellings, unquoteLocal(x))
			}
		}
		if res.Class == ref.Valid {
			okSpellings = append(okSpellings, res.Mailboxes...)
		}
		if !contains(okSpellings, got[0]) {
			f := failf("addr-differs", "%s %q was accepted by the client API but the backend observed %q", what, addr, got[0])
			return &f
		}
		v.Classes = append(v.Classes, what+"_accepted")
		return nil
	}
	if c.ViaSendMail {
		// one call: if it succeeds, both were accepted; otherwise whatever
		// reached the backend must still be what was given
		v.Classes = append(v.Classes, "via_sendmail")
		if strings.ContainsAny(c.From+c.To, "<> \"\\:,;()[]") || !printable(c.From+c.To) {
			v.NonTrivial = true
		}
		check := func(what, addr string, got []string) *Verdict {
			routeless := addr
			if i := strings.IndexByte(addr, ':'); strings.HasPrefix(addr, "@") && i >= 0 {
				routeless = addr[i+1:]
			}
			okSpellings := []string{addr, routeless}
			for _, x := range []string{addr, routeless} {
				if strings.HasPrefix(x, "\"") {
					okSpellings = append(okSpellings, unquoteLocal(x))
				}
			}
			for _, g := range got {
				if !contains(okSpellings, g) {
					f := failf("addr-differs", "SendMail: %s %q reached the backend as %q", what, addr, g)
					return &f
				}
			}
			if sendErr == nil && len(got) != 1 {
				f := failf("addr-callbacks", "SendMail succeeded but the backend saw %d %s calls", len(got), what)
				return &f
			}
			return nil
		}
		var gf, gt []string
		for _, e := range mails {
			gf = append(gf, e.From)
		}
		for _, e := range rcpts {
			gt = append(gt, e.To)
		}
		if bad := check("sender", c.From, gf); bad != nil {
			return *bad
		}
		if bad := check("recipient", c.To, gt); bad != nil {
			return *bad
		}
		fl := ref.Classify(true, "FROM:<"+c.From+"> BODY=8BITMIME", flags)
		tl := ref.Classify(false, "TO:<"+c.To+">", flags)
		if sendErr != nil && fl.Class == ref.Valid && contains(fl.Mailboxes, c.From) && tl.Class == ref.Valid && contains(tl.Mailboxes, c.To) {
			return failf("addr-refused", "SendMail(%q, %q) failed although both are well-formed mailboxes: %v", c.From, c.To, sendErr)
		}
		return v
	}
	var gotFrom, gotTo []string
	for _, e := range mails {
		if e.From != "fallback@x" || c.From == "fallback@x" {
			gotFrom = append(gotFrom, e.From)
		}
	}
	for _, e := range rcpts {
		gotTo = append(gotTo, e.To)
	}
	if strings.HasPrefix(fmt.Sprint(mailErr), "hello:") || strings.HasPrefix(fmt.Sprint(rcptErr), "fallback MAIL:") {
		return Verdict{Inconclusive: fmt.Sprint(mailErr, rcptErr)}
	}
	if bad := judge(true, c.From, mailErr, gotFrom); bad != nil {
		return *bad
	}
	if bad := judge(false, c.To, rcptErr, gotTo); bad != nil {
		return *bad
	}
	return v
}

// bracketOutsideQuotes reports whether s has a '<' or '>' that is not inside a
// quoted string.
func bracketOutsideQuotes(s string) bool {
	inq := false
	for i := 0; i < len(s); i++ {
		switch {
		case inq && s[i] == '\\' && i+1 < len(s):
			i++
		case s[i] == '"':
			inq = !inq
		case !inq && (s[i] == '<' || s[i] == '>'):
			return true
		}
	}
	return false
}

var c14AddrPieces = []string{"a", "b1", "user", ".", "..", "@", "@", "x.org", "d", "[1.2.3.4]", "[IPv6:::1]", "\"q s\"", "\"a\\\"b\"", "\"a>b\"", "<", ">", " ", "SIZE=1", "ENVID=x",
	"BODY=8BITMIME", "NOTIFY=NEVER", "SMTPUTF8", ":", ",", "@r1,@r2:", "é", "ü", "用", "\\", "(c)", ";", "+", "=", "-", "_", "!", "%", "\t", "\"", "xn--bcher-kva.example", "bücher.example", "\u3000", "\u00a0", "\u0085", "\u2003"}

func c14GenAddr(t *rapid.T, label string) string {
	switch rapid.IntRange(0, 4).Draw(t, label+"_shape") {
	case 4:
		// a mailbox, a closing bracket, and something that would be a valid
		// ESMTP parameter if the path ended there
		return rapid.SampledFrom([]string{"a@b", "user@x.org", "\"q s\"@d", ""}).Draw(t, label+"_base") + ">" +
			rapid.SampledFrom([]string{"", " ", "  ", "\t"}).Draw(t, label+"_sep") +
			rapid.SampledFrom([]string{"ENVID=x", "SIZE=1", "BODY=8BITMIME", "BODY=7BIT", "NOTIFY=NEVER", "NOTIFY=SUCCESS", "SMTPUTF8", "RET=HDRS", "ORCPT=rfc822;a@b", "AUTH=<>", "RRVS=2014-04-03T23:01:00Z"}).Draw(t, label+"_param") +
			rapid.SampledFrom([]string{"", "", " <", "<"}).Draw(t, label+"_open")
	case 0:
		// local@domain from pieces
		return c14Join(t, label+"_l", 1, 3) + "@" + c14Join(t, label+"_d", 1, 3)
	case 1:
		// a well-formed mailbox with something appended behind it
		return rapid.SampledFrom([]string{"a@b", "user@x.org", "\"q s\"@d"}).Draw(t, label+"_base") + c14Join(t, label+"_tail", 1, 3)
	}
	return c14Join(t, label+"_any", 1, 6)
}

func c14Join(t *rapid.T, label string, lo, hi int) string {
	var sb strings.Builder
	for i, n := 0, rapid.IntRange(lo, hi).Draw(t, label+"_n"); i < n; i++ {
		sb.WriteString(rapid.SampledFrom(c14AddrPieces).Draw(t, label))
	}
	return sb.String()
}

// ---- generators ----

var c14NotifySets = [][]string{nil, {"NEVER"}, {"SUCCESS"}, {"FAILURE"}, {"DELAY"}, {"SUCCESS", "FAILURE"}, {"FAILURE", "SUCCESS"}, {"SUCCESS", "DELAY"}, {"DELAY", "SUCCESS"},
	{"FAILURE", "DELAY"}, {"DELAY", "FAILURE"}, {"SUCCESS", "FAILURE", "DELAY"}, {"DELAY", "FAILURE", "SUCCESS"}, {"FAILURE", "DELAY", "SUCCESS"}}

func c14GenText(t *rapid.T, label string, ascii bool) string {
	pieces := []string{"a", "Z", "0", "+", "=", " ", "\\", "{", "}", "x", "41", "+2B", "\\x{41}", "~", "!", "\"", "<", ">", "@", ";", ",", ".", "%", "'"}
	if !ascii {
		pieces = append(pieces, "é", "€", "😀", "ü", "用")
	}
	n := rapid.IntRange(1, 8).Draw(t, label+"_n")
	var sb strings.Builder
	for i := 0; i < n; i++ {
		sb.WriteString(rapid.SampledFrom(pieces).Draw(t, label))
	}
	return sb.String()
}

func c14Gen(t *rapid.T) c14Case {
	c := c14Case{ServerUTF8: rapid.Bool().Draw(t, "server_utf8"), TLS: rapid.IntRange(0, 3).Draw(t, "tls") == 0}
	c.Frag = rapid.SampledFrom([]int{0, 0, 0, 1, 6}).Draw(t, "frag")
	c.From = rapid.SampledFrom([]string{"sender@example.org", "a@b", "first.last@x.y", "u+tag@d", ""}).Draw(t, "from")
	c.To = rapid.SampledFrom([]string{"rcpt@example.org", "c@d", "r.s@t.u"}).Draw(t, "to")
	c.HasMailOpts = rapid.IntRange(0, 9).Draw(t, "mo") != 0
	if c.HasMailOpts {
		if rapid.Bool().Draw(t, "p_size") {
			c.Size = rapid.SampledFrom([]int64{1, 1024, 4294967295, 4294967296, 9223372036854775807}).Draw(t, "size")
		}
		c.RequireTLS = c.TLS && rapid.Bool().Draw(t, "rtls")
		c.UTF8 = c.ServerUTF8 && rapid.Bool().Draw(t, "utf8")
		c.Return = rapid.SampledFrom([]string{"", "", "FULL", "HDRS"}).Draw(t, "ret")
		if rapid.Bool().Draw(t, "p_envid") {
			c.EnvID = c14GenText(t, "envid", true)
		}
		switch rapid.IntRange(0, 4).Draw(t, "p_auth") {
		case 0:
		case 1:
			e := ""
			c.Auth = &e
		default:
			a := rapid.SampledFrom([]string{"user@example.org", "a+b@c", "x=y@z", "first.last@d.e", "a!#$%&'*+-/=?^_`{|}~z@q"}).Draw(t, "auth")
			if rapid.IntRange(0, 2).Draw(t, "auth_from_pieces") == 0 {
				// local part put together from atom characters, '+', '=' and
				// (with SMTPUTF8 on both sides) non-ASCII text
				pieces := []string{"a", "Z", "0", "+", "=", ".x", "-", "_", "!", "%", "{", "}", "~", "41", "+2B"}
				if c.UTF8 {
					pieces = append(pieces, "é", "€", "用", "ü")
				}
				var sb strings.Builder
				for i, n := 0, rapid.IntRange(1, 6).Draw(t, "auth_n"); i < n; i++ {
					sb.WriteString(rapid.SampledFrom(pieces).Draw(t, "auth_piece"))
				}
				a = strings.TrimPrefix(sb.String(), ".") + "@example.org"
			}
			c.Auth = &a
		}
		if c.UTF8 && rapid.Bool().Draw(t, "ufrom") {
			c.From = "üser@bücher.example"
		}
	}
	if rapid.Bool().Draw(t, "other_settings") {
		c.RcptMax = rapid.SampledFrom([]int{0, 1, 5}).Draw(t, "rcpt_max")
		c.BinaryMIME = rapid.Bool().Draw(t, "binarymime")
		c.LMTP = rapid.IntRange(0, 3).Draw(t, "lmtp") == 0
		if c.Size <= 1024 && rapid.Bool().Draw(t, "size_limit") {
			c.SizeLimit = rapid.SampledFrom([]int64{1024, 1 << 20}).Draw(t, "limit")
		}
	}
	if rapid.IntRange(0, 2).Draw(t, "prelude") == 0 {
		c.Prelude = rapid.SampledFrom([]string{"", "auth", "txn", "auth+txn"}).Draw(t, "prelude_kind")
		c.LocalRefusal = rapid.Bool().Draw(t, "local_refusal")
		c.Reset = rapid.Bool().Draw(t, "reset")
	}
	c.HasRcptOpts = rapid.IntRange(0, 9).Draw(t, "ro") != 0
	if c.HasRcptOpts {
		c.Notify = rapid.SampledFrom(c14NotifySets).Draw(t, "notify")
		switch rapid.IntRange(0, 3).Draw(t, "p_orcpt") {
		case 1:
			c.ORcptType, c.ORcpt = "RFC822", c14GenText(t, "orcpt822", true)
		case 2, 3:
			c.ORcptType, c.ORcpt = "UTF-8", c14GenText(t, "orcptu8", false)
		}
		if rapid.Bool().Draw(t, "p_rrvs") {
			c.RRVS = rapid.Int64Range(86400, 253402300799-2*86400).Draw(t, "rrvs")
			c.RRVSOffset = rapid.SampledFrom([]int{0, 60, -480, 330, 845, -1}).Draw(t, "off")
		}
	}
	return c
}

// c14Single puts one string into each string-valued option in turn.
func c14Single(s string, field int, serverUTF8 bool) c14Case {
	c := c14Case{ServerUTF8: serverUTF8, From: "s@x", To: "r@x", HasMailOpts: true, HasRcptOpts: true}
	switch field {
	case 0:
		c.EnvID = "a" + s + "b"
	case 1:
		c.ORcptType, c.ORcpt = "RFC822", "a"+s+"b@c"
	case 2:
		c.ORcptType, c.ORcpt = "UTF-8", "a"+s+"b@c"
	case 3:
		// AUTH carries a mailbox: specials go into a quoted local part
		a := "a" + s + "b@example.org"
		if strings.ContainsAny(s, "()<>[]:;\\,\" \t@") {
			a = "\"a" + strings.NewReplacer("\\", "\\\\", "\"", "\\\"").Replace(s) + "b\"@example.org"
		}
		c.Auth = &a
	case 4:
		// the character as the value's last one: the last thing on the line
		c.ORcptType, c.ORcpt = "UTF-8", "ab@c"+s
	case 5:
		// ... and as its first, right behind the ';'
		c.ORcptType, c.ORcpt = "UTF-8", s+"ab@c"
	case 6:
		c.EnvID = "ab" + s
	}
	return c
}

var (
	c14Addr   *subCheck[c14AddrCase]
	c14Sub    *subCheck[c14Case]
	c14Scalar *subCheck[c14Case]
	c14Words  *subCheck[c14Case]
)

func init() {
	registrars = append(registrars, func() {
		c14Sub = newSub("C14", "rapid", c14Run)
		c14Scalar = newSub("C14", "scalars", c14Run)
		c14Words = newSub("C14", "words", c14Run)
		c14Addr = newSub("C14", "addr", c14AddrRun)
	})
}

func TestC14(t *testing.T) {
	registerAll()
	st.Rule = "cases = (envelope, every MailOptions/RcptOptions field, server with/without SMTPUTF8, implicit TLS for REQUIRETLS, unrelated server settings (recipient limit, size limit, BINARYMIME, LMTP), optional prelude on the connection: AUTH, an earlier transaction, Client.Reset) sent by the go-smtp client to a go-smtp server; string coverage: every ASCII octet and boundary/sampled (quick) or all (thorough) Unicode scalars individually in ENVID, rfc822-ORCPT, utf-8-ORCPT and AUTH, and all words up to the length bound over the encoding-significant alphabet; oracle = field-by-field equality (refusal allowed only outside the guaranteed text domain); non-trivial = a value containing a character that needs encoding; distinct = hash of the whole case"
	if !regress(t, "C14") {
		return
	}
	idx := 0
	// (i) single scalars
	var scalars []rune
	for r := rune(0); r < 0x80; r++ {
		scalars = append(scalars, r)
	}
	// Unicode white space (what unicode.IsSpace accepts beyond ASCII): text, and
	// a classic way to split a line in the wrong place
	for _, r := range []rune{0x85, 0xa0, 0x1680, 0x2000, 0x2001, 0x2002, 0x2003, 0x2004, 0x2005, 0x2006, 0x2007, 0x2008, 0x2009, 0x200a, 0x2028, 0x2029, 0x202f, 0x205f, 0x3000, 0xfeff, 0x200b} {
		scalars = append(scalars, r)
	}
	for _, r := range []rune{0x80, 0x9f, 0xa0, 0xe9, 0xff, 0x100, 0x7ff, 0x800, 0xfff, 0x1000, 0x20ac, 0xd7ff, 0xe000, 0xfffd, 0xffff, 0x10000, 0x1f600, 0xfffff, 0x100000, 0x10ffff} {
		scalars = append(scalars, r)
	}
	if thorough() {
		for r := rune(0x80); r <= 0x10ffff; r++ {
			if r >= 0xd800 && r <= 0xdfff {
				continue
			}
			scalars = append(scalars, r)
		}
	} else {
		x := uint32(seedBase*2654435761 + 12345)
		for i := 0; i < 3000; i++ {
			x = x*1664525 + 1013904223
			r := rune(x % 0x110000)
			if r >= 0xd800 && r <= 0xdfff || r < 0x80 {
				continue
			}
			scalars = append(scalars, r)
		}
	}
	complete := true
	for _, r := range scalars {
		fields := []int{2, 4, 5}
		if r < 0x80 {
			fields = []int{0, 1, 2, 3, 4, 5, 6}
		}
		if thorough() && r >= 0x3100 && !unicode.IsSpace(r) && !unicode.Is(unicode.Cf, r) {
			// (the complete sweep puts every scalar inside a value; at the
			// ends: the BMP up to U+30FF and every space / format character)
			fields = []int{2}
		}
		for _, f := range fields {
			idx++
			if !mine(idx) {
				continue
			}
			if !c14Scalar.one(t, c14Single(string(r), f, idx%2 == 0)) {
				complete = false
				break
			}
		}
		if !complete {
			break
		}
	}
	st.Exhaustive["scalars"] = complete && thorough()
	if !complete {
		return
	}
	// (ii) all short words over the encoding-significant alphabet
	alpha := []string{"+", "=", " ", "\\", "{", "}", "x", "4", "1", "A", "\x7f", "é", "€", "😀"}
	maxLen := pickTier(3, 4)
	var rec func(cur string, depth int) bool
	rec = func(cur string, depth int) bool {
		if depth > 0 {
			for f := 0; f < 3; f++ {
				idx++
				if mine(idx) && !c14Words.one(t, c14Single(cur, f, idx%2 == 0)) {
					return false
				}
			}
		}
		if depth == maxLen {
			return true
		}
		for _, a := range alpha {
			if !rec(cur+a, depth+1) {
				return false
			}
		}
		return true
	}
	complete = rec("", 0)
	st.Exhaustive["words"] = complete
	if !complete {
		return
	}
	c14Sub.rapidCheck(t, pickTier(4000, 60000), c14Gen)
	if t.Failed() {
		return
	}
	c14Addr.rapidCheck(t, pickTier(4000, 60000), func(rt *rapid.T) c14AddrCase {
		c := c14AddrCase{ServerUTF8: rapid.Bool().Draw(rt, "server_utf8"), From: c14GenAddr(rt, "from"), To: c14GenAddr(rt, "to")}
		c.ClientUTF8 = c.ServerUTF8 && rapid.Bool().Draw(rt, "client_utf8")
		if rapid.IntRange(0, 2).Draw(rt, "via_sendmail") == 0 {
			c.ViaSendMail, c.ClientUTF8 = true, false
			if rapid.Bool().Draw(rt, "space_at_the_ends") {
				// text that some notions of "white space" would trim
				sp := rapid.SampledFrom([]string{"\u3000", "\u00a0", "\u0085", "\u2003", " ", "\t"}).Draw(rt, "sp")
				if rapid.Bool().Draw(rt, "lead") {
					c.From, c.To = sp+c.From, sp+c.To
				} else {
					c.From, c.To = c.From+sp, c.To+sp
				}
			}
		}
		return c
	})
}
