package props

import (
	"fmt"
	"testing"
	harnessPkg "verif/harness"

	"pgregory.net/rapid"
)

// C03 - backend callbacks follow RFC 5321 transaction order; envelopes never leak.

func c03Run(c hCase) Verdict {
	run := runLockstep(c)
	if run.deadlock != "" {
		return failf("deadlock", "%s\nhistory: %v", trimTo(run.deadlock, 2500), cmdNames(c.Cmds))
	}
	if run.incon != "" {
		return Verdict{Inconclusive: run.incon}
	}
	m := newMonitor(c)
	m.preload(run.pre)
	v := Verdict{}
	all := run
	if k := closedByShutdown(c, run); k >= 0 {
		// the monitor judges the history up to there; the session invariants
		// (one Logout per session, nothing after it) the whole trace
		run.steps = run.steps[:k]
		v.Classes = append(v.Classes, "connection_ended_by_the_shutdown")
	}
	sawAcceptedMail := false
	for i, s := range run.steps {
		wasTxn := m.txn
		if e := m.step(s); e != "" {
			f := failf("monitor", "step %d: %s\nhistory: %v\nreplies of the step: %v; events of the step: %s", i, e, cmdNames(c.Cmds[:i+1]), replyCodes(s.Replies), traceString(s.Events))
			return f
		}
		if m.txn {
			sawAcceptedMail = true
		}
		_ = wasTxn
	}
	if e := traceInvariants(c, run); e != "" {
		return failf("trace", "%s\nhistory: %v", e, cmdNames(c.Cmds))
	}
	if bad := sessionInvariants(append(append(append([]harnessPkg.Event(nil), all.pre...), flatEvents(all)...), all.tail...), run.rig.Leftover); bad != nil {
		return *bad
	}
	if p := run.rig.Log.Panicked(); p != "" {
		return failf("panic", "server logged a panic: %s", p)
	}
	for k := range m.classes {
		v.Classes = append(v.Classes, k)
	}
	if c.ShutdownAt > 0 && c.ShutdownAt <= len(run.steps) {
		v.Classes = append(v.Classes, "graceful_shutdown_begun_mid_history")
	}
	// non-trivial: an accepted MAIL followed later by an out-of-order or
	// transaction-ending command
	v.NonTrivial = sawAcceptedMail && (m.classes["data_out_of_order"] || m.classes["bdat_out_of_order"] || m.classes["rcpt_without_mail"] ||
		m.classes["message_via_data"] || m.classes["message_via_bdat"] || m.classes["rset_during_transfer"] || m.classes["repeated_greeting"] ||
		m.classes["chunk_reports_early_failure"] || m.classes["bdat_over_limit"] || m.classes["rcpt_over_max"] || m.classes["starttls"])
	if m.unspecified > 0 {
		v.Classes = append(v.Classes, "has_unspecified_step")
	}
	return v
}

func flatEvents(run hRun) (out []harnessPkg.Event) {
	for _, s := range run.steps {
		out = append(out, s.Events...)
	}
	return
}

func cmdNames(cs []hCmd) []string {
	out := make([]string, len(cs))
	for i, c := range cs {
		out[i] = c.String()
	}
	return out
}

var c03Sub *subCheck[hCase]

func init() {
	registrars = append(registrars, func() { c03Sub = newSub("C03", "rapid", c03Run) })
}

func TestC03(t *testing.T) {
	registerAll()
	st.Rule = "cases = (server configuration, scripted backend decisions per callback, history of abstract commands from a 27-symbol alphabet with valid/rejected/malformed/out-of-order variants), driven lock-step; oracle = explicit command-state monitor + independent trace invariants; non-trivial = history with an accepted MAIL and later an out-of-order or transaction-ending command; distinct = hash of the whole case"
	if !regress(t, "C03") {
		return
	}
	maxLen := pickTier(25, 40)
	c03Sub.rapidCheck(t, pickTier(10000, 100000), func(rt *rapid.T) hCase { return genHistory(rt, maxLen, true) })
	_ = fmt.Sprint
}
