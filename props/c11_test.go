package props

import (
	"fmt"
	"strings"
	"testing"
	"time"

	"github.com/emersion/go-smtp"
	"pgregory.net/rapid"

	"verif/harness"
	"verif/ref"
)

// C11 - MAIL/RCPT arguments reach the backend exactly as sent, or are refused.

type c11Case struct {
	Mail  bool      `json:"mail"`          // MAIL (true) or RCPT
	Verb  string    `json:"verb"`          // spelling of the verb ("MAIL", "mail", "Rcpt", ...)
	Arg   Octets    `json:"arg"`           // everything after the verb and one space
	Flags ref.Flags `json:"flags"`         // extension flags of the server
	TLS   bool      `json:"tls,omitempty"` // the connection is under (implicit) TLS: no bearing on what is well-formed or enabled
	// Before (optional): an earlier command of the same verb on the same
	// connection that is refused - by the server ("server": it carries an
	// unknown parameter behind well-formed ones) or by the backend
	// ("backend": well-formed, answered 550 by the session). A refused
	// command changes nothing: the judged line is read as if it came first.
	Before          Octets `json:"before,omitempty"`
	BeforeRefusedBy string `json:"before_refused_by,omitempty"`
	// PriorTxn (optional): a whole transaction on the connection before the
	// judged line: "data" (DATA, accepted), "bdat" (one LAST chunk), "bdat2"
	// (two chunks), "bdat-rset" (a chunk, then RSET). A finished or abandoned
	// transaction leaves nothing behind.
	PriorTxn string `json:"prior_txn,omitempty"`
}

func c11Run(c c11Case) Verdict {
	arg := string(c.Arg)
	if strings.ContainsAny(arg, "\n") {
		return Verdict{Inconclusive: "generator: LF inside a command line"}
	}
	res := ref.Classify(c.Mail, arg, c.Flags)
	cfg := harness.Config{UTF8: c.Flags.UTF8, RequireTLS: c.Flags.RequireTLS, BinaryMIME: c.Flags.BinaryMIME, DSN: c.Flags.DSN, RRVS: c.Flags.RRVS}
	if c.TLS {
		cfg.TLS = "implicit"
	}
	script := harness.Script{}
	before := string(c.Before)
	beforeCalls := 0
	if before != "" {
		if strings.ContainsAny(before, "\n") {
			return Verdict{Inconclusive: "generator: LF inside a command line"}
		}
		bres := ref.Classify(c.Mail, before, c.Flags)
		refusal := []harness.Decision{{Kind: "smtp", Code: 550, Enh: [3]int{5, 7, 1}, Msg: "scripted refusal of the earlier command"}}
		switch {
		case c.BeforeRefusedBy == "backend" && bres.Class == ref.Valid:
			beforeCalls = 1
			if c.PriorTxn != "" {
				// the earlier transaction's own MAIL / RCPT is accepted
				refusal = append([]harness.Decision{{}}, refusal...)
			}
			if c.Mail {
				script.Mail = refusal
			} else {
				script.Rcpt = refusal
			}
		case c.BeforeRefusedBy == "server" && bres.Class == ref.Invalid:
		default:
			// not known to be refused: nothing to build on
			before = ""
		}
	}
	r := harness.NewRig(cfg, script)
	w, derr := r.Dial()
	if derr != nil {
		w.Finish()
		return Verdict{Inconclusive: "dial: " + derr.Error()}
	}
	if st := w.WaitQuiet(); st != harness.QIdle {
		w.Finish()
		return Verdict{Inconclusive: "server not idle after connect: " + st}
	}
	w.Recv()
	var sb strings.Builder
	sb.WriteString("EHLO cli\r\n")
	nPre := 1
	switch c.PriorTxn {
	case "data":
		sb.WriteString("MAIL FROM:<p@x>\r\nRCPT TO:<p@y>\r\nDATA\r\nhi\r\n.\r\n")
		nPre += 4
	case "bdat":
		sb.WriteString("MAIL FROM:<p@x>\r\nRCPT TO:<p@y>\r\nBDAT 2 LAST\r\nhi")
		nPre += 3
	case "bdat2":
		sb.WriteString("MAIL FROM:<p@x>\r\nRCPT TO:<p@y>\r\nBDAT 2\r\nhiBDAT 0 LAST\r\n")
		nPre += 4
	case "bdat-rset":
		sb.WriteString("MAIL FROM:<p@x>\r\nRCPT TO:<p@y>\r\nBDAT 2\r\nhiRSET\r\n")
		nPre += 4
	}
	priorCalls, nPrior := 0, nPre-1
	if c.PriorTxn != "" {
		priorCalls = 1 // the earlier transaction's own Mail / Rcpt callback
	}
	if !c.Mail {
		sb.WriteString("MAIL FROM:<s@x>\r\n")
		nPre++
	}
	if before != "" {
		sb.WriteString(c.Verb + " " + before + "\r\n")
		nPre++
	}
	sb.WriteString(c.Verb + " " + arg + "\r\nQUIT\r\n")
	w.Send([]byte(sb.String()))
	_, fin := w.Finish()
	if !fin {
		return finishFail(w)
	}
	v := Verdict{}
	switch res.Class {
	case ref.Valid:
		v.Classes = append(v.Classes, "valid")
	case ref.Invalid:
		v.Classes = append(v.Classes, "invalid")
	default:
		v.Classes = append(v.Classes, "unspecified")
	}
	v.NonTrivial = strings.Contains(arg, "=") || strings.Count(arg, " ") >= 1 || res.Class == ref.Invalid
	if c.TLS {
		v.Classes = append(v.Classes, "under_tls")
	}
	if p := r.Log.Panicked(); p != "" {
		return failf("panic", "line %q: server logged a panic: %s", c.Verb+" "+arg, p)
	}
	rs, err := harness.ParseRepliesLenient(w.Out)
	if err != nil || len(rs) != 1+nPre+2 {
		return failf("one-reply", "line %q: expected exactly one reply to the command (banner, %d preamble replies, the reply, 221), got %v (%v)", c.Verb+" "+arg, nPre, codes(rs), err)
	}
	rp := rs[1+nPre]
	if c.PriorTxn != "" {
		v.Classes = append(v.Classes, "after_transaction_"+c.PriorTxn)
		for _, prp := range rs[2 : 2+nPrior] {
			if prp.Class() != 2 && prp.Class() != 3 {
				return Verdict{Inconclusive: fmt.Sprintf("the earlier transaction did not go through: %v", codes(rs))}
			}
		}
	}
	if before != "" {
		v.Classes = append(v.Classes, "after_command_refused_by_"+c.BeforeRefusedBy)
		if brp := rs[nPre]; brp.Class() == 2 || brp.Class() == 3 {
			return failf("before", "earlier line %q (refused by the %s) was answered %s", c.Verb+" "+before, c.BeforeRefusedBy, brp)
		}
	}
	evs := r.B.Events()
	var call *harness.Event
	ncalls := 0
	skip := beforeCalls + priorCalls
	for i, e := range evs {
		if !e.Begin {
			continue
		}
		if (c.Mail && e.CB == "Mail") || (!c.Mail && e.CB == "Rcpt") {
			if skip > 0 {
				// the earlier command's own callback
				skip--
				continue
			}
			ncalls++
			call = &evs[i]
		}
	}
	line := c.Verb + " " + arg
	switch res.Class {
	case ref.Invalid:
		if rp.Class() != 5 {
			return failf("invalid-accepted", "line %q is definitely invalid (%v) but was answered %s", line, res.Reasons, rp)
		}
		if ncalls != 0 {
			return failf("invalid-callback", "line %q is definitely invalid (%v) but reached the backend: %s", line, res.Reasons, call)
		}
		if res.Need504 && rp.Code != 504 {
			return failf("disabled-not-504", "line %q uses a parameter of a disabled extension (%v): answered %s, want 504", line, res.Reasons, rp)
		}
		return v
	case ref.Unspecified:
		// unchanged or refused: never silently altered
		if ncalls > 1 {
			return failf("callbacks", "line %q caused %d callbacks", line, ncalls)
		}
		if call != nil {
			got := call.From
			if !c.Mail {
				got = call.To
			}
			if !isSubsequence(got, arg) {
				return failf("invented-octets", "line %q (unspecified: %v): backend received mailbox %q, which is not a faithful reading of the line", line, res.Reasons, got)
			}
		}
		if rp.Class() == 2 && ncalls != 1 {
			return failf("accepted-without-callback", "line %q answered %s without consulting the backend", line, rp)
		}
		return v
	}
	// valid
	if rp.Code != 250 {
		return failf("valid-refused", "line %q is well-formed but was answered %s", line, rp)
	}
	if ncalls != 1 {
		return failf("callbacks", "line %q caused %d callbacks", line, ncalls)
	}
	got := call.From
	if !c.Mail {
		got = call.To
	}
	if !contains(res.Mailboxes, got) {
		return failf("mailbox-differs", "line %q: backend received mailbox %q, expected one of %q", line, got, res.Mailboxes)
	}
	if c.Mail {
		o := call.MailOpts
		if o == nil {
			return failf("nil-options", "line %q: nil MailOptions", line)
		}
		e := res.Mail
		authEq := (o.Auth == nil) == (e.Auth == nil) && (o.Auth == nil || *o.Auth == *e.Auth)
		if string(o.Body) != e.Body || o.Size != e.Size || o.RequireTLS != e.RequireTLS || o.UTF8 != e.UTF8 || string(o.Return) != e.Return || o.EnvelopeID != e.EnvelopeID || !authEq {
			return failf("options-differ", "line %q: backend received %s, expected %s", line, fmtMailOpts(o), fmtMailExp(e))
		}
	} else {
		o := call.RcptOpts
		if o == nil {
			return failf("nil-options", "line %q: nil RcptOptions", line)
		}
		e := res.Rcpt
		var gotN []string
		for _, n := range o.Notify {
			gotN = append(gotN, string(n))
		}
		rrvsOK := (!e.HasRRVS && o.RequireRecipientValidSince.IsZero()) || (e.HasRRVS && o.RequireRecipientValidSince.Equal(e.RRVS))
		if strings.Join(gotN, ",") != strings.Join(e.Notify, ",") || string(o.OriginalRecipientType) != e.ORcptType || o.OriginalRecipient != e.ORcpt || !rrvsOK {
			return failf("options-differ", "line %q: backend received %+v, expected %+v", line, *o, e)
		}
	}
	return v
}

func fmtMailOpts(o *smtp.MailOptions) string {
	a := "nil"
	if o.Auth != nil {
		a = fmt.Sprintf("%q", *o.Auth)
	}
	return fmt.Sprintf("{Body:%q Size:%d RequireTLS:%v UTF8:%v Return:%q EnvelopeID:%q Auth:%s}", o.Body, o.Size, o.RequireTLS, o.UTF8, o.Return, o.EnvelopeID, a)
}

func fmtMailExp(e ref.MailExp) string {
	a := "nil"
	if e.Auth != nil {
		a = fmt.Sprintf("%q", *e.Auth)
	}
	return fmt.Sprintf("{Body:%q Size:%d RequireTLS:%v UTF8:%v Return:%q EnvelopeID:%q Auth:%s}", e.Body, e.Size, e.RequireTLS, e.UTF8, e.Return, e.EnvelopeID, a)
}

func isSubsequence(sub, s string) bool {
	i := 0
	for j := 0; j < len(s) && i < len(sub); j++ {
		if s[j] == sub[i] {
			i++
		}
	}
	return i == len(sub)
}

// ---- generators ----

func randCase(t *rapid.T, s, label string) string {
	switch rapid.IntRange(0, 3).Draw(t, label) {
	case 0:
		return strings.ToLower(s)
	case 1:
		b := []byte(strings.ToLower(s))
		for i := range b {
			if i%2 == 0 && b[i] >= 'a' && b[i] <= 'z' {
				b[i] -= 32
			}
		}
		return string(b)
	}
	return s
}

var c11Locals = []string{"a", "user", "first.last", "u+tag", "a!#$%&'*+-/=?^_`{|}~z", `"quoted"`, `"with space"`, `"q\"uote"`, `"a@b"`, `"back\\slash"`, "x.y.z", "1"}
var c11Domains = []string{"b", "example.org", "a-b.c-d.e", "[127.0.0.1]", "[IPv6:::1]", "x1.y2", "EXAMPLE.COM"}

func genMailbox(t *rapid.T, utf8ok bool) string {
	l := rapid.SampledFrom(c11Locals).Draw(t, "local")
	d := rapid.SampledFrom(c11Domains).Draw(t, "domain")
	if rapid.IntRange(0, 2).Draw(t, "mb_free") == 0 {
		// put together: dot-atoms of atext, or a quoted string of qtext and
		// quoted pairs; a domain of labels, or an address literal
		atoms := []string{"a", "Z9", "x-y", "u+t", "!#$", "%&'", "*+-", "/=?", "^_`", "{|}", "~", "0"}
		if rapid.IntRange(0, 3).Draw(t, "mb_quoted") == 0 {
			q := []string{"a", " ", "@", ".", "<", ">", ",", ";", ":", "(", ")", "[", "]", "\\\\", "\\\"", "\\a", "\\ ", "!", "{}"}
			var sb strings.Builder
			sb.WriteByte('"')
			for i, n := 0, rapid.IntRange(1, 5).Draw(t, "mb_qn"); i < n; i++ {
				sb.WriteString(rapid.SampledFrom(q).Draw(t, "mb_q"))
			}
			sb.WriteByte('"')
			l = sb.String()
		} else {
			var parts []string
			for i, n := 0, rapid.IntRange(1, 4).Draw(t, "mb_an"); i < n; i++ {
				parts = append(parts, rapid.SampledFrom(atoms).Draw(t, "mb_atom"))
			}
			l = strings.Join(parts, ".")
		}
		switch rapid.IntRange(0, 5).Draw(t, "mb_dom") {
		case 0:
			d = fmt.Sprintf("[%d.%d.%d.%d]", rapid.IntRange(0, 255).Draw(t, "ip"), rapid.IntRange(0, 255).Draw(t, "ip"), rapid.IntRange(0, 255).Draw(t, "ip"), rapid.IntRange(0, 255).Draw(t, "ip"))
		case 1:
			d = "[IPv6:" + rapid.SampledFrom([]string{"::1", "2001:db8::1", "fe80::1:2:3:4", "::ffff:1.2.3.4", "1:2:3:4:5:6:7:8"}).Draw(t, "ip6") + "]"
		default:
			labels := []string{"a", "b1", "x-y", "example", "ORG", "9", "a--b", "xn--bcher-kva"}
			var parts []string
			for i, n := 0, rapid.IntRange(1, 4).Draw(t, "mb_ln"); i < n; i++ {
				parts = append(parts, rapid.SampledFrom(labels).Draw(t, "mb_label"))
			}
			d = strings.Join(parts, ".")
		}
	}
	if utf8ok && rapid.IntRange(0, 3).Draw(t, "u8") == 0 {
		l = rapid.SampledFrom([]string{"üser", "用户", "a😀b"}).Draw(t, "ulocal")
		if rapid.Bool().Draw(t, "udom") {
			d = "bücher.example"
		}
	}
	return l + "@" + d
}

var c11Times = []string{"2014-04-03T23:01:00Z", "1999-12-31T23:59:59Z", "2024-02-29T00:00:00+05:30", "2030-01-01T12:00:00-08:00", "2014-04-03T23:01:00.5Z", "0001-01-01T00:00:00Z", "9999-12-31T23:59:59+00:00"}

func genXtextValue(t *rapid.T, label string) (raw, enc string) {
	raw = rapid.SampledFrom([]string{"abc", "QQ314159", "a+b=c", "with space", "x", "~!@#", "a\\b", "100%", "tab?", strings.Repeat("e", 100), "rfc822;looks"}).Draw(t, label)
	if rapid.Bool().Draw(t, label+"_free") {
		// put together from pieces: any printable ASCII, the characters that
		// must be encoded among them
		pieces := []string{"a", "Z", "7", "+", "=", " ", "+2B", "+3D", "2B", "\\", "\"", "<", ">", "@", ";", ",", ".", "%", "~", "!", "(", ")", "{", "}", "'", "/", "?", "^", "_", "`", "|", "-", ":"}
		var sb strings.Builder
		for i, n := 0, rapid.IntRange(1, 8).Draw(t, label+"_n"); i < n; i++ {
			sb.WriteString(rapid.SampledFrom(pieces).Draw(t, label+"_piece"))
		}
		raw = sb.String()
	}
	return raw, ref.XtextEncode(raw, rapid.IntRange(0, 4).Draw(t, label+"_all") == 0)
}

// genUTF8AddrValue puts a utf-8-addr-xtext / -unitext value together from
// pieces: literal characters (those that must not appear literally among
// them), raw UTF-8, and \x{HEXPOINT} with the hexpoint at and around every
// boundary of RFC 6533's HEXPOINT production, with leading zeros, lower-case
// digits, too few and too many digits. What is well-formed is for the
// classifier to say.
func genUTF8AddrValue(t *rapid.T, utf8ok bool) string {
	lit := []string{"a", "Z", "7", "@", ".", "-", "_", "~", "!", "#", "{", "}", "x", "/", "?", "\"", "<", ">", "(", ",", ";", ":", "+", "=", "\\", "\\x", "\\x{", "+2B"}
	raw := []string{"\u00e9", "\u20ac", "\U0001F600", "\u00fc", "\u7528"}
	bounds := []uint32{0x0, 0x1, 0x9, 0xA, 0xF, 0x10, 0x11, 0x19, 0x1A, 0x1F, 0x20, 0x21, 0x2A, 0x2B, 0x2C, 0x3C, 0x3D, 0x3E, 0x41, 0x5B, 0x5C, 0x5D, 0x7E, 0x7F, 0x80, 0xA0, 0xE9, 0xFF,
		0x100, 0x7FF, 0x800, 0xFFF, 0x1000, 0xD7FF, 0xD800, 0xDBFF, 0xDC00, 0xDFFF, 0xE000, 0xFFFD, 0xFFFF, 0x10000, 0x1F600, 0xFFFFF, 0x100000, 0x10FFFF, 0x110000, 0x1FFFFF, 0x200000, 0xFFFFFF}
	var sb strings.Builder
	for i, n := 0, rapid.IntRange(1, 6).Draw(t, "u8a_n"); i < n; i++ {
		switch k := rapid.IntRange(0, 9).Draw(t, "u8a_kind"); {
		case k <= 3:
			sb.WriteString(rapid.SampledFrom(lit[:13]).Draw(t, "u8a_plain"))
		case k == 4:
			sb.WriteString(rapid.SampledFrom(lit).Draw(t, "u8a_lit"))
		case k == 5:
			sb.WriteString(rapid.SampledFrom(raw).Draw(t, "u8a_raw"))
		default:
			cp := rapid.SampledFrom(bounds).Draw(t, "u8a_cp")
			if rapid.IntRange(0, 3).Draw(t, "u8a_anycp") == 0 {
				cp = rapid.Uint32Range(0, 0x120000).Draw(t, "u8a_cpfree")
			}
			h := fmt.Sprintf("%X", cp)
			switch rapid.IntRange(0, 9).Draw(t, "u8a_form") {
			case 0:
				h = "0" + h
			case 1:
				h = "00" + h
			case 2:
				h = strings.ToLower(h)
			case 3:
				if len(h) == 1 {
					h = "0" + h // the only way to write U+0001..U+0009, U+000A..
				}
			default:
				if len(h) == 1 {
					h = "0" + h
				}
			}
			sb.WriteString("\\x{" + h + "}")
		}
	}
	_ = utf8ok
	return sb.String()
}

// genDateTime draws an RFC 3339 date-time component by component.
func genDateTime(t *rapid.T, label string) string {
	year := rapid.SampledFrom([]int{1, 1969, 1970, 1999, 2000, 2014, 2024, 2038, 2100, 9999}).Draw(t, label+"_y")
	if rapid.Bool().Draw(t, label+"_anyyear") {
		year = rapid.IntRange(1, 9999).Draw(t, label+"_year")
	}
	month := rapid.IntRange(1, 12).Draw(t, label+"_mo")
	dim := []int{31, 28, 31, 30, 31, 30, 31, 31, 30, 31, 30, 31}[month-1]
	if month == 2 && year%4 == 0 && (year%100 != 0 || year%400 == 0) {
		dim = 29
	}
	day := rapid.SampledFrom([]int{1, dim, rapid.IntRange(1, dim).Draw(t, label+"_d")}).Draw(t, label+"_day")
	s := fmt.Sprintf("%04d-%02d-%02dT%02d:%02d:%02d", year, month, day, rapid.IntRange(0, 23).Draw(t, label+"_h"), rapid.IntRange(0, 59).Draw(t, label+"_mi"), rapid.IntRange(0, 59).Draw(t, label+"_s"))
	if rapid.IntRange(0, 3).Draw(t, label+"_frac") == 0 {
		s += "." + rapid.StringMatching(`[0-9]{1,9}`).Draw(t, label+"_fraction")
	}
	switch rapid.IntRange(0, 2).Draw(t, label+"_zone") {
	case 0:
		s += "Z"
	case 1:
		s += fmt.Sprintf("+%02d:%02d", rapid.IntRange(0, 14).Draw(t, label+"_zh"), rapid.SampledFrom([]int{0, 30, 45, 59}).Draw(t, label+"_zm"))
	default:
		s += fmt.Sprintf("-%02d:%02d", rapid.IntRange(0, 12).Draw(t, label+"_zh"), rapid.SampledFrom([]int{0, 30, 1}).Draw(t, label+"_zm"))
	}
	return s
}

func genValidLine(t *rapid.T, mail bool, f ref.Flags) string {
	var sb strings.Builder
	if mail {
		sb.WriteString(randCase(t, "FROM:", "pcase"))
	} else {
		sb.WriteString(randCase(t, "TO:", "pcase"))
	}
	if rapid.IntRange(0, 4).Draw(t, "sp") == 0 {
		sb.WriteByte(' ')
	}
	mb := genMailbox(t, f.UTF8)
	switch x := rapid.IntRange(0, 9).Draw(t, "pathform"); {
	case mail && x == 0:
		sb.WriteString("<>")
	case x == 1:
		sb.WriteString(mb) // bare path, as the package's own parser test allows
	case x == 2:
		sb.WriteString("<@relay.example,@other.example:" + mb + ">")
	default:
		sb.WriteString("<" + mb + ">")
	}
	type param struct{ s string }
	var ps []string
	add := func(s string) { ps = append(ps, s) }
	if mail {
		if rapid.Bool().Draw(t, "p_size") {
			sz := rapid.SampledFrom([]string{"0", "1", "1024", "4294967295", "4294967296", "9223372036854775807", "12345678901234567"}).Draw(t, "size")
			if rapid.Bool().Draw(t, "size_free") {
				sz = rapid.StringMatching(`[0-9]{1,21}`).Draw(t, "size_digits")
			}
			add(randCase(t, "SIZE", "kc") + "=" + sz)
		}
		if rapid.Bool().Draw(t, "p_body") {
			b := []string{"7BIT", "8BITMIME", "8bitmime", "7bit"}
			if f.BinaryMIME {
				b = append(b, "BINARYMIME", "binarymime")
			}
			add(randCase(t, "BODY", "kc") + "=" + randCase(t, rapid.SampledFrom(b).Draw(t, "body"), "body_case"))
		}
		if f.UTF8 && rapid.Bool().Draw(t, "p_utf8") {
			add(randCase(t, "SMTPUTF8", "kc"))
		}
		if f.DSN && rapid.Bool().Draw(t, "p_ret") {
			add(randCase(t, "RET", "kc") + "=" + randCase(t, rapid.SampledFrom([]string{"FULL", "HDRS", "FULL", "HDRS", "HDR", "FULLS", "ALL"}).Draw(t, "ret"), "ret_case"))
		}
		if f.DSN && rapid.Bool().Draw(t, "p_envid") {
			_, enc := genXtextValue(t, "envid")
			add(randCase(t, "ENVID", "kc") + "=" + enc)
		}
		if rapid.Bool().Draw(t, "p_auth") {
			a := rapid.SampledFrom([]string{"<>", "user@example.org", "a+b@c", "first.last@d.e", "x=y@z"}).Draw(t, "auth")
			if rapid.Bool().Draw(t, "auth_free") {
				a = genMailbox(t, false)
			}
			add(randCase(t, "AUTH", "kc") + "=" + ref.XtextEncode(a, rapid.IntRange(0, 4).Draw(t, "auth_all") == 0))
		}
	} else {
		if f.DSN && rapid.Bool().Draw(t, "p_notify") {
			sets := []string{"NEVER", "SUCCESS", "FAILURE", "DELAY", "SUCCESS,FAILURE", "FAILURE,SUCCESS", "DELAY,FAILURE,SUCCESS", "success,delay", "Never"}
			nv := rapid.SampledFrom(sets).Draw(t, "notify")
			if rapid.Bool().Draw(t, "notify_free") {
				// any list of items, in any order and spelling; repeated
				// items, NEVER in company and strangers are for the
				// classifier to refuse
				var items []string
				for i, n := 0, rapid.IntRange(1, 4).Draw(t, "notify_n"); i < n; i++ {
					it := rapid.SampledFrom([]string{"NEVER", "SUCCESS", "FAILURE", "DELAY", "SUCCESS", "FAILURE", "DELAY", "DELAYED", ""}).Draw(t, "notify_item")
					items = append(items, randCase(t, it, "notify_case"))
				}
				nv = strings.Join(items, ",")
			}
			add(randCase(t, "NOTIFY", "kc") + "=" + nv)
		}
		if f.DSN && rapid.Bool().Draw(t, "p_orcpt") {
			if rapid.Bool().Draw(t, "orcpt_utf8") {
				v := rapid.SampledFrom([]string{"user@example.org", `a\x{20}b@c`, `\x{5C}\x{2B}\x{3D}`, `\x{E9}t\x{E9}@x`, `\x{1F600}@x`, `\x{10FFFF}`, `\x{7F}\x{01}\x{19}`, `\x{100}\x{FFF}\x{D7FF}\x{E000}`}).Draw(t, "orcptv")
				if rapid.IntRange(0, 2).Draw(t, "orcpt_free") > 0 {
					v = genUTF8AddrValue(t, f.UTF8)
				}
				add(randCase(t, "ORCPT", "kc") + "=" + randCase(t, "utf-8", "tc") + ";" + v)
			} else {
				_, enc := genXtextValue(t, "orcpt")
				add(randCase(t, "ORCPT", "kc") + "=" + randCase(t, "rfc822", "tc") + ";" + enc)
			}
		}
		if f.RRVS && rapid.Bool().Draw(t, "p_rrvs") {
			ts := rapid.SampledFrom(c11Times).Draw(t, "rrvs")
			if rapid.Bool().Draw(t, "rrvs_free") {
				ts = genDateTime(t, "rrvs_dt")
			}
			add(randCase(t, "RRVS", "kc") + "=" + ts + rapid.SampledFrom([]string{"", ";C", ";R"}).Draw(t, "rrvsact"))
		}
	}
	ps = rapid.Permutation(ps).Draw(t, "porder")
	for _, p := range ps {
		sb.WriteString(" " + p)
	}
	return sb.String()
}

var c11MutAlphabet = []byte("a@<>.\"\\:,;=+ -0Z\t(){}x1\x7f\xc3")

func mutate(t *rapid.T, s string) string {
	if len(s) == 0 {
		return s
	}
	b := []byte(s)
	pos := rapid.IntRange(0, len(b)-1).Draw(t, "mpos")
	ch := rapid.SampledFrom(c11MutAlphabet).Draw(t, "mch")
	switch rapid.IntRange(0, 2).Draw(t, "mkind") {
	case 0:
		return string(append(b[:pos], b[pos+1:]...))
	case 1:
		return string(append(b[:pos], append([]byte{ch}, b[pos:]...)...))
	default:
		b[pos] = ch
		return string(b)
	}
}

func genFlags(t *rapid.T) ref.Flags {
	return ref.Flags{UTF8: rapid.Bool().Draw(t, "f_utf8"), RequireTLS: rapid.Bool().Draw(t, "f_rtls"), BinaryMIME: rapid.Bool().Draw(t, "f_bin"),
		DSN: rapid.Bool().Draw(t, "f_dsn"), RRVS: rapid.Bool().Draw(t, "f_rrvs")}
}

// extra parameters that are unknown, belong to the other command, or to a
// disabled extension
var c11OddParams = []string{"FOO=bar", "X", "SIZE", "SIZE=", "SIZE=abc", "SIZE=-1", "BODY=9BIT", "BODY", "RET=ALL", "ENVID=", "ENVID=a+2", "ENVID=a+zz", "ENVID=+ff", "ENVID=+00",
	"AUTH=", "AUTH=a", "AUTH=<a@b>", "AUTH=a@b@c", "NOTIFY=", "NOTIFY=NEVER,SUCCESS", "NOTIFY=SUCCESS,SUCCESS", "NOTIFY=SOMETIMES", "ORCPT=a@b", "ORCPT=;a@b", "ORCPT=x400;a",
	"ORCPT=rfc822;", "ORCPT=rfc822;a+0", "ORCPT=utf-8;a\\x{41}", "ORCPT=utf-8;a\\x{D800}", "ORCPT=utf-8;a\\x{110000}", "ORCPT=utf-8;a b", "ORCPT=utf-8;a\\b", "ORCPT=utf-8;a+b",
	"RRVS=yesterday", "RRVS=2014-13-03T23:01:00Z", "RRVS=2014-04-03T23:01:00", "RRVS=2014-04-03t23:01:00z", "RRVS=2014-04-03T23:01:00Z;X", "SMTPUTF8", "REQUIRETLS", "BODY=BINARYMIME",
	"RET=HDRS", "ENVID=abc", "NOTIFY=DELAY", "ORCPT=rfc822;a@b", "RRVS=2014-04-03T23:01:00Z", "a=b=c", "SIZE=1 SIZE=2", "=x", "SMTPUTF8=yes"}

func c11Gen(t *rapid.T) c11Case {
	c := c11Case{Mail: rapid.Bool().Draw(t, "mail"), Flags: genFlags(t)}
	c.Verb = randCase(t, map[bool]string{true: "MAIL", false: "RCPT"}[c.Mail], "vcase")
	line := genValidLine(t, c.Mail, c.Flags)
	switch rapid.IntRange(0, 9).Draw(t, "variant") {
	case 0, 1, 2:
	case 3, 4, 5:
		line = mutate(t, line)
	case 6:
		line += " " + rapid.SampledFrom(c11OddParams).Draw(t, "odd")
	case 7:
		// two in a row: the second may repeat (and hide) the first one's keyword
		line += " " + rapid.SampledFrom(c11OddParams).Draw(t, "odd") + " " + rapid.SampledFrom(c11OddParams).Draw(t, "odd2")
	case 8:
		line = mutate(t, mutate(t, line))
	default:
		// parameters of extensions the configuration disables
		line = genValidLine(t, c.Mail, ref.Flags{UTF8: true, BinaryMIME: true, DSN: true, RRVS: true})
	}
	line = strings.ReplaceAll(line, "\n", "?")
	c.Arg = Octets(line)
	c.TLS = rapid.IntRange(0, 3).Draw(t, "tls") == 0
	if rapid.IntRange(0, 3).Draw(t, "before") == 0 {
		b := strings.ReplaceAll(genValidLine(t, c.Mail, c.Flags), "\n", "?")
		c.BeforeRefusedBy = rapid.SampledFrom([]string{"server", "backend"}).Draw(t, "before_by")
		if c.BeforeRefusedBy == "server" {
			b += " " + rapid.SampledFrom([]string{"FOO=bar", "X", "SIZE=abc", "BODY=9BIT", "NOTIFY=SOMETIMES", "RRVS=yesterday", "a=b=c"}).Draw(t, "before_odd")
		}
		c.Before = Octets(b)
	}
	if rapid.IntRange(0, 4).Draw(t, "prior_txn") == 0 {
		c.PriorTxn = rapid.SampledFrom([]string{"data", "bdat", "bdat2", "bdat-rset"}).Draw(t, "prior_txn_kind")
	}
	return c
}

var (
	c11Sub   *subCheck[c11Case]
	c11Short *subCheck[c11Case]
)

func init() {
	registrars = append(registrars, func() {
		c11Sub = newSub("C11", "rapid", c11Run)
		c11Short = newSub("C11", "short", c11Run)
	})
}

func TestC11(t *testing.T) {
	registerAll()
	st.Rule = "cases = MAIL/RCPT lines: grammar-derived valid lines (random case, path forms, all parameters with edge values, random order), single- and double-point mutations, the judged line optionally preceded on its connection by a command of the same verb that the server or the backend refused, valid lines with an odd/unknown/disabled/malformed parameter appended, and all short strings over {a @ < > . \" \\ : , ; = + SP} after FROM:/TO: and after '<a@b> ', x extension flags; oracle = independent three-valued reference grammar (valid: exact mailbox and options; invalid: 5xx, no callback, 504 for disabled extensions; unspecified: unchanged or refused); non-trivial = line with a parameter or a space or a definitely invalid line; distinct = hash of the whole case"
	if !regress(t, "C11") {
		return
	}
	// exhaustive short strings
	alpha := []byte("a@<>.\"\\:,;=+ ")
	maxLen := pickTier(3, 5)
	idx := 0
	complete := true
	for l := 0; l <= maxLen && complete; l++ {
		total := 1
		for i := 0; i < l; i++ {
			total *= len(alpha)
		}
		for n := 0; n < total && complete; n++ {
			word := make([]byte, l)
			x := n
			for i := 0; i < l; i++ {
				word[i] = alpha[x%len(alpha)]
				x /= len(alpha)
			}
			for variant := 0; variant < 4; variant++ {
				idx++
				if !mine(idx) {
					continue
				}
				c := c11Case{Mail: variant%2 == 0, Flags: ref.Flags{DSN: true, UTF8: idx%3 == 0}}
				c.Verb = map[bool]string{true: "MAIL", false: "RCPT"}[c.Mail]
				pre := map[bool]string{true: "FROM:", false: "TO:"}[c.Mail]
				if variant < 2 {
					c.Arg = Octets(pre + string(word))
				} else {
					c.Arg = Octets(pre + "<a@b> " + string(word))
				}
				if !c11Short.one(t, c) {
					complete = false
					break
				}
			}
		}
	}
	st.Exhaustive["short"] = complete
	if !complete {
		return
	}
	c11Sub.rapidCheck(t, pickTier(12000, 200000), c11Gen)
	_ = time.Now
}

func FuzzC11(f *testing.F) {
	registerAll()
	for _, s := range []string{"FROM:<a@b> SIZE=10", "TO:<c@d> NOTIFY=SUCCESS ORCPT=rfc822;c@d", "FROM:<> AUTH=<>", "FROM:<\"a b\"@c> ENVID=a+2Bb", "TO:<@r:a@b> RRVS=2014-04-03T23:01:00Z;C",
		"TO:<a@b> ORCPT=utf-8;\\x{1F600}", "FROM:a@b BODY=8BITMIME SMTPUTF8 REQUIRETLS RET=HDRS"} {
		for fl := 0; fl < 32; fl += 7 {
			f.Add([]byte(s), uint8(fl))
		}
	}
	f.Fuzz(func(t *testing.T, line []byte, flags uint8) {
		if len(line) > 1500 || strings.ContainsAny(string(line), "\n") {
			return
		}
		c := c11Case{Flags: ref.Flags{UTF8: flags&1 != 0, RequireTLS: flags&2 != 0, BinaryMIME: flags&4 != 0, DSN: flags&8 != 0, RRVS: flags&16 != 0}}
		c.Mail = flags&32 == 0
		c.TLS = flags&192 == 192 // one input in four runs under TLS
		c.Verb = map[bool]string{true: "MAIL", false: "RCPT"}[c.Mail]
		c.Arg = line
		if v := c11Run(c); v.Fail != "" {
			t.Fatalf("C11: %s", v.Fail)
		}
	})
}
