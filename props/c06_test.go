package props

import (
	"bytes"
	"fmt"
	"math/big"
	"reflect"
	"strings"
	"testing"

	"pgregory.net/rapid"

	"verif/harness"
	"verif/ref"
)

// C06 - MaxMessageBytes bounds what a backend is handed and what is accepted.

type c06Case struct {
	N      int64 `json:"n"`      // MaxMessageBytes
	Len    int   `json:"len"`    // delivered message length
	Seed   int   `json:"seed"`   // selects the content pattern
	Chunks []int `json:"chunks"` // nil = DATA; else BDAT chunk sizes (sum = Len), LAST on the final one
	Reads  []int `json:"reads,omitempty"`
	Mode   int   `json:"mode"` // 0 SMTP, 1 LMTP plain, 2 LMTP per-recipient
	// Lines (optional): the message is the concatenation of these line
	// patterns (indexes into c06Lines) instead of the seed-selected rotation;
	// Len is then the resulting length.
	Lines []int `json:"lines,omitempty"`
	// Prior > 0: a chunked transaction of Prior octets (<= N) on the same
	// connection first, completed ("last"), abandoned ("rset"), or left open
	// when the connection is upgraded with STARTTLS ("starttls"; the judged
	// transaction then runs inside TLS after a new greeting).
	Prior     int    `json:"prior,omitempty"`
	PriorEnds string `json:"prior_ends,omitempty"`
	// TLS: the connection is under (implicit) TLS from the start
	TLS bool `json:"tls,omitempty"`
}

// line patterns for generated content: ordinary lines, dot lines, and the
// end-marker look-alikes that may follow the point where the budget runs out
var c06Lines = []string{"x\r\n", ".a\r\n", "..\r\n", ".\rb\r\n", ".\r\r\n", "\r\n", "yz.\r\n", ".\n\r\n", "....\r\n", "abcdefgh\r\n"}

// c06Content returns the message the backend should see and, for DATA, the
// octets to send after the 354 (without the end marker). In Lines mode the
// patterns are *wire* lines: the wire form need not be what a conforming
// dot-stuffer produces (".<CR><CR><LF>" is a legal wire line for the message
// line "<CR><CR><LF>"), the server has to cope either way.
func c06Content(c c06Case, data bool) (msg, wire []byte) {
	if len(c.Lines) == 0 {
		msg = c06Message(c.Len, c.Seed, data)
		return msg, ref.Stuff(msg)
	}
	for _, i := range c.Lines {
		wire = append(wire, c06Lines[i%len(c06Lines)]...)
	}
	msg, _, _ = ref.Unstuff(append(append([]byte(nil), wire...), ".\r\n"...))
	return msg, wire
}

// c06Message builds a delivered message of exactly n octets with line-start
// dots (so that the stuffed wire form is longer). For DATA the message must be
// empty or end in CRLF; n == 1 cannot be sent by DATA and is BDAT-only.
func c06Message(n, seed int, data bool) []byte {
	if n == 0 {
		return []byte{}
	}
	pats := []string{".a\r\n", "..\r\n", "x\r\n", ".\rb\r\n", "\r\n", "yz.\r\n"}
	var b []byte
	for i := seed; len(b) < n; i++ {
		b = append(b, pats[i%len(pats)]...)
	}
	b = b[:n]
	if data {
		if n >= 2 {
			b[n-2], b[n-1] = '\r', '\n'
		}
		// avoid an accidental end marker: a line consisting of a single dot
		// is fine in the delivered form (it is stuffed on the wire)
	}
	return b
}

type c06Obs struct {
	Read   []byte
	EOF    bool
	ErrStr string
	Calls  int
	Codes  []int
	Mails  []string
}

func c06Exec(c c06Case, limit int64) (c06Obs, *Verdict) {
	lmtp := c.Mode != 0
	data := c.Chunks == nil
	msg, wire := c06Content(c, data)
	cfg := harness.Config{LMTP: lmtp, MaxMessageBytes: limit}
	viaTLS := c.Prior > 0 && c.PriorEnds == "starttls"
	if viaTLS {
		cfg.TLS = "starttls"
	} else if c.TLS {
		cfg.TLS = "implicit"
	}
	script := harness.Script{LMTPSession: c.Mode == 2,
		DefaultData: &harness.DataPlan{Read: harness.ReadPlan{Sizes: c.Reads, Limit: -1, Retry: 3}, Honest: true}}
	r := harness.NewRig(cfg, script)
	w, derr := r.Dial()
	if derr != nil {
		w.Finish()
		return c06Obs{}, &Verdict{Inconclusive: "dial: " + derr.Error()}
	}
	if e := preamble(w, lmtp, true, 1); e != "" {
		w.Finish()
		return c06Obs{}, &Verdict{Inconclusive: e}
	}
	var cv conv
	npre := 0
	if viaTLS {
		// a chunk of an unfinished transfer, then the upgrade: lock-step
		var pc conv
		pc.cmd(fmt.Sprintf("BDAT %d", c.Prior))
		pc.raw(bytes.Repeat([]byte("p"), c.Prior))
		pc.cmd("STARTTLS")
		out, st := w.Exchange(pc.buf)
		prs, err := harness.ParseReplies(out)
		if st != harness.QIdle || err != nil || len(prs) != 2 || prs[0].Code != 250 || prs[1].Code != 220 {
			w.Finish()
			return c06Obs{}, &Verdict{Inconclusive: fmt.Sprintf("plaintext phase did not go as planned: %s %v %v", st, err, codes(prs))}
		}
		if err := w.StartTLS(); err != nil {
			w.Finish()
			return c06Obs{}, &Verdict{Inconclusive: "TLS handshake: " + err.Error()}
		}
		cv.cmd(greetWord(lmtp) + " cli")
		cv.cmd("MAIL FROM:<s@x>")
		cv.cmd("RCPT TO:<r0@x>")
		npre = 3
	} else if c.Prior > 0 && (c.PriorEnds == "data" || c.PriorEnds == "data-over") {
		// an earlier DATA transaction on the same connection: of Prior
		// octets (<= N; accepted), or of N+3 octets (refused with 552 when
		// the limit applies)
		n := c.Prior - 2
		if c.PriorEnds == "data-over" {
			n = int(c.N) + 1
		}
		if n < 0 {
			n = 0
		}
		cv.cmd("DATA")
		// (in lines well under any line length limit)
		for n >= 64 {
			cv.raw(append(bytes.Repeat([]byte("p"), 62), '\r', '\n'))
			n -= 64
		}
		cv.raw(bytes.Repeat([]byte("p"), n))
		cv.raw([]byte("\r\n.\r\n"))
		cv.cmd("MAIL FROM:<s@x>")
		cv.cmd("RCPT TO:<r0@x>")
		npre = 4
	} else if c.Prior > 0 {
		// an earlier chunked transaction on the same connection; the envelope
		// of the judged transaction is sent again afterwards
		pm := bytes.Repeat([]byte("p"), c.Prior)
		if c.PriorEnds == "rset" {
			cv.cmd(fmt.Sprintf("BDAT %d", c.Prior))
			cv.raw(pm)
			cv.cmd("RSET")
			npre = 2
		} else {
			cv.cmd(fmt.Sprintf("BDAT %d LAST", c.Prior))
			cv.raw(pm)
			npre = 1
		}
		cv.cmd("MAIL FROM:<s@x>")
		cv.cmd("RCPT TO:<r0@x>")
		npre += 2
	}
	if data {
		cv.cmd("DATA")
		cv.raw(wire)
		cv.raw([]byte(".\r\n"))
	} else {
		off := 0
		for i, n := range c.Chunks {
			line := fmt.Sprintf("BDAT %d", n)
			if i == len(c.Chunks)-1 {
				line += " LAST"
			}
			cv.cmd(line)
			cv.raw(msg[off : off+n])
			off += n
		}
	}
	cv.cmd("VRFY m")
	cv.cmd("RCPT TO:<after@x>")
	cv.cmd("QUIT")
	w.Send(cv.buf)
	rest, fin := w.Finish()
	if !fin {
		v := finishFail(w)
		return c06Obs{}, &v
	}
	if p := r.Log.Panicked(); p != "" {
		v := failf("panic", "server logged a panic: %s", p)
		return c06Obs{}, &v
	}
	rs, err := harness.ParseReplies(rest)
	if err != nil {
		v := failf("reply-syntax", "replies do not parse: %v (%s)", err, q(rest))
		return c06Obs{}, &v
	}
	if c.Prior > 0 {
		// the earlier transaction must have gone through; it is not judged here
		if len(rs) < npre {
			v := failf("replies", "earlier transaction not answered: %v", codes(rs))
			return c06Obs{}, &v
		}
		for i, rp := range rs[:npre] {
			if (c.PriorEnds == "data" || c.PriorEnds == "data-over") && i == 0 && rp.Code == 354 {
				continue
			}
			if c.PriorEnds == "data-over" && i == 1 && rp.Code == 552 {
				continue
			}
			if rp.Class() != 2 {
				return c06Obs{}, &Verdict{Inconclusive: fmt.Sprintf("earlier transaction refused: %v", codes(rs))}
			}
		}
		rs = rs[npre:]
	}
	o := c06Obs{Codes: codes(rs)}
	evs := r.B.Events()
	if c.Prior > 0 {
		// drop the earlier transaction's callbacks (first Mail is the preamble's)
		des0 := dataEvents(evs)
		if len(des0) >= 1 {
			cut := des0[0].Seq
			var kept []harness.Event
			for _, e := range evs {
				if e.Seq > cut {
					kept = append(kept, e)
				}
			}
			evs = kept
		}
	}
	for _, e := range evs {
		if e.CB == "Mail" && e.Begin {
			o.Mails = append(o.Mails, e.From)
		}
		if e.CB == "Rcpt" && e.Begin && e.To == "after@x" {
			v := failf("rcpt-after-end", "RCPT after the end of the transaction reached the backend; trace %s", traceString(evs))
			return o, &v
		}
	}
	des := dataEvents(evs)
	o.Calls = len(des)
	if len(des) > 1 {
		v := failf("data-calls", "more than one Data call: %s", traceString(evs))
		return o, &v
	}
	if len(des) == 1 {
		o.Read, o.EOF, o.ErrStr = des[0].Data.Bytes, des[0].Data.EOF, des[0].Data.ErrStr
		// a backend that asks again after the reader failed gets nothing more
		if extra := des[0].Data.AfterErrBytes; len(extra) > 0 {
			v := failf("read-after-failure", "limit %d: the reader failed (%q) after %d octets, yet further reads handed over %d more: %s", limit, o.ErrStr, len(o.Read), len(extra), q(extra))
			return o, &v
		}
		for _, rr := range des[0].Data.AfterErr {
			if rr.Err == "" || rr.Err == "EOF" {
				v := failf("failure-not-sticky", "limit %d: the reader failed (%q), then another Read returned (%d, %q)", limit, o.ErrStr, rr.N, rr.Err)
				return o, &v
			}
		}
	}
	return o, nil
}

func c06Run(c c06Case) Verdict {
	data := c.Chunks == nil
	msg, _ := c06Content(c, data)
	if len(c.Lines) > 0 {
		c.Len = len(msg)
	}
	v := Verdict{}
	if c.TLS && !(c.Prior > 0 && c.PriorEnds == "starttls") {
		v.Classes = append(v.Classes, "under_tls")
	}
	if c.Prior > 0 {
		v.Classes = append(v.Classes, "after_earlier_chunked_transaction")
		if c.PriorEnds == "starttls" {
			v.Classes = append(v.Classes, "earlier_transfer_cut_by_starttls")
		}
	}
	if len(c.Lines) > 0 {
		v.Classes = append(v.Classes, "generated_lines")
	}
	d := int64(c.Len) - c.N
	v.NonTrivial = (d >= -2 && d <= 2) || len(c.Chunks) >= 2
	switch {
	case d < 0:
		v.Classes = append(v.Classes, "below_limit")
	case d == 0:
		v.Classes = append(v.Classes, "at_limit")
	default:
		v.Classes = append(v.Classes, "over_limit")
	}
	if data {
		v.Classes = append(v.Classes, "via_data")
	} else {
		v.Classes = append(v.Classes, fmt.Sprintf("via_bdat_%d_chunks", len(c.Chunks)))
	}
	o, bad := c06Exec(c, c.N)
	if bad != nil {
		bad.NonTrivial, bad.Classes = v.NonTrivial, v.Classes
		return *bad
	}
	// (i) never more than N octets
	if int64(len(o.Read)) > c.N {
		return failf("read-over-limit", "backend read %d octets with limit %d", len(o.Read), c.N)
	}
	nfinal := 1
	if c.Mode != 0 {
		nfinal = 1 // one recipient
	}
	if int64(c.Len) <= c.N {
		// (ii) differential against a server without limit
		o0, bad0 := c06Exec(c, 0)
		if bad0 != nil {
			return Verdict{Inconclusive: "unlimited run: " + bad0.Fail + bad0.Inconclusive}
		}
		if !bytes.Equal(o0.Read, msg) || !o0.EOF {
			return Verdict{Inconclusive: fmt.Sprintf("unlimited reference run did not deliver the message: read %s err %q", q(o0.Read), o0.ErrStr)}
		}
		if !bytes.Equal(o.Read, o0.Read) || o.EOF != o0.EOF || o.ErrStr != o0.ErrStr || o.Calls != o0.Calls || !reflect.DeepEqual(o.Codes, o0.Codes) {
			return failf("differs-from-unlimited", "message of %d octets, limit %d: read %s (err %q) replies %v; without limit: read %s (err %q) replies %v",
				c.Len, c.N, q(o.Read), o.ErrStr, o.Codes, q(o0.Read), o0.ErrStr, o0.Codes)
		}
		return v
	}
	// (iii) longer than N
	if o.Calls == 1 {
		if o.EOF {
			return failf("eof-over-limit", "message of %d octets with limit %d was presented as complete (read %d octets, EOF)", c.Len, c.N, len(o.Read))
		}
		if o.ErrStr == "" {
			return failf("no-error-over-limit", "reader did not fail for a message over the limit")
		}
		if !bytes.HasPrefix(msg, o.Read) {
			return failf("octets-differ", "backend read %s, not a prefix of the message", q(o.Read))
		}
	}
	// expected reply codes
	var want []expect
	if data {
		want = append(want, expect{Code: 354, What: "DATA"})
		for i := 0; i < nfinal; i++ {
			want = append(want, expect{Code: 552, What: "final"})
		}
	} else {
		var cum int64
		refused := false
		for _, n := range c.Chunks {
			cum += int64(n)
			switch {
			case refused:
				want = append(want, expect{Class: 5, What: "BDAT after discarded transaction"})
			case cum > c.N:
				want = append(want, expect{Code: 552, What: "BDAT over limit"})
				refused = true
			default:
				want = append(want, expect{Code: 250, What: "chunk"})
			}
		}
	}
	want = append(want, expect{Code: 252, What: "marker"}, expect{Class: 5, What: "RCPT after discarded transaction"}, expect{Code: 221, What: "QUIT"})
	var rs []harness.Reply
	for _, cd := range o.Codes {
		rs = append(rs, harness.Reply{Code: cd})
	}
	if m := matchReplies(rs, want); m != "" {
		return failf("replies", "message of %d octets, limit %d: %s", c.Len, c.N, m)
	}
	return v
}

// ---- declared SIZE ----

type c06SizeCase struct {
	N    int64  `json:"n"`
	Size string `json:"size"` // decimal digits
	// Greet: how the connection was greeted before the MAIL: "" EHLO;
	// "helo" HELO only; "ehlo-helo" / "helo-ehlo" both, in that order; "lmtp"
	// an LMTP server and LHLO. The limit holds for every MAIL command.
	Greet string `json:"greet,omitempty"`
	// SizeKey: spelling of the keyword
	SizeKey string `json:"size_key,omitempty"`
}

func c06SizeRun(c c06SizeCase) Verdict {
	cfg := harness.Config{MaxMessageBytes: c.N, LMTP: c.Greet == "lmtp"}
	r := harness.NewRig(cfg, harness.Script{})
	w, _ := r.Dial()
	if c.Greet == "" || c.Greet == "lmtp" || c.Greet == "ehlo-helo" {
		if e := preamble(w, cfg.LMTP, false, 0); e != "" {
			w.Finish()
			return Verdict{Inconclusive: e}
		}
	} else if st := w.WaitQuiet(); st != harness.QIdle {
		w.Finish()
		return Verdict{Inconclusive: "server not idle after connect: " + st}
	} else {
		w.Recv()
	}
	var more []string
	switch c.Greet {
	case "helo", "ehlo-helo":
		more = []string{"HELO cli"}
	case "helo-ehlo":
		more = []string{"HELO cli", "EHLO cli"}
	}
	for _, g := range more {
		out, st := w.Exchange([]byte(g + "\r\n"))
		grs, err := harness.ParseReplies(out)
		if st != harness.QIdle || err != nil || len(grs) != 1 || grs[0].Code != 250 {
			w.Finish()
			return Verdict{Inconclusive: fmt.Sprintf("%s not accepted: %s %v %v", g, st, err, codes(grs))}
		}
	}
	key := c.SizeKey
	if key == "" {
		key = "SIZE"
	}
	w.Send([]byte("MAIL FROM:<s@x> " + key + "=" + c.Size + "\r\nQUIT\r\n"))
	rest, fin := w.Finish()
	if !fin {
		return finishFail(w)
	}
	rs, err := harness.ParseReplies(rest)
	if err != nil || len(rs) != 2 {
		return failf("reply-syntax", "expected two replies, got %v (%v)", codes(rs), err)
	}
	val, _ := new(big.Int).SetString(c.Size, 10)
	fits := val.IsInt64()
	mails := eventsOf(r.B.Events(), "Mail", true)
	v := Verdict{}
	near := fits && c.N > 0 && (val.Int64()-c.N <= 1 && val.Int64()-c.N >= -1)
	huge := val.Cmp(big.NewInt(1<<32-1)) >= 0
	v.NonTrivial = near || huge
	if near {
		v.Classes = append(v.Classes, "size_within_1_of_limit")
	}
	if huge {
		v.Classes = append(v.Classes, "size_ge_2^32-1")
	}
	if !fits {
		// larger than any int64: unspecified, but never a callback with a wrong value
		v.Classes = append(v.Classes, "unspecified_overflow")
		for _, m := range mails {
			if m.MailOpts != nil && m.MailOpts.Size < 0 {
				return failf("size-garbled", "SIZE=%s reached the backend as %d", c.Size, m.MailOpts.Size)
			}
		}
		if c.N > 0 && rs[0].Class() == 2 {
			return failf("size-over-limit-accepted", "SIZE=%s accepted with limit %d", c.Size, c.N)
		}
		return v
	}
	if c.N > 0 && val.Int64() > c.N {
		if rs[0].Code != 552 {
			return failf("size-over-limit", "SIZE=%s with limit %d answered %d, want 552", c.Size, c.N, rs[0].Code)
		}
		if len(mails) != 0 {
			return failf("size-over-limit-callback", "SIZE=%s with limit %d reached the backend", c.Size, c.N)
		}
		return v
	}
	if rs[0].Code != 250 {
		return failf("size-refused", "well-formed SIZE=%s (limit %d) answered %s, want 250", c.Size, c.N, rs[0])
	}
	if len(mails) != 1 || mails[0].MailOpts == nil || mails[0].MailOpts.Size != val.Int64() {
		got := "none"
		if len(mails) == 1 && mails[0].MailOpts != nil {
			got = fmt.Sprint(mails[0].MailOpts.Size)
		}
		return failf("size-value", "SIZE=%s reached the backend as %s", c.Size, got)
	}
	return v
}

// ---- chunk sizes near the integer limits ----

type c06HugeCase struct {
	N     int64  `json:"n"`
	First int    `json:"first"` // octets accepted in earlier chunks of the transaction (0 = none)
	Size  string `json:"size"`  // the announced size, decimal
	Last  bool   `json:"last,omitempty"`
	Mode  int    `json:"mode"`
}

// c06HugeRun: after First accepted octets a BDAT command announces an
// enormous chunk. Whatever the server answers, what follows on the wire (more
// than N octets of NOOP lines) must not be handed to the backend beyond the
// limit, and the message is never complete.
func c06HugeRun(c c06HugeCase) Verdict {
	lmtp := c.Mode != 0
	cfg := harness.Config{LMTP: lmtp, MaxMessageBytes: c.N}
	script := harness.Script{LMTPSession: c.Mode == 2,
		DefaultData: &harness.DataPlan{Read: harness.ReadPlan{Sizes: []int{7}, Limit: -1}, Honest: true}}
	r := harness.NewRig(cfg, script)
	w, _ := r.Dial()
	if e := preamble(w, lmtp, true, 1); e != "" {
		w.Finish()
		return Verdict{Inconclusive: e}
	}
	if c.First > 0 {
		var cv conv
		cv.cmd(fmt.Sprintf("BDAT %d", c.First))
		cv.raw(bytes.Repeat([]byte("f"), c.First))
		out, st := w.Exchange(cv.buf)
		rs, err := harness.ParseReplies(out)
		if st != harness.QIdle || err != nil || len(rs) != 1 || rs[0].Code != 250 {
			w.Finish()
			return Verdict{Inconclusive: fmt.Sprintf("first chunk not accepted: %s %v %v", st, err, codes(rs))}
		}
	}
	line := "BDAT " + c.Size
	if c.Last {
		line += " LAST"
	}
	var cv conv
	cv.cmd(line)
	for len(cv.buf) < int(c.N)+len(line)+40 {
		cv.cmd("NOOP")
	}
	cv.cmd("QUIT")
	w.Send(cv.buf)
	rest, fin := w.Finish()
	if !fin {
		return finishFail(w)
	}
	v := Verdict{NonTrivial: true}
	val, _ := new(big.Int).SetString(c.Size, 10)
	switch {
	case val.Cmp(new(big.Int).Lsh(big.NewInt(1), 63)) >= 0:
		v.Classes = append(v.Classes, "size_ge_2^63")
	case val.Cmp(new(big.Int).Sub(new(big.Int).Lsh(big.NewInt(1), 63), big.NewInt(int64(c.First)+1))) >= 0:
		v.Classes = append(v.Classes, "sum_wraps_int64")
	case val.Cmp(new(big.Int).Lsh(big.NewInt(1), 32)) >= 0:
		v.Classes = append(v.Classes, "size_ge_2^32")
	default:
		v.Classes = append(v.Classes, "size_lt_2^32")
	}
	if c.First > 0 {
		v.Classes = append(v.Classes, "after_accepted_chunk")
	}
	if p := r.Log.Panicked(); p != "" {
		return failf("panic", "server logged a panic: %s", p)
	}
	if _, err := harness.ParseRepliesLenient(rest); err != nil {
		return failf("reply-syntax", "replies do not parse: %v (%s)", err, q(rest))
	}
	total := 0
	for _, e := range dataEvents(r.B.Events()) {
		total += len(e.Data.Bytes)
		if e.Data.EOF {
			return failf("eof-huge-chunk", "%q after %d accepted octets (limit %d): the message was presented as complete after %d octets", line, c.First, c.N, len(e.Data.Bytes))
		}
	}
	if int64(total) > c.N {
		return failf("read-over-limit", "%q after %d accepted octets: backend read %d octets with limit %d", line, c.First, total, c.N)
	}
	return v
}

var (
	c06Huge *subCheck[c06HugeCase]
	c06Sub  *subCheck[c06Case]
	c06Enum *subCheck[c06Case]
	c06Size *subCheck[c06SizeCase]
)

func init() {
	registrars = append(registrars, func() {
		c06Sub = newSub("C06", "rapid", c06Run)
		c06Enum = newSub("C06", "enum", c06Run)
		c06Size = newSub("C06", "size", c06SizeRun)
		c06Huge = newSub("C06", "huge", c06HugeRun)
	})
}

func c06Lens(n int64) []int {
	set := map[int]bool{0: true}
	for d := int64(-2); d <= 2; d++ {
		if n+d >= 0 {
			set[int(n+d)] = true
		}
	}
	set[int(n)+1000] = true
	return sortedKeys(set)
}

// c06Chunkings enumerates all ways to split total into 1..4 chunks using cut
// points drawn from a small candidate set (0, 1, total/2, total-1, total).
func c06Chunkings(total int) [][]int {
	cand := sortedKeys(map[int]bool{0: true, 1: total >= 1, total / 2: true, total - 1: total >= 1, total: true})
	var out [][]int
	seen := map[string]bool{}
	var rec func(prev int, parts []int)
	rec = func(prev int, parts []int) {
		if len(parts) >= 1 && prev == total {
			k := fmt.Sprint(parts)
			if !seen[k] {
				seen[k] = true
				out = append(out, append([]int(nil), parts...))
			}
		}
		if len(parts) == 4 {
			return
		}
		for _, c := range cand {
			if c < prev || c > total || c < 0 {
				continue
			}
			rec(c, append(parts, c-prev))
		}
	}
	rec(0, nil)
	return out
}

func c06Gen(t *rapid.T) c06Case {
	ns := []int64{1, 2, 3, 5, 8, 13, 21, 34, 40}
	if thorough() {
		ns = append(ns, 4095, 4096, 4097, 8192)
	}
	c := c06Case{N: rapid.SampledFrom(ns).Draw(t, "n")}
	if rapid.IntRange(0, 3).Draw(t, "anyN") == 0 {
		c.N = int64(rapid.IntRange(1, 40).Draw(t, "n2"))
	}
	c.Len = rapid.SampledFrom(c06Lens(c.N)).Draw(t, "len")
	c.Seed = rapid.IntRange(0, 5).Draw(t, "seed")
	c.Mode = rapid.IntRange(0, 2).Draw(t, "mode")
	if rapid.Bool().Draw(t, "bdat") || c.Len == 1 {
		k := rapid.IntRange(1, 4).Draw(t, "k")
		rem := c.Len
		for i := 0; i < k-1; i++ {
			n := rapid.IntRange(0, rem).Draw(t, "chunk")
			c.Chunks = append(c.Chunks, n)
			rem -= n
		}
		c.Chunks = append(c.Chunks, rem)
	}
	if rapid.IntRange(0, 2).Draw(t, "genlines") == 0 {
		// content drawn line by line; the limit is put on a line boundary so
		// that whatever follows the budget is a fresh line (dot lines and
		// end-marker look-alikes included)
		c.Lines = rapid.SliceOfN(rapid.IntRange(0, len(c06Lines)-1), 1, 8).Draw(t, "lines")
		var cum []int
		var wire []byte
		for _, i := range c.Lines {
			wire = append(wire, c06Lines[i]...)
			d, _, _ := ref.Unstuff(append(append([]byte(nil), wire...), ".\r\n"...))
			cum = append(cum, len(d))
		}
		total := cum[len(cum)-1]
		c.Len = total
		c.N = int64(rapid.SampledFrom(cum).Draw(t, "boundary"))
		if c.N < 1 {
			c.N = 1
		}
		if rapid.IntRange(0, 3).Draw(t, "offboundary") == 0 {
			c.N += int64(rapid.IntRange(-1, 1).Draw(t, "delta"))
			if c.N < 1 {
				c.N = 1
			}
		}
		if c.Chunks != nil {
			c.Chunks = []int{total}
			if total >= 2 && rapid.Bool().Draw(t, "two") {
				k := rapid.IntRange(0, total).Draw(t, "at")
				c.Chunks = []int{k, total - k}
			}
		}
	}
	if rapid.IntRange(0, 3).Draw(t, "prior") == 0 {
		c.Prior = rapid.IntRange(1, int(c.N)).Draw(t, "prior_n")
		ends := []string{"last", "rset", "starttls", "data-over"}
		if c.Prior >= 2 {
			ends = append(ends, "data", "data")
		}
		c.PriorEnds = rapid.SampledFrom(ends).Draw(t, "prior_ends")
	}
	c.Reads = rapid.SampledFrom([][]int{{1}, {3}, {int(c.N)}, {int(c.N) + 1}, {4096}}).Draw(t, "reads")
	c.TLS = rapid.IntRange(0, 7).Draw(t, "tls") == 0
	return c
}

func TestC06(t *testing.T) {
	registerAll()
	st.Rule = "cases = (limit N, message length around N or far above, content with line-start dots, DATA or a BDAT chunking, backend read sizes, SMTP/LMTP mode) and (limit, declared SIZE) and (limit, accepted octets, BDAT announcing a size near 2^31/2^32/2^63/2^64 followed by more than N octets of commands); non-trivial = |len-N| <= 2 OR >= 2 chunks OR SIZE within 1 of N OR SIZE >= 2^32-1; distinct = hash of the whole case"
	if !regress(t, "C06") {
		return
	}
	// small-range enumeration: every N in 1..maxN x lengths x DATA + chunkings
	maxN := pickTier(12, 40)
	idx := 0
	complete := true
	for n := int64(1); n <= int64(maxN) && complete; n++ {
		for _, l := range c06Lens(n) {
			var variants [][]int
			if l != 1 {
				variants = append(variants, nil)
			}
			variants = append(variants, c06Chunkings(l)...)
			for vi, ch := range variants {
				idx++
				if !mine(idx) {
					continue
				}
				c := c06Case{N: n, Len: l, Seed: idx % 6, Chunks: ch, Mode: (idx + vi) % 3, Reads: [][]int{{1}, {3}, {int(n)}, {int(n) + 1}, {4096}}[idx%5]}
				if !c06Enum.one(t, c) {
					complete = false
					break
				}
			}
			if !complete {
				break
			}
		}
	}
	st.Exhaustive["enum"] = complete
	if !complete {
		return
	}
	// declared SIZE
	sizes := []string{"0", "1", "4294967295", "4294967296", "4294967297", "5000000000", "9223372036854775807", "9223372036854775808", "18446744073709551615", "18446744073709551616", "99999999999999999999", "007"}
	for _, n := range []int64{0, 1, 10, 1000, 4294967296} {
		vals := append([]string(nil), sizes...)
		if n > 0 {
			vals = append(vals, fmt.Sprint(n-1), fmt.Sprint(n), fmt.Sprint(n+1))
		}
		for _, s := range vals {
			idx++
			if !mine(idx) {
				continue
			}
			if !c06Size.one(t, c06SizeCase{N: n, Size: s, Greet: []string{"", "helo", "ehlo-helo", "helo-ehlo", "lmtp"}[idx%5], SizeKey: []string{"SIZE", "size", "Size"}[idx%3]}) {
				return
			}
		}
	}
	// declared sizes as arbitrary digit strings (leading zeros, up to 22 digits)
	c06Size.rapidCheck(t, pickTier(600, 5000), func(rt *rapid.T) c06SizeCase {
		n := rapid.SampledFrom([]int64{0, 1, 10, 1000, 4294967296, 9223372036854775807}).Draw(rt, "n")
		digits := rapid.StringMatching(`0{0,3}[0-9]{1,22}`).Draw(rt, "digits")
		if n > 0 && rapid.IntRange(0, 3).Draw(rt, "near") == 0 {
			digits = rapid.StringMatching(`0{0,2}`).Draw(rt, "zeros") + fmt.Sprint(n+int64(rapid.IntRange(-2, 2).Draw(rt, "delta")))
			if strings.HasPrefix(strings.TrimLeft(digits, "0"), "-") {
				digits = "0"
			}
		}
		return c06SizeCase{N: n, Size: digits, Greet: rapid.SampledFrom([]string{"", "", "helo", "ehlo-helo", "helo-ehlo", "lmtp"}).Draw(rt, "greet"), SizeKey: rapid.SampledFrom([]string{"SIZE", "size", "sIzE"}).Draw(rt, "key")}
	})
	if t.Failed() {
		return
	}
	// chunk sizes near 2^31, 2^32, 2^63 and 2^64, first in the transaction or
	// after accepted octets
	for _, n := range []int64{1, 10, 1000} {
		for _, first := range []int{0, 1, int(n)} {
			for _, sz := range c06HugeSizes(first) {
				for _, last := range []bool{false, true} {
					idx++
					if !mine(idx) {
						continue
					}
					if !c06Huge.one(t, c06HugeCase{N: n, First: first, Size: sz, Last: last, Mode: idx % 3}) {
						return
					}
				}
			}
		}
	}
	c06Sub.rapidCheck(t, pickTier(2500, 60000), c06Gen)
}

func c06HugeSizes(first int) []string {
	two := big.NewInt(2)
	var out []string
	for _, e := range []int64{31, 32, 63, 64} {
		p := new(big.Int).Exp(two, big.NewInt(e), nil)
		for d := int64(-2); d <= 1; d++ {
			out = append(out, new(big.Int).Add(p, big.NewInt(d)).String())
		}
		out = append(out, new(big.Int).Sub(p, big.NewInt(int64(first))).String(), new(big.Int).Sub(p, big.NewInt(int64(first)+1)).String())
	}
	return append(out, "99999999999999999999999", "0000000000000000000000000000004294967296")
}
