package props

import (
	"bytes"
	"fmt"
	"strings"
	"testing"

	"pgregory.net/rapid"

	"time"
	"verif/harness"
)

// C08 - each session is logged out exactly once; nothing runs after the
// connection ends.

// sessionInvariants checks the begin/end trace (after the join): every session
// has exactly one Logout, no callback begins on a session after its Logout
// began, every callback that began has ended.
func sessionInvariants(evs []harness.Event, leftover []string) *Verdict {
	logoutAt := map[int]int{}
	created := map[int]bool{}
	nlogout := map[int]int{}
	for _, e := range evs {
		if e.CB == "NewSession" && !e.Begin && e.Sess >= 0 {
			created[e.Sess] = true
		}
		if e.CB == "Logout" && e.Begin {
			nlogout[e.Sess]++
			if _, ok := logoutAt[e.Sess]; !ok {
				logoutAt[e.Sess] = e.Seq
			}
		}
	}
	for s := range created {
		if nlogout[s] != 1 {
			v := failf("logout-count", "session %d received %d Logout calls, want exactly one; trace %s", s, nlogout[s], traceString(evs))
			return &v
		}
	}
	for _, e := range evs {
		if e.Sess < 0 || !e.Begin {
			continue
		}
		if at, ok := logoutAt[e.Sess]; ok && e.Seq > at {
			v := failf("callback-after-logout", "callback %s begins after the session's Logout (#%d); trace %s", e, at, traceString(evs))
			return &v
		}
	}
	begun := 0
	for _, e := range evs {
		if e.CB == "AuthMechanisms" || e.CB == "SASLNext" {
			continue
		}
		if e.Begin {
			begun++
		} else {
			begun--
		}
	}
	if begun != 0 {
		v := failf("callback-unfinished", "%d callbacks began and never returned; trace %s", begun, traceString(evs))
		return &v
	}
	if len(leftover) > 0 {
		v := failf("goroutine-left", "a goroutine serving the connection outlived it:\n%s", leftover[0])
		return &v
	}
	return nil
}

// ---- every cut point of the conversation corpus ----

func c08CutRun(c c07Case) Verdict {
	b := buildConv(c.Conv)
	if c.Cut > len(b.stream) {
		c.Cut = len(b.stream)
	}
	o := runCut(b, c.Conv, c.Cut, c.Fault, harness.Config{}, harness.Script{LogoutErr: c.LogoutErr})
	if o.deadlock != "" {
		return failf("deadlock", "stream cut at %d (%s): a goroutine serving the connection never finishes:\n%s", c.Cut, c.Fault, trimTo(o.deadlock, 2500))
	}
	if o.incon != "" {
		return Verdict{Inconclusive: o.incon}
	}
	v := Verdict{}
	for k := range c.Conv.Msgs {
		if c.Cut > b.msgStart[k]-6 && c.Cut < b.completeAt[k] {
			v.NonTrivial = true
			v.Classes = append(v.Classes, "cut_inside_transaction")
		}
	}
	v.Classes = append(v.Classes, "fault_"+c.Fault)
	if p := o.r.Log.Panicked(); p != "" {
		return failf("panic", "server logged a panic: %s", p)
	}
	if bad := sessionInvariants(o.evs, o.r.Leftover); bad != nil {
		return *bad
	}
	// A cut strictly inside a command line: what arrived of that line is not
	// a command (no CRLF ever came), and the peer is gone - it must not be
	// executed. Seen from outside: no reply beyond those of the complete
	// commands (clean half-close only; after a reset replies may be lost).
	for _, sp := range b.cmdSpans {
		if c.Cut > sp.start && c.Cut < sp.end {
			v.NonTrivial = true
			v.Classes = append(v.Classes, "cut_inside_command_line")
			if c.Fault != "abort" && o.perr == nil && len(o.replies) > sp.expBefore {
				return failf("truncated-line-executed", "stream cut at %d, inside the command line %s, of which only %s arrived before the peer disconnected: it was answered all the same (%d replies where the complete commands account for %d; the extra one: %s)",
					c.Cut, q(b.stream[sp.start:sp.end]), q(b.stream[sp.start:c.Cut]), len(o.replies), sp.expBefore, o.replies[len(o.replies)-1])
			}
		}
	}
	return v
}

// ---- server-initiated close with a buffered suffix ----

type c08CloseCase struct {
	Mode      int      `json:"mode"`   // 0 SMTP, 1 LMTP plain, 2 LMTP per-recipient
	Reason    string   `json:"reason"` // quit errors longline timeout panic-newsession panic-mail panic-rcpt panic-data panic-bdat
	Prefix    []string `json:"prefix"` // command lines before the closing trigger (no CRLF)
	Suffix    []string `json:"suffix"` // command lines buffered behind it, same segment
	GateStart bool     `json:"gate_start,omitempty"`
	Split     bool     `json:"split,omitempty"`      // suffix in a second segment sent right after (still before the server reacts or not - unordered)
	LogoutErr bool     `json:"logout_err,omitempty"` // the backend's Logout reports an error
}

func c08Trigger(c c08CloseCase) (pre []byte, trigger []byte, script harness.Script, cfg harness.Config) {
	lmtp := c.Mode != 0
	cfg = harness.Config{LMTP: lmtp, MaxLineLength: 64, AllowInsecureAuth: true}
	script = harness.Script{LMTPSession: c.Mode == 2, GateStart: c.GateStart, LogoutErr: c.LogoutErr, AuthSession: true, Mechs: []string{"PLAIN"},
		SASL: []harness.SASLScript{{SkipChallengesWithIR: true}, {SkipChallengesWithIR: true}, {SkipChallengesWithIR: true}, {SkipChallengesWithIR: true}}}
	var sb strings.Builder
	for _, l := range c.Prefix {
		sb.WriteString(l + "\r\n")
	}
	pre = []byte(sb.String())
	g := greetWord(lmtp) + " cli\r\n"
	pn := harness.Decision{Kind: "panic", Msg: "boom"}
	switch c.Reason {
	case "quit":
		trigger = []byte("QUIT\r\n")
	case "errors":
		trigger = []byte("XXXX\r\nYYYY\r\n\r\nZZ\r\n")
	case "longline":
		trigger = []byte(strings.Repeat("a", 80) + "\r\n")
	case "timeout":
		cfg.ReadTimeoutMs = 100
	case "panic-newsession":
		pre = nil
		script.NewSession = []harness.Decision{pn}
		trigger = []byte(g)
	case "panic-mail":
		pre = []byte(g)
		script.Mail = []harness.Decision{pn}
		trigger = []byte("MAIL FROM:<s@x>\r\n")
	case "panic-rcpt":
		pre = []byte(g + "MAIL FROM:<s@x>\r\n")
		script.Rcpt = []harness.Decision{pn}
		trigger = []byte("RCPT TO:<r@x>\r\n")
	case "panic-data":
		pre = []byte(g + "MAIL FROM:<s@x>\r\nRCPT TO:<r@x>\r\n")
		script.Data = []harness.DataPlan{{Read: harness.ReadPlan{Limit: -1}, PanicAfter: true}}
		trigger = []byte("DATA\r\nhello\r\n.\r\n")
	case "panic-bdat":
		pre = []byte(g + "MAIL FROM:<s@x>\r\nRCPT TO:<r@x>\r\n")
		script.Data = []harness.DataPlan{{Read: harness.ReadPlan{Limit: -1}, PanicAfter: true}}
		trigger = []byte("BDAT 5 LAST\r\nhello")
	case "panic-bdat-early":
		// the delivery panics before it reads: the chunk copy itself fails
		pre = []byte(g + "MAIL FROM:<s@x>\r\nRCPT TO:<r@x>\r\nRCPT TO:<r2@x>\r\n")
		script.Data = []harness.DataPlan{{Read: harness.ReadPlan{Limit: -1}, PanicBefore: true}}
		trigger = []byte("BDAT 5 LAST\r\nhello")
	case "panic-bdat-midway":
		pre = []byte(g + "MAIL FROM:<s@x>\r\nRCPT TO:<r@x>\r\nBDAT 3\r\nabc")
		script.Data = []harness.DataPlan{{Read: harness.ReadPlan{Limit: 3}, PanicAfter: true}}
		trigger = []byte("BDAT 5 LAST\r\nhello")
	}
	return
}

type c08Obs struct {
	out       []byte
	sig       []string
	evs       []harness.Event
	leftover  []string
	panicLog  string
	incon     string
	notClosed bool
}

func c08Play(c c08CloseCase, withSuffix bool) c08Obs {
	pre, trigger, script, cfg := c08Trigger(c)
	r := harness.NewRig(cfg, script)
	w, _ := r.Dial()
	var o c08Obs
	if st := w.WaitQuiet(); st != harness.QIdle {
		w.Finish()
		o.incon = "server not idle after connect: " + st
		return o
	}
	seg := append(append([]byte(nil), pre...), trigger...)
	if withSuffix {
		var sfx []byte
		for _, l := range c.Suffix {
			sfx = append(sfx, (l + "\r\n")...)
		}
		if c.Split {
			w.Send(seg)
			w.Send(sfx)
		} else {
			w.Send(append(seg, sfx...))
		}
	} else {
		w.Send(seg)
	}
	if c.Reason == "timeout" {
		// the idle timeout is only the trigger; wait (state-based) for the
		// close, releasing a parked delivery the closing connection waits for
		closed := false
		for i := 0; i < 8 && !closed; i++ {
			gate := false
			ok := r.Hub.WaitUntil(func() bool {
				if w.S.ClosedLocked() {
					closed = true
					return true
				}
				gate = r.B.AtGateLocked()
				return gate
			}, harness.Watchdog)
			if !ok {
				break
			}
			if gate && !closed {
				r.B.ReleaseArrived()
			}
		}
		if !closed {
			w.Finish()
			o.incon = "server did not close the connection after the idle timeout (watchdog)"
			return o
		}
	} else if st := w.WaitQuiet(); st != harness.QClosed {
		// The server is waiting for more input: it has not given up on the
		// connection. For QUIT and panics the comparison below still applies
		// (221 / 421 were written); for errors/longline the property says
		// nothing (C19 judges whether it should have closed).
		o.notClosed = true
		if st == harness.QWatchdog {
			w.Finish()
			o.incon = "watchdog waiting for the server to react to " + c.Reason
			return o
		}
	}
	_, fin := w.Finish()
	if !fin {
		o.incon = "watchdog while finishing"
		if w.Deadlock != "" {
			o.incon = "DEADLOCK:" + w.Deadlock
		}
		return o
	}
	o.out = w.Out
	o.evs = r.B.Events()
	for _, e := range o.evs {
		ph := "end"
		if e.Begin {
			ph = "begin"
		}
		o.sig = append(o.sig, fmt.Sprintf("s%d %s/%s from=%q to=%q helo=%q", e.Sess, e.CB, ph, e.From, e.To, e.Hostname))
	}
	o.leftover = r.Leftover
	o.panicLog = r.Log.Panicked()
	return o
}

func c08CloseRun(c c08CloseCase) Verdict {
	base := c08Play(c, false)
	for _, o := range []c08Obs{base} {
		if strings.HasPrefix(o.incon, "DEADLOCK:") {
			return failf("deadlock", "close reason %s: a goroutine serving the connection never finishes:\n%s", c.Reason, trimTo(o.incon[9:], 2500))
		}
	}
	if base.incon != "" {
		return Verdict{Inconclusive: "run without suffix: " + base.incon}
	}
	with := c08Play(c, true)
	if strings.HasPrefix(with.incon, "DEADLOCK:") {
		return failf("deadlock", "close reason %s with suffix %q: a goroutine serving the connection never finishes:\n%s", c.Reason, c.Suffix, trimTo(with.incon[9:], 2500))
	}
	if with.incon != "" {
		return Verdict{Inconclusive: "run with suffix: " + with.incon}
	}
	if base.notClosed && (c.Reason == "errors" || c.Reason == "longline") {
		return Verdict{Classes: []string{"skipped_server_did_not_give_up_" + c.Reason}}
	}
	v := Verdict{NonTrivial: len(c.Suffix) > 0, Classes: []string{"close_" + c.Reason}}
	if len(c.Suffix) > 0 {
		v.Classes = append(v.Classes, "buffered_suffix")
	}
	for _, o := range []c08Obs{base, with} {
		if bad := sessionInvariants(o.evs, o.leftover); bad != nil {
			return *bad
		}
		if !strings.HasPrefix(c.Reason, "panic") && o.panicLog != "" {
			return failf("panic", "server logged a panic: %s", o.panicLog)
		}
	}
	if strings.HasPrefix(c.Reason, "panic") {
		// exactly the scripted panic may be logged
		if n := strings.Count(with.panicLog, "panic serving"); n > 1 {
			return failf("panic", "more than the scripted panic was logged: %s", with.panicLog)
		}
		if strings.Contains(with.panicLog, "nil pointer") {
			return failf("panic", "server logged a nil dereference: %s", with.panicLog)
		}
	}
	// metamorphic: input buffered behind the closing event has no effect at all
	if !bytes.Equal(base.out, with.out) {
		return failf("replies-after-close", "server output differs when commands are buffered behind the closing event (%s):\nwithout suffix: %s\nwith suffix %q: %s", c.Reason, q(base.out), c.Suffix, q(with.out))
	}
	if strings.Join(base.sig, "|") != strings.Join(with.sig, "|") {
		return failf("callbacks-after-close", "backend trace differs when commands are buffered behind the closing event (%s):\nwithout suffix: %s\nwith suffix %q: %s", c.Reason, traceString(base.evs), c.Suffix, traceString(with.evs))
	}
	// the closing reply is the last thing on the wire
	rs, err := harness.ParseReplies(with.out)
	if err != nil || len(rs) == 0 {
		return failf("reply-syntax", "replies do not parse: %v (%s)", err, q(with.out))
	}
	last := rs[len(rs)-1]
	wantLast := map[string]int{"quit": 221, "errors": 500, "longline": 500, "timeout": 421}
	if code, ok := wantLast[c.Reason]; ok && last.Code != code {
		return failf("closing-reply", "connection closed for %s but the last reply is %s", c.Reason, last)
	}
	if strings.HasPrefix(c.Reason, "panic") && last.Code != 421 {
		return failf("closing-reply", "backend panic but the last reply is %s", last)
	}
	return v
}

var c08SuffixLines = []string{
	"EHLO sfx", "LHLO sfx", "HELO sfx", "MAIL FROM:<sfx@x>", "RCPT TO:<sfx@x>", "DATA", "sfx body", ".", "NOOP", "RSET",
	"AUTH PLAIN AHNmeABzZng=", "STARTTLS", "BDAT 3 LAST", "abc", "QUIT", "VRFY sfx",
}

func c08GenClose(t *rapid.T) c08CloseCase {
	c := c08CloseCase{Mode: rapid.IntRange(0, 2).Draw(t, "mode")}
	c.Reason = rapid.SampledFrom([]string{"quit", "quit", "errors", "errors", "longline", "longline", "quit", "errors", "timeout", "panic-newsession", "panic-mail", "panic-rcpt", "panic-data", "panic-bdat", "panic-bdat-early", "panic-bdat-midway"}).Draw(t, "reason")
	g := greetWord(c.Mode != 0) + " cli"
	switch rapid.IntRange(0, 6).Draw(t, "prefix") {
	case 0:
	case 5:
		// authenticated, then greeted again: still the one session
		c.Prefix = []string{g, "AUTH PLAIN AHUAcHc=", g}
	case 6:
		c.Prefix = []string{g, "AUTH PLAIN AHUAcHc=", "MAIL FROM:<s@x>", g, "MAIL FROM:<s@x>"}
	case 1:
		c.Prefix = []string{g}
	case 2:
		c.Prefix = []string{g, "MAIL FROM:<s@x>"}
	case 3:
		c.Prefix = []string{g, "MAIL FROM:<s@x>", "RCPT TO:<r@x>"}
	case 4:
		c.Prefix = []string{g, "MAIL FROM:<s@x>", "RCPT TO:<r@x>", "BDAT 2", "hi"}
		// "hi" is payload: BDAT 2 + "hi\r\n" would leave CRLF as an empty command; use exact framing
		c.Prefix = []string{g, "MAIL FROM:<s@x>", "RCPT TO:<r@x>", "BDAT 0"}
	}
	if c.Reason != "timeout" {
		n := rapid.IntRange(0, 6).Draw(t, "nsfx")
		if n > 0 && rapid.Bool().Draw(t, "txn") {
			c.Suffix = []string{g, "MAIL FROM:<sfx@x>", "RCPT TO:<sfx@x>", "DATA", "sfx body", "."}
		}
		for i := 0; i < n; i++ {
			c.Suffix = append(c.Suffix, rapid.SampledFrom(c08SuffixLines).Draw(t, "sfx"))
		}
		c.Split = rapid.IntRange(0, 4).Draw(t, "split") == 0 && false
	}
	c.GateStart = rapid.IntRange(0, 2).Draw(t, "gate_start") == 0
	c.LogoutErr = rapid.IntRange(0, 2).Draw(t, "logout_err") == 0
	return c
}

// ---- STARTTLS replaces the session ----

type c08TLSCase struct {
	GateStart bool     `json:"gate_start,omitempty"` // the delivery goroutine of an open chunked transfer starts only when released
	Mode      int      `json:"mode"`
	Pre       []string `json:"pre"`  // plaintext commands before STARTTLS
	Post      []string `json:"post"` // commands inside TLS
	End       string   `json:"end"`  // "quit" or "eof"
	// HandshakeFails: the client answers the 220 with plaintext instead of a
	// ClientHello; the Post commands then go on in the clear
	HandshakeFails bool `json:"handshake_fails,omitempty"`
	LogoutErr      bool `json:"logout_err,omitempty"`
}

func c08TLSRun(c c08TLSCase) Verdict {
	lmtp := c.Mode != 0
	r := harness.NewRig(harness.Config{LMTP: lmtp, TLS: "starttls"}, harness.Script{LMTPSession: c.Mode == 2, GateStart: c.GateStart, LogoutErr: c.LogoutErr})
	w, _ := r.Dial()
	if st := w.WaitQuiet(); st != harness.QIdle {
		w.Finish()
		return Verdict{Inconclusive: "server not idle after connect: " + st}
	}
	// quiesce: release whatever parks on a gate until the server idles or closes
	quiesce := func() string {
		for i := 0; i < 8; i++ {
			st := w.WaitQuiet()
			if st == harness.QGate {
				r.B.ReleaseArrived()
				continue
			}
			return st
		}
		return harness.QWatchdog
	}
	var sb strings.Builder
	for _, l := range c.Pre {
		sb.WriteString(l + "\r\n")
	}
	sb.WriteString("STARTTLS\r\n")
	out, st := w.Exchange([]byte(sb.String()))
	if st == harness.QGate {
		// (an open transfer may be wound up before or after the handshake)
		st = quiesce()
		out = append(out, w.Recv()...)
	}
	if st != harness.QIdle || !bytes.Contains(append([]byte("\r\n"), out...), []byte("\r\n220 ")) {
		w.Finish()
		return Verdict{Inconclusive: fmt.Sprintf("STARTTLS not accepted: %s (%s)", q(out), st)}
	}
	if c.HandshakeFails {
		w.Send([]byte("this-is-not-a-tls-handshake\r\n"))
		st := quiesce()
		rs, perr := harness.ParseReplies(w.Recv())
		if st == harness.QClosed {
			// giving up the connection is a legitimate answer too
			c.Post, c.End = nil, "eof"
		} else if st != harness.QIdle || perr != nil || len(rs) != 1 || rs[0].Class() == 2 || rs[0].Class() == 3 {
			w.Finish()
			return failf("failed-handshake", "plaintext instead of a TLS handshake: server state %s, replies %v (%v)", st, codes(rs), perr)
		}
	} else {
		if err := w.StartTLS(); err != nil {
			w.Finish()
			return Verdict{Inconclusive: "TLS handshake: " + err.Error()}
		}
		if st := quiesce(); st != harness.QIdle {
			w.Finish()
			return Verdict{Inconclusive: "after the handshake: " + st}
		}
	}
	sb.Reset()
	for _, l := range c.Post {
		sb.WriteString(l + "\r\n")
	}
	if c.End == "quit" {
		sb.WriteString("QUIT\r\n")
	}
	w.Send([]byte(sb.String()))
	if c.End == "quit" {
		if st := quiesce(); st != harness.QClosed {
			w.Finish()
			return Verdict{Inconclusive: "server did not close after QUIT: " + st}
		}
	}
	_, fin := w.Finish()
	if !fin {
		return finishFail(w)
	}
	v := Verdict{NonTrivial: true, Classes: []string{"starttls_replacement"}}
	if c.HandshakeFails {
		v.Classes = []string{"starttls_handshake_fails"}
	}
	if c.GateStart {
		v.Classes = append(v.Classes, "delivery_start_gated")
	}
	if p := r.Log.Panicked(); p != "" {
		return failf("panic", "server logged a panic: %s", p)
	}
	evs := r.B.Events()
	if bad := sessionInvariants(evs, r.Leftover); bad != nil {
		return *bad
	}
	return v
}

// ---- Server.Close / Shutdown landing while a callback is in progress ----

// c08SrvCloseGen builds a C20-style schedule (the runner is shared) in which
// the server is closed or shut down exactly while a callback of the single
// connection is parked on a gate, and the callback returns only afterwards.
func c08SrvCloseGen(t *rapid.T) c20Case {
	c := c20Case{LMTP: rapid.Bool().Draw(t, "lmtp"), PerRcpt: rapid.Bool().Draw(t, "perrcpt"), NConns: 1,
		Gate: rapid.SampledFrom([]string{"newsession", "mail", "rcpt", "pre", "post", "start"}).Draw(t, "gate")}
	add := func(op string, wait bool) { c.Steps = append(c.Steps, c20Step{Conn: 0, Op: op, Wait: wait}) }
	global := func() {
		c.Steps = append(c.Steps, c20Step{Conn: -1, Op: rapid.SampledFrom([]string{"close", "close", "shutdown"}).Draw(t, "global")},
			c20Step{Conn: -1, Op: "settle"})
	}
	// an earlier, complete session on the connection's first greeting
	switch c.Gate {
	case "newsession":
		add("greet", true)
		global()
		add("release", true)
	case "mail", "rcpt":
		add("greet", true)
		add("envelope", true)
		for i, n := 0, rapid.IntRange(0, 2).Draw(t, "released_first"); i < n && c.Gate == "rcpt"; i++ {
			add("release", true)
		}
		global()
		add("release", true)
		add("release", true)
		add("release", true)
	default:
		add("greet", true)
		add("envelope", true)
		add(rapid.SampledFrom([]string{"data", "chunk", "chunk"}).Draw(t, "transfer"), true)
		if c.Steps[len(c.Steps)-1].Op == "chunk" && rapid.Bool().Draw(t, "second_chunk") {
			add("chunk", true)
		}
		global()
		add("release", true)
	}
	for i, n := 0, rapid.IntRange(0, 2).Draw(t, "more"); i < n; i++ {
		add(rapid.SampledFrom([]string{"greet", "envelope", "last", "rset", "release"}).Draw(t, "after"), true)
	}
	add(rapid.SampledFrom([]string{"quit", "eof", "abort"}).Draw(t, "end"), true)
	return c
}

var (
	c08SrvClose *subCheck[c20Case]
	c08Cuts     *subCheck[c07Case]
	c08Close    *subCheck[c08CloseCase]
	c08TLS      *subCheck[c08TLSCase]
)

func init() {
	registrars = append(registrars, func() {
		c08Cuts = newSub("C08", "cuts", c08CutRun)
		c08Close = newSub("C08", "close", c08CloseRun)
		c08TLS = newSub("C08", "starttls", c08TLSRun)
		c08SrvClose = newSub("C08", "srvclose", c20Run)
	})
}

// ---- Server.Close while STARTTLS is ending the plaintext session ----

// c08LogoutRaceCase: the plaintext session is being logged out by a successful
// STARTTLS (the backend's Logout is in progress, parked on a gate) when
// Server.Close arrives on another goroutine. Whoever gets there first logs
// the session out; the other must find nothing left to log out.
type c08LogoutRaceCase struct {
	Mode int      `json:"mode"`
	Pre  []string `json:"pre"` // plaintext commands before STARTTLS
}

func c08LogoutRaceRun(c c08LogoutRaceCase) Verdict {
	lmtp := c.Mode != 0
	r := harness.NewRig(harness.Config{LMTP: lmtp, TLS: "starttls"}, harness.Script{LMTPSession: c.Mode == 2, GateCalls: []string{"Logout"}})
	w, _ := r.Dial()
	if st := w.WaitQuiet(); st != harness.QIdle {
		r.B.ReleaseAll()
		w.Finish()
		return Verdict{Inconclusive: "server not idle after connect: " + st}
	}
	var sb strings.Builder
	for _, l := range c.Pre {
		sb.WriteString(l + "\r\n")
	}
	sb.WriteString("STARTTLS\r\n")
	out, st := w.Exchange([]byte(sb.String()))
	if st != harness.QIdle || !bytes.Contains(append([]byte("\r\n"), out...), []byte("\r\n220 ")) {
		r.B.ReleaseAll()
		w.Finish()
		return Verdict{Inconclusive: fmt.Sprintf("STARTTLS not accepted: %s (%s)", q(out), st)}
	}
	if err := w.StartTLS(); err != nil {
		r.B.ReleaseAll()
		w.Finish()
		return Verdict{Inconclusive: "TLS handshake: " + err.Error()}
	}
	// the handshake is over: the server logs the plaintext session out
	if !r.Hub.WaitUntil(func() bool { return r.B.GateArrivedLocked("Logout0") }, harness.Watchdog) {
		r.B.ReleaseAll()
		w.Finish()
		return Verdict{Inconclusive: "the plaintext session's Logout did not begin (watchdog)"}
	}
	closed := make(chan struct{})
	go func() {
		r.Srv.Close()
		r.Hub.Lock()
		close(closed)
		r.Hub.Unlock()
		r.Hub.Broadcast()
	}()
	// Close either finds the session taken (and returns), or starts a Logout
	// of its own (the second one: it parks on the next gate)
	r.Hub.WaitUntil(func() bool {
		select {
		case <-closed:
			return true
		default:
		}
		return r.B.GateArrivedLocked("Logout1")
	}, 2*time.Second)
	r.B.ReleaseAll()
	select {
	case <-closed:
	case <-time.After(harness.Watchdog):
		w.Finish()
		return failf("close-hangs", "Server.Close did not return although the Logout in progress was released")
	}
	w.Finish()
	v := Verdict{NonTrivial: true, Classes: []string{"close_during_starttls_logout"}}
	if p := r.Log.Panicked(); p != "" {
		return failf("panic", "server logged a panic: %s", p)
	}
	if bad := sessionInvariants(r.B.Events(), r.Leftover); bad != nil {
		return *bad
	}
	return v
}

var c08LogoutRace *subCheck[c08LogoutRaceCase]

func init() {
	registrars = append(registrars, func() { c08LogoutRace = newSub("C08", "logout-race", c08LogoutRaceRun) })
}

func TestC08(t *testing.T) {
	registerAll()
	st.Rule = "cases = (conversation, cut offset, fault) for every cut offset of generated conversations; (close reason quit|errors|longline|timeout|backend panic in each callback, prefix history, suffix of commands buffered in the same segment), judged metamorphically against the same run without suffix; (history, STARTTLS with a successful or a failed handshake, history behind it); (Server.Close or Shutdown landing while NewSession/Mail/Rcpt/Data of the connection is parked on a gate, the callback returning afterwards); non-trivial = close reason with a non-empty buffered suffix OR a cut inside a transaction OR a STARTTLS session replacement; distinct = hash of the whole case"
	if !regress(t, "C08") {
		return
	}
	c08Close.rapidCheck(t, pickTier(1500, 12000), c08GenClose)
	if t.Failed() {
		return
	}
	for mode := 0; mode < 3; mode++ {
		g := greetWord(mode != 0)
		for _, pre := range [][]string{{g + " a"}, {g + " a", "MAIL FROM:<s@x>", "RCPT TO:<r@x>"}, {g + " a", "MAIL FROM:<s@x>", "RCPT TO:<r@x>", "BDAT 0"}} {
			if !c08LogoutRace.one(t, c08LogoutRaceCase{Mode: mode, Pre: pre}) {
				return
			}
		}
	}
	c08SrvClose.rapidCheck(t, pickTier(400, 4000), c08SrvCloseGen)
	if t.Failed() {
		return
	}
	flagSetChecks(pickTier(40, 300))
	func() {
		defer c08Cuts.flushRapid()
		rapid.Check(t, func(rt *rapid.T) {
			spec := genConvSpec(rt)
			b := buildConv(spec)
			fault := rapid.SampledFrom([]string{"eof", "abort", "eof-with-data"}).Draw(rt, "fault")
			logoutErr := rapid.IntRange(0, 2).Draw(rt, "logout_err") == 0
			for cut := 0; cut <= len(b.stream); cut++ {
				if v := c08Cuts.eval(c07Case{Conv: spec, Cut: cut, Fault: fault, LogoutErr: logoutErr}); v.Fail != "" {
					rt.Fatalf("C08/cuts: %s", v.Fail)
				}
			}
		})
	}()
	if t.Failed() {
		return
	}
	c08TLS.rapidCheck(t, pickTier(400, 3000), func(rt *rapid.T) c08TLSCase {
		mode := rapid.IntRange(0, 2).Draw(rt, "mode")
		g := greetWord(mode != 0)
		pres := [][]string{{}, {g + " a"}, {g + " a", "MAIL FROM:<s@x>"}, {g + " a", "MAIL FROM:<s@x>", "RCPT TO:<r@x>"}, {g + " a", "MAIL FROM:<s@x>", "RCPT TO:<r@x>", "BDAT 0"}}
		posts := [][]string{{}, {g + " b"}, {g + " b", "MAIL FROM:<s2@x>", "RCPT TO:<r2@x>", "DATA", "x", "."}, {"MAIL FROM:<s2@x>"}, {g + " b", g + " c"}, {g + " b", "MAIL FROM:<s2@x>", "RCPT TO:<r2@x>", "BDAT 0"}}
		return c08TLSCase{GateStart: rapid.Bool().Draw(rt, "gate_start"), Mode: mode, Pre: rapid.SampledFrom(pres).Draw(rt, "pre"), Post: rapid.SampledFrom(posts).Draw(rt, "post"),
			End: rapid.SampledFrom([]string{"quit", "eof"}).Draw(rt, "end"), HandshakeFails: rapid.IntRange(0, 2).Draw(rt, "handshake_fails") == 0,
			LogoutErr: rapid.IntRange(0, 2).Draw(rt, "logout_err") == 0}
	})
}
