package props

import (
	"bufio"
	"bytes"
	"fmt"
	"io"
	"strings"
	"sync"
	"testing"
	"time"

	"github.com/emersion/go-smtp"
	"pgregory.net/rapid"

	"verif/harness"
)

// C15 - the client writes one command line per call and only negotiated
// parameters.

type c15Call struct {
	Op string `json:"op"` // hello mail rcpt verify reset noop
	// arguments (hostile strings may be embedded anywhere)
	Name   string   `json:"name,omitempty"`
	Addr   string   `json:"addr,omitempty"`
	Opts   bool     `json:"opts,omitempty"`
	Size   int64    `json:"size,omitempty"`
	RTLS   bool     `json:"rtls,omitempty"`
	UTF8   bool     `json:"utf8,omitempty"`
	Ret    string   `json:"ret,omitempty"`
	EnvID  string   `json:"envid,omitempty"`
	Auth   *string  `json:"auth,omitempty"`
	Notify []string `json:"notify,omitempty"`
	OType  string   `json:"otype,omitempty"`
	ORcpt  string   `json:"orcpt,omitempty"`
	RRVS   bool     `json:"rrvs,omitempty"`
	Body   string   `json:"body,omitempty"` // MailOptions.Body (the client documents that it picks the BODY value itself; a client that honours the field must do so on one line, under what was negotiated)
}

type c15Case struct {
	Caps  [][]string `json:"caps"` // extensions advertised by the k-th EHLO reply
	Calls []c15Call  `json:"calls"`
}

type c15Server struct {
	mu    sync.Mutex
	in    []byte
	ehlos int
	caps  [][]string
	last  []string // capabilities of the most recent EHLO reply
	done  chan struct{}
}

func (s *c15Server) serve(conn io.ReadWriteCloser) {
	defer close(s.done)
	defer conn.Close()
	br := bufio.NewReader(conn)
	io.WriteString(conn, "220 fake ESMTP\r\n")
	for {
		line, err := br.ReadString('\n')
		s.mu.Lock()
		s.in = append(s.in, line...)
		s.mu.Unlock()
		if err != nil {
			return
		}
		up := strings.ToUpper(line)
		switch {
		case strings.HasPrefix(up, "EHLO"):
			s.mu.Lock()
			k := s.ehlos
			s.ehlos++
			if k >= len(s.caps) {
				k = len(s.caps) - 1
			}
			caps := s.caps[k]
			if len(caps) == 1 && caps[0] == c15HeloOnly {
				// a server from before ESMTP: EHLO is not implemented, the
				// client falls back to HELO (answered 250 below) and has no
				// extensions to count on
				s.last = nil
				s.mu.Unlock()
				io.WriteString(conn, "502 5.5.1 EHLO not implemented\r\n")
				continue
			}
			s.last = caps
			s.mu.Unlock()
			// the reply lists exactly the drawn capabilities - possibly none,
			// which makes it a single line
			lines := append([]string{"fake"}, caps...)
			var sb strings.Builder
			for i, l := range lines {
				if i == len(lines)-1 {
					sb.WriteString("250 " + l + "\r\n")
				} else {
					sb.WriteString("250-" + l + "\r\n")
				}
			}
			io.WriteString(conn, sb.String())
		case strings.HasPrefix(up, "QUIT"):
			io.WriteString(conn, "221 2.0.0 bye\r\n")
			return
		case strings.HasPrefix(up, "VRFY"):
			io.WriteString(conn, "250 2.0.0 user ok\r\n")
		default:
			io.WriteString(conn, "250 2.0.0 OK\r\n")
		}
	}
}

func (s *c15Server) received() int {
	s.mu.Lock()
	defer s.mu.Unlock()
	return len(s.in)
}

// c15HeloOnly as the only entry of a capability list: that EHLO is refused
// with 502 (HELO works).
const c15HeloOnly = "!HELO-ONLY"

var c15KeywordExt = map[string]string{"BODY": "8BITMIME", "SIZE": "SIZE", "REQUIRETLS": "REQUIRETLS", "SMTPUTF8": "SMTPUTF8", "RET": "DSN", "ENVID": "DSN",
	"NOTIFY": "DSN", "ORCPT": "DSN", "AUTH": "AUTH", "RRVS": "RRVS"}

func c15Run(c c15Case) Verdict {
	hub := harness.NewHub()
	clEnd, svEnd := harness.Pair(hub)
	srv := &c15Server{caps: c.Caps, done: make(chan struct{})}
	go srv.serve(svEnd)
	cl := smtp.NewClient(clEnd)
	v := Verdict{}
	hostile := false
	absent := false
	type result struct {
		delta []byte
		err   error
		caps  []string
	}
	var results []result
	finished := make(chan struct{})
	go func() {
		defer close(finished)
		for _, call := range c.Calls {
			before := srv.received()
			var err error
			switch call.Op {
			case "hello":
				err = cl.Hello(call.Name)
			case "mail":
				var o *smtp.MailOptions
				if call.Opts {
					o = &smtp.MailOptions{Size: call.Size, RequireTLS: call.RTLS, UTF8: call.UTF8, Return: smtp.DSNReturn(call.Ret), EnvelopeID: call.EnvID, Auth: call.Auth, Body: smtp.BodyType(call.Body)}
				}
				err = cl.Mail(call.Addr, o)
			case "rcpt":
				var o *smtp.RcptOptions
				if call.Opts {
					o = &smtp.RcptOptions{OriginalRecipientType: smtp.DSNAddressType(call.OType), OriginalRecipient: call.ORcpt}
					for _, n := range call.Notify {
						o.Notify = append(o.Notify, smtp.DSNNotify(n))
					}
					if call.RRVS {
						o.RequireRecipientValidSince = time.Date(2020, 1, 2, 3, 4, 5, 0, time.UTC)
					}
				}
				err = cl.Rcpt(call.Addr, o)
			case "verify":
				err = cl.Verify(call.Addr)
			case "reset":
				err = cl.Reset()
			case "noop":
				err = cl.Noop()
			}
			// the fake server answers every line, so by the time the call
			// returns it has consumed what the call wrote - unless the call
			// wrote more lines than it read replies for; give the server a
			// chance to drain (state-based: it blocks reading when done)
			hub.WaitUntil(func() bool { return svEnd.BlockedInReadLocked() || svEnd.ClosedLocked() }, harness.Watchdog)
			srv.mu.Lock()
			delta := append([]byte(nil), srv.in[before:]...)
			caps := append([]string(nil), srv.last...)
			srv.mu.Unlock()
			results = append(results, result{delta, err, caps})
		}
	}()
	select {
	case <-finished:
	case <-time.After(harness.Watchdog):
		clEnd.Abort()
		<-finished
		return Verdict{Inconclusive: "client call did not return (watchdog)"}
	}
	cl.Close()
	clEnd.Close()
	<-srv.done

	needHello := true
	heloFallback := false
	for i, call := range c.Calls {
		res := results[i]
		args := []string{call.Name, call.Addr, call.Ret, call.EnvID, call.OType, call.ORcpt}
		if call.Auth != nil {
			args = append(args, *call.Auth)
		}
		args = append(args, call.Notify...)
		for _, a := range args {
			if strings.ContainsAny(a, "\r\n\x00") {
				hostile = true
			}
		}
		lines := bytes.SplitAfter(res.delta, []byte("\n"))
		if len(lines) > 0 && len(lines[len(lines)-1]) == 0 {
			lines = lines[:len(lines)-1]
		}
		what := fmt.Sprintf("call %d %s(%+v)", i, call.Op, call)
		// every line ends in CRLF and has no other CR / LF
		for _, l := range lines {
			if !bytes.HasSuffix(l, []byte("\r\n")) || bytes.ContainsAny(l[:len(l)-2], "\r\n") {
				return failf("bare-cr-lf", "%s put a bare CR or LF (or an unterminated line) on the wire: %s", what, q(res.delta))
			}
		}
		// an implicit greeting may precede the command
		if needHello && len(lines) > 0 {
			up := strings.ToUpper(string(lines[0]))
			if strings.HasPrefix(up, "EHLO") || strings.HasPrefix(up, "HELO") {
				lines = lines[1:]
				needHello = false
				// EHLO refused: the fallback to HELO is part of the greeting
				if len(lines) > 0 && strings.HasPrefix(up, "EHLO") && strings.HasPrefix(strings.ToUpper(string(lines[0])), "HELO") {
					lines = lines[1:]
					heloFallback = true
				}
			}
		}
		if call.Op == "hello" {
			// the greeting itself is the command
			if res.err == nil && needHello {
				return failf("no-greeting", "%s returned nil without sending a greeting: %s", what, q(res.delta))
			}
			if len(lines) != 0 {
				return failf("second-line", "%s wrote more than the greeting line: %s", what, q(res.delta))
			}
			continue
		}
		if len(lines) > 1 {
			return failf("second-line", "%s wrote %d command lines: %s", what, len(lines), q(res.delta))
		}
		if len(lines) == 0 {
			if res.err == nil {
				return failf("nothing-written", "%s returned nil but wrote no command", what)
			}
			continue
		}
		line := strings.TrimSuffix(string(lines[0]), "\r\n")
		verb := map[string]string{"mail": "MAIL FROM:", "rcpt": "RCPT TO:", "verify": "VRFY ", "reset": "RSET", "noop": "NOOP"}[call.Op]
		if !strings.HasPrefix(line, verb) {
			return failf("wrong-verb", "%s wrote %q, which does not start with %q", what, line, verb)
		}
		if call.Op == "reset" && res.err == nil {
			needHello = true
		}
		if call.Op != "mail" && call.Op != "rcpt" {
			continue
		}
		// parameters: only of extensions in the most recent EHLO reply
		offered := map[string]bool{}
		for _, cp := range res.caps {
			offered[strings.ToUpper(strings.Fields(cp)[0])] = true
		}
		// where the path ends: at the first '>' outside a quoted string, as
		// RFC 5321 reads it; if the quoting never ends no receiver reads it
		// that way, and the first '>' of all is where one will cut
		pathEnd, inq := -1, false
		for k := 0; k < len(line) && pathEnd < 0; k++ {
			switch ch := line[k]; {
			case inq && ch == '\\':
				k++
			case ch == '"':
				inq = !inq
			case ch == '>' && !inq:
				pathEnd = k
			}
		}
		if pathEnd < 0 {
			pathEnd = strings.Index(line, ">")
		}
		if i := pathEnd; i >= 0 {
			for _, tok := range strings.Fields(line[i+1:]) {
				key := strings.ToUpper(strings.SplitN(tok, "=", 2)[0])
				ext, known := c15KeywordExt[key]
				if !known {
					continue // part of a hostile value that broke out of the path: judged above by line rules
				}
				if !offered[ext] {
					absent = true
					return failf("unnegotiated-parameter", "%s sent %q although the most recent EHLO reply offers only %v", what, tok, res.caps)
				}
				if key == "BODY" && strings.EqualFold(tok, "BODY=BINARYMIME") && !offered["BINARYMIME"] {
					return failf("unnegotiated-parameter", "%s sent %q although the most recent EHLO reply offers no BINARYMIME (%v)", what, tok, res.caps)
				}
			}
		}
		if call.Op == "mail" && call.Opts {
			if call.RTLS && !offered["REQUIRETLS"] {
				return failf("requiretls-dropped", "%s: REQUIRETLS requested but not offered: a command was written (%q) instead of a local error", what, line)
			}
			if call.UTF8 && !offered["SMTPUTF8"] {
				return failf("smtputf8-dropped", "%s: SMTPUTF8 requested but not offered: a command was written (%q) instead of a local error", what, line)
			}
		}
	}
	differ := len(c.Caps) > 1 && strings.Join(c.Caps[0], ",") != strings.Join(c.Caps[1], ",")
	v.NonTrivial = hostile || differ
	if hostile {
		v.Classes = append(v.Classes, "hostile_string")
	}
	if differ {
		v.Classes = append(v.Classes, "second_ehlo_differs")
	}
	if heloFallback {
		v.Classes = append(v.Classes, "ehlo_refused_helo_fallback")
	}
	_ = absent
	return v
}

var c15Exts = []string{"8BITMIME", "SIZE 1000", "DSN", "SMTPUTF8", "REQUIRETLS", "AUTH PLAIN", "RRVS"}

func c15GenCaps(t *rapid.T) []string {
	var out []string
	switch rapid.IntRange(0, 9).Draw(t, "nocaps") {
	case 0, 1:
		return nil // a bare "250 host" reply
	case 2:
		return []string{c15HeloOnly} // EHLO refused, HELO accepted
	}
	for _, e := range c15Exts {
		if rapid.Bool().Draw(t, "cap") {
			out = append(out, e)
		}
	}
	return out
}

var c15Hostile []string

func init() {
	// (the quote and the backslash are what an address scanner treats specially)
	alpha := []string{"\r", "\n", "\x00", " ", "<", ">", "a", "\"", "\\"}
	c15Hostile = []string{""}
	for l := 1; l <= 3; l++ {
		var rec func(cur string, d int)
		rec = func(cur string, d int) {
			if d == l {
				c15Hostile = append(c15Hostile, cur)
				return
			}
			for _, a := range alpha {
				rec(cur+a, d+1)
			}
		}
		rec("", 0)
	}
}

func c15Embed(t *rapid.T, benign, label string) string {
	if rapid.IntRange(0, 3).Draw(t, label+"_h") != 0 {
		return benign
	}
	if rapid.IntRange(0, 5).Draw(t, label+"_kw") == 0 {
		// something that reads as an ESMTP parameter once a receiver has
		// cut the path short: behind a '>', a quote, or both (D27, D36)
		return rapid.SampledFrom([]string{"a@b", "\"", "\"a\"", "", "x\\"}).Draw(t, label+"_base") +
			rapid.SampledFrom([]string{">", "\">", ">\"", "\" >"}).Draw(t, label+"_close") +
			rapid.SampledFrom([]string{"", " "}).Draw(t, label+"_sp") +
			rapid.SampledFrom([]string{"SIZE=1", "SIZE", "SMTPUTF8", "REQUIRETLS", "BODY=8BITMIME", "RET=HDRS", "NOTIFY=NEVER", "RRVS=2014-04-03T23:01:00Z", "AUTH=<>"}).Draw(t, label+"_param") +
			rapid.SampledFrom([]string{"", " ", " <"}).Draw(t, label+"_tail")
	}
	h := rapid.SampledFrom(c15Hostile).Draw(t, label+"_hs")
	pos := rapid.IntRange(0, len(benign)).Draw(t, label+"_pos")
	if at := strings.IndexByte(benign, '@'); at > 0 && pos <= at && rapid.IntRange(0, 2).Draw(t, label+"_quoted") == 0 {
		// inside a quoted local part
		return "\"" + benign[:pos] + h + benign[pos:at] + "\"" + benign[at:]
	}
	return benign[:pos] + h + benign[pos:]
}

func c15GenCall(t *rapid.T, op string) c15Call {
	c := c15Call{Op: op}
	switch op {
	case "hello":
		c.Name = c15Embed(t, "client.example", "name")
	case "verify":
		c.Addr = c15Embed(t, "someone@example.org", "addr")
	case "mail":
		c.Addr = c15Embed(t, "sender@example.org", "addr")
		c.Opts = rapid.IntRange(0, 4).Draw(t, "opts") != 0
		if c.Opts {
			if rapid.Bool().Draw(t, "o_size") {
				c.Size = 12345
			}
			c.RTLS = rapid.IntRange(0, 3).Draw(t, "o_rtls") == 0
			c.UTF8 = rapid.IntRange(0, 3).Draw(t, "o_utf8") == 0
			if rapid.Bool().Draw(t, "o_ret") {
				c.Ret = c15Embed(t, rapid.SampledFrom([]string{"FULL", "HDRS"}).Draw(t, "ret"), "ret")
			}
			if rapid.IntRange(0, 2).Draw(t, "o_body") == 0 {
				c.Body = c15Embed(t, rapid.SampledFrom([]string{"7BIT", "8BITMIME", "BINARYMIME"}).Draw(t, "body"), "body")
			}
			if rapid.Bool().Draw(t, "o_envid") {
				c.EnvID = c15Embed(t, "envelope-1", "envid")
			}
			if rapid.Bool().Draw(t, "o_auth") {
				a := c15Embed(t, "auth@example.org", "auth")
				c.Auth = &a
			}
		}
	case "rcpt":
		c.Addr = c15Embed(t, "rcpt@example.org", "addr")
		c.Opts = rapid.IntRange(0, 4).Draw(t, "opts") != 0
		if c.Opts {
			if rapid.Bool().Draw(t, "o_notify") {
				c.Notify = []string{c15Embed(t, rapid.SampledFrom([]string{"SUCCESS", "FAILURE", "NEVER"}).Draw(t, "nitem"), "notify")}
			}
			if rapid.Bool().Draw(t, "o_orcpt") {
				c.OType = c15Embed(t, rapid.SampledFrom([]string{"RFC822", "UTF-8"}).Draw(t, "otype"), "otype")
				c.ORcpt = c15Embed(t, "orig@example.org", "orcpt")
			}
			c.RRVS = rapid.Bool().Draw(t, "o_rrvs")
		}
	}
	return c
}

func c15Gen(t *rapid.T) c15Case {
	c := c15Case{Caps: [][]string{c15GenCaps(t), c15GenCaps(t), c15GenCaps(t)}}
	n := rapid.IntRange(1, 8).Draw(t, "ncalls")
	for i := 0; i < n; i++ {
		ops := []string{"mail", "mail", "rcpt", "rcpt", "verify", "reset", "noop"}
		if i == 0 {
			ops = append(ops, "hello", "hello")
		}
		c.Calls = append(c.Calls, c15GenCall(t, rapid.SampledFrom(ops).Draw(t, "op")))
	}
	return c
}

var (
	c15Sub   *subCheck[c15Case]
	c15Words *subCheck[c15Case]
)

func init() {
	registrars = append(registrars, func() {
		c15Sub = newSub("C15", "rapid", c15Run)
		c15Words = newSub("C15", "hostile", c15Run)
	})
}

func TestC15(t *testing.T) {
	registerAll()
	st.Rule = "cases = (capability subsets advertised by the 1st/2nd/3rd EHLO reply of a scripted server, sequence of Client calls Hello/Mail/Rcpt/Verify/Reset/Noop with option subsets, hostile strings over {CR,LF,NUL,SP,<,>,a,\",\\} embedded in string arguments); exhaustive part: every hostile string up to the length bound in every string-typed argument; oracle on the octets the server received per call; non-trivial = hostile string present OR the second EHLO reply differs from the first; distinct = hash of the whole case"
	if !regress(t, "C15") {
		return
	}
	// exhaustive: every hostile string in every string-typed argument position
	maxLen := pickTier(3, 4)
	alpha := []string{"\r", "\n", "\x00", " ", "<", ">", "a", "\"", "\\"}
	var words []string
	var rec func(cur string, d int)
	rec = func(cur string, d int) {
		if d > 0 {
			words = append(words, cur)
		}
		if d == maxLen {
			return
		}
		for _, a := range alpha {
			rec(cur+a, d+1)
		}
	}
	rec("", 0)
	all := [][]string{{"8BITMIME", "SIZE 1000", "DSN", "SMTPUTF8", "REQUIRETLS", "AUTH PLAIN", "RRVS"}}
	idx := 0
	complete := true
	for _, wd := range words {
		emb := func(b string) string { return b[:2] + wd + b[2:] }
		auth := emb("auth@example.org")
		cases := []c15Call{
			{Op: "hello", Name: emb("client.example")},
			{Op: "mail", Addr: emb("sender@example.org")},
			{Op: "rcpt", Addr: emb("rcpt@example.org")},
			{Op: "verify", Addr: emb("someone@example.org")},
			{Op: "mail", Addr: "s@x", Opts: true, EnvID: emb("envelope-1")},
			{Op: "mail", Addr: "s@x", Opts: true, Auth: &auth},
			{Op: "mail", Addr: "s@x", Opts: true, Ret: emb("FULL")},
			{Op: "mail", Addr: "s@x", Opts: true, Body: emb("8BITMIME")},
			{Op: "rcpt", Addr: "r@x", Opts: true, OType: "RFC822", ORcpt: emb("orig@example.org")},
			{Op: "rcpt", Addr: "r@x", Opts: true, OType: "UTF-8", ORcpt: emb("orig@example.org")},
			{Op: "rcpt", Addr: "r@x", Opts: true, OType: emb("RFC822"), ORcpt: "orig@example.org"},
			{Op: "rcpt", Addr: "r@x", Opts: true, Notify: []string{emb("SUCCESS")}},
		}
		// keyword-valued arguments: also at the very start and the very end
		// (a validator that trims or folds before it compares)
		cases = append(cases,
			c15Call{Op: "rcpt", Addr: "r@x", Opts: true, Notify: []string{"SUCCESS" + wd}},
			c15Call{Op: "rcpt", Addr: "r@x", Opts: true, Notify: []string{wd + "NEVER"}},
			c15Call{Op: "rcpt", Addr: "r@x", Opts: true, Notify: []string{"FAILURE" + wd, "DELAY"}},
			c15Call{Op: "mail", Addr: "s@x", Opts: true, Ret: "HDRS" + wd},
			c15Call{Op: "mail", Addr: "s@x", Opts: true, Ret: wd + "FULL"},
			c15Call{Op: "rcpt", Addr: "r@x", Opts: true, OType: "RFC822" + wd, ORcpt: "orig@example.org"},
		)
		// the same inside a quoted local part, where an address scanner is in
		// another state (quoted-pairs, a closing quote that follows)
		embQ := func(local, dom string) string { return "\"" + local[:2] + wd + local[2:] + "\"@" + dom }
		authQ := embQ("auth", "example.org")
		cases = append(cases,
			c15Call{Op: "mail", Addr: embQ("sender", "example.org")},
			c15Call{Op: "rcpt", Addr: embQ("rcpt", "example.org")},
			c15Call{Op: "verify", Addr: embQ("someone", "example.org")},
			c15Call{Op: "mail", Addr: "s@x", Opts: true, Auth: &authQ},
			c15Call{Op: "rcpt", Addr: "r@x", Opts: true, OType: "RFC822", ORcpt: embQ("orig", "example.org")},
		)
		for _, call := range cases {
			idx++
			if !mine(idx) || !complete {
				continue
			}
			calls := []c15Call{call, {Op: "noop"}}
			if call.Op == "rcpt" {
				// Rcpt does not greet by itself (a Mail precedes it): without
				// the greeting the client knows no extension and drops every
				// option - the case would say nothing
				calls = []c15Call{{Op: "mail", Addr: "s@x"}, call, {Op: "noop"}}
			}
			if !c15Words.one(t, c15Case{Caps: all, Calls: calls}) {
				complete = false
			}
		}
	}
	st.Exhaustive["hostile"] = complete
	if !complete {
		return
	}
	c15Sub.rapidCheck(t, pickTier(4000, 100000), c15Gen)
}
