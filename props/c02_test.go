package props

import (
	"bytes"
	"fmt"
	"strings"
	"testing"

	"pgregory.net/rapid"

	"verif/harness"
	"verif/ref"
)

// C02 - only <CRLF>.<CRLF> ends DATA and commands resume exactly after it.

type c02Case struct {
	Body    Octets           `json:"body"`    // message octets as sent (before the end marker); no true end marker inside
	Markers []string         `json:"markers"` // command lines pipelined after the end marker
	Cuts    []int            `json:"cuts,omitempty"`
	Mode    int              `json:"mode"`       // 0 SMTP, 1 LMTP plain backend, 2 LMTP per-recipient backend
	NRcpt   int              `json:"nrcpt"`      // 1..3
	Limit   int64            `json:"limit"`      // MaxMessageBytes, 0 = none
	ReadLim int              `json:"read_limit"` // -1 = read everything, k = stop after k octets
	Reads   []int            `json:"reads,omitempty"`
	Result  harness.Decision `json:"result"`
	// StallAt > 0: the server has a 100 ms ReadTimeout; the client sends the
	// first StallAt octets of the stream, stays silent until the server has
	// reacted to the timeout (state-based wait), then sends the rest. Whatever
	// the server does then, the rest of the message must not be executed.
	StallAt int `json:"stall_at,omitempty"`
	// LineLimit > 0: Server.MaxLineLength is this (the default, 2000, is out
	// of reach of these messages otherwise). When a stretch of the message
	// outgrows it the server may give up the connection, and as after a
	// stall only "nothing of the message is executed" is demanded.
	LineLimit int `json:"line_limit,omitempty"`
	// TLS: the connection is under (implicit) TLS; every segment is a record
	TLS bool `json:"tls,omitempty"`
}

var c02Baits = []string{
	"MAIL FROM:<bait0@x>\r\n", "RCPT TO:<bait1@x>\r\n", "RSET\r\n", "QUIT\r\n", "DATA\r\n", "BDAT 4 LAST\r\n",
	"EHLO bait\r\n", "LHLO bait\r\n", "NOOP\r\n",
}

var c02Looks = []string{
	"\n.\n", "\n.\r\n", "\r\n.\n", "\r.\r", "\r\n..\r\n", "\r\n. \r\n", "\r\r\n", "\r\n.\r", ".\r", "\r\n.x\r\n", "\n", "\r",
}

// c02Stream returns the octets sent after the 354 and the offset at which the
// marker commands start.
func c02Stream(c c02Case) ([]byte, int) {
	s := append([]byte(nil), c.Body...)
	s = append(s, ref.Terminator(c.Body)...)
	n := len(s)
	for _, m := range c.Markers {
		s = append(s, m...)
	}
	return s, n
}

// c02Defuse rewrites any accidental true end marker inside body (pieces can
// combine into one) by putting an 'x' in front of its dot.
func c02Defuse(body []byte) []byte {
	for i := 0; i < 50; i++ {
		full := append(append([]byte(nil), body...), ref.Terminator(body)...)
		_, resume, ok := ref.Unstuff(full)
		if !ok || resume == len(full) {
			return body
		}
		dot := resume - 3
		nb := append([]byte(nil), body[:dot]...)
		nb = append(nb, 'x')
		body = append(nb, body[dot:]...)
	}
	return []byte("x")
}

func c02Gen(t *rapid.T) c02Case {
	var body []byte
	n := rapid.IntRange(0, 10).Draw(t, "pieces")
	for i := 0; i < n; i++ {
		switch rapid.IntRange(0, 5).Draw(t, "kind") {
		case 0, 1:
			body = append(body, rapid.SampledFrom(c02Baits).Draw(t, "bait")...)
		case 2, 3:
			body = append(body, rapid.SampledFrom(c02Looks).Draw(t, "look")...)
		case 4:
			body = append(body, rapid.StringMatching(`[a-z.]{0,8}\r\n`).Draw(t, "line")...)
		default:
			body = append(body, rapid.SliceOfN(rapid.Byte(), 1, 6).Draw(t, "raw")...)
		}
	}
	lineLimit := 0
	if rapid.IntRange(0, 5).Draw(t, "line_limit_on") == 0 {
		lineLimit = rapid.IntRange(32, 64).Draw(t, "line_limit")
		if rapid.IntRange(0, 3).Draw(t, "long_line") != 0 {
			// an over-long line somewhere in the message, baits behind it
			long := bytes.Repeat([]byte("y"), rapid.IntRange(lineLimit-3, 2*lineLimit+3).Draw(t, "long_len"))
			at := rapid.IntRange(0, len(body)).Draw(t, "long_at")
			nb := append([]byte(nil), body[:at]...)
			nb = append(nb, long...)
			if rapid.Bool().Draw(t, "long_crlf") {
				nb = append(nb, "\r\n"...)
			}
			body = append(nb, body[at:]...)
			body = append(body, rapid.SampledFrom(c02Baits).Draw(t, "bait_behind")...)
		}
	}
	body = c02Defuse(body)
	c := c02Case{Body: body, LineLimit: lineLimit}
	c.Markers = []string{"MAIL FROM:<marker0@x>\r\n"}
	for i, k := 0, rapid.IntRange(0, 3).Draw(t, "nmark"); i < k; i++ {
		c.Markers = append(c.Markers, rapid.SampledFrom([]string{"RCPT TO:<marker1@x>\r\n", "NOOP\r\n", "RCPT TO:<marker2@x>\r\n"}).Draw(t, "marker"))
	}
	c.Markers = append(c.Markers, "QUIT\r\n")
	c.Mode = rapid.IntRange(0, 2).Draw(t, "mode")
	c.NRcpt = rapid.IntRange(1, 3).Draw(t, "nrcpt")
	full := append(append([]byte(nil), body...), ref.Terminator(body)...)
	msg, _, _ := ref.Unstuff(full)
	switch rapid.IntRange(0, 4).Draw(t, "limit") {
	case 0, 1:
		c.Limit = 0
	case 2:
		c.Limit = int64(rapid.IntRange(1, max(1, len(msg)-1)).Draw(t, "below"))
	case 3:
		c.Limit = int64(max(1, len(msg)))
	case 4:
		c.Limit = int64(len(msg) + rapid.IntRange(1, 50).Draw(t, "above"))
	}
	switch rapid.IntRange(0, 3).Draw(t, "readlim") {
	case 0, 1:
		c.ReadLim = -1
	case 2:
		c.ReadLim = 0
	default:
		c.ReadLim = rapid.IntRange(0, max(0, len(msg))).Draw(t, "k")
	}
	c.Reads = genReadSizes(t, "reads")
	c.TLS = rapid.IntRange(0, 7).Draw(t, "tls") == 0
	switch rapid.IntRange(0, 3).Draw(t, "result") {
	case 0, 1:
	case 2:
		c.Result = harness.Decision{Kind: "smtp", Code: 550, Enh: [3]int{5, 7, 1}, Msg: "scripted rejection"}
	default:
		c.Result = flavoured(t, "result", harness.Decision{Kind: "plain", Msg: "scripted failure"})
	}
	stream, moff := c02Stream(c)
	c.Cuts = genCuts(t, len(stream), interestingPositions(stream, ".\r\n"), "cuts")
	if moff > 2 && rapid.IntRange(0, 999).Draw(t, "stall")%100 == 7 {
		c.StallAt = rapid.IntRange(1, moff-1).Draw(t, "stall_at")
		c.Limit = 0
	}
	return c
}

func c02Run(c c02Case) Verdict {
	stream, markerOff := c02Stream(c)
	want, resume, ok := ref.Unstuff(stream)
	if !ok || resume != markerOff {
		return Verdict{Inconclusive: fmt.Sprintf("generator produced an early end marker (resume %d, markers at %d)", resume, markerOff)}
	}
	lmtp := c.Mode != 0
	cfg := harness.Config{LMTP: lmtp, MaxMessageBytes: c.Limit}
	stall := c.StallAt > 0 && c.StallAt < markerOff
	if stall {
		cfg.ReadTimeoutMs = 100
	} else if c.TLS {
		cfg.TLS = "implicit"
	}
	overlong := false
	if c.LineLimit >= 32 {
		cfg.MaxLineLength = c.LineLimit
		overlong = maxStretch(stream[:markerOff]) > c.LineLimit
	}
	script := harness.Script{LMTPSession: c.Mode == 2,
		Data: []harness.DataPlan{{Read: harness.ReadPlan{Sizes: c.Reads, Limit: c.ReadLim}, Result: c.Result, Honest: true}}}
	r := harness.NewRig(cfg, script)
	w, derr := r.Dial()
	if derr != nil {
		w.Finish()
		return Verdict{Inconclusive: "dial: " + derr.Error()}
	}
	early, e := openData(w, lmtp, c.NRcpt)
	if e != "" {
		w.Finish()
		return Verdict{Inconclusive: e}
	}
	if stall {
		w.Send(stream[:c.StallAt])
		// wait until the idle timeout has fired and the server has dealt with
		// it: it wrote something (the failed transaction's reply, a 421) or
		// closed the connection
		before := w.S.Consumed()
		_ = before
		mark := len(w.Recv())
		_ = mark
		r.Hub.WaitUntil(func() bool { return w.S.ClosedLocked() || w.S.WrittenLocked() > int64(len(w.Out)) }, harness.Watchdog)
		w.WaitQuiet()
		w.Send(stream[c.StallAt:])
	} else {
		w.SendCuts(stream, c.Cuts)
	}
	rest, fin := w.Finish()
	rest = append(early, rest...)
	if !fin {
		return finishFail(w)
	}
	v := Verdict{}
	hasBait := false
	for _, b := range c02Baits {
		if bytes.Contains(c.Body, []byte(b)) {
			hasBait = true
		}
	}
	look := hasLookalike(c.Body)
	overLimit := c.Limit > 0 && int64(len(want)) > c.Limit
	atLimit := c.Limit > 0 && int64(len(want)) == c.Limit
	partial := c.ReadLim >= 0 // a bounded read never observes the reader's end
	v.NonTrivial = (hasBait || look) && (partial || !c.Result.OK() || overLimit || lmtp)
	if hasBait {
		v.Classes = append(v.Classes, "bait")
	}
	if look {
		v.Classes = append(v.Classes, "lookalike")
	}
	if partial {
		v.Classes = append(v.Classes, "partial_read")
	}
	if overLimit {
		v.Classes = append(v.Classes, "over_limit")
	}
	if atLimit {
		v.Classes = append(v.Classes, "at_limit")
	}
	if lmtp {
		v.Classes = append(v.Classes, "lmtp")
	}
	if !c.Result.OK() {
		v.Classes = append(v.Classes, "rejected")
	}

	evs := r.B.Events()
	if p := r.Log.Panicked(); p != "" {
		return failf("panic", "server logged a panic: %s", p)
	}
	if stall {
		v.Classes = append(v.Classes, "stalled_past_read_timeout")
		v.NonTrivial = hasBait
	} else if c.TLS {
		v.Classes = append(v.Classes, "under_tls")
	}
	// (i) no bait ever reaches a callback
	for _, e := range evs {
		if strings.Contains(e.From, "bait") || strings.Contains(e.To, "bait") || strings.Contains(e.Hostname, "bait") {
			return failf("bait-executed", "message content was executed as a command: %s (stream %s)", e, q(stream))
		}
	}
	if c.LineLimit >= 32 {
		v.Classes = append(v.Classes, "small_line_limit")
	}
	if overlong {
		v.Classes = append(v.Classes, "overlong_line_in_message")
		v.NonTrivial = hasBait
	}
	if stall || overlong {
		// after a timeout or an over-long line in the middle of the message
		// only (i) is demanded: the markers behind the end marker may or may
		// not be reached
		for _, e := range evs {
			if e.CB == "Mail" && e.Begin && e.From != "s@x" && e.From != "marker0@x" {
				return failf("bait-executed", "after a read timeout or over-long line inside the message, a later part of it was executed: %s", e)
			}
		}
		if _, err := harness.ParseRepliesLenient(rest); err != nil {
			return failf("reply-syntax", "replies do not parse: %v", err)
		}
		return v
	}
	des := dataEvents(evs)
	if len(des) != 1 {
		return failf("data-calls", "expected exactly one Data call, got %d; trace: %s", len(des), traceString(evs))
	}
	// (ii) the first Mail after Data is marker0, exactly once
	mails := 0
	for _, e := range evs {
		if e.CB == "Mail" && e.Begin && e.Seq > des[0].Seq {
			mails++
			if e.From != "marker0@x" {
				return failf("wrong-next-command", "first MAIL after the message is %q, want marker0@x", e.From)
			}
		}
	}
	if mails != 1 {
		return failf("marker-count", "marker MAIL executed %d times, want once; replies %s; trace: %s", mails, q(rest), traceString(evs))
	}
	// (iii) the reply stream after the 354
	rs, err := harness.ParseReplies(rest)
	if err != nil {
		return failf("reply-syntax", "replies after the message do not parse: %v (%s)", err, q(rest))
	}
	nfinal := 1
	if lmtp {
		nfinal = c.NRcpt
	}
	if len(rs) != nfinal+len(c.Markers) {
		return failf("reply-count", "expected %d final + %d marker replies, got %v (stream %s)", nfinal, len(c.Markers), codes(rs), q(stream))
	}
	for i, m := range c.Markers {
		wantCode := 250
		if strings.HasPrefix(m, "QUIT") {
			wantCode = 221
		}
		if got := rs[nfinal+i].Code; got != wantCode {
			return failf("marker-reply", "marker %q answered %d, want %d; replies %v", m, got, wantCode, codes(rs))
		}
	}
	// final reply code is judged only in the honest, complete, within-limit case
	rec := des[0].Data
	if !partial && !overLimit && !atLimit {
		wantCode := 250
		switch c.Result.Kind {
		case "smtp":
			wantCode = c.Result.Code
		case "plain":
			wantCode = 554
		}
		for i := 0; i < nfinal; i++ {
			if rs[i].Code != wantCode {
				return failf("final-code", "final reply %d is %d, want %d", i, rs[i].Code, wantCode)
			}
		}
		// (iv) ties to C01
		if !bytes.Equal(rec.Bytes, want) || !rec.EOF {
			return failf("octets-differ", "backend read %s (err %q), reference says %s", q(rec.Bytes), rec.ErrStr, q(want))
		}
	}
	if partial && !bytes.Equal(rec.Bytes, want[:len(rec.Bytes)]) && !overLimit {
		return failf("octets-differ", "backend read %s, not a prefix of the reference %s", q(rec.Bytes), q(want))
	}
	return v
}

var c02Sub *subCheck[c02Case]

func init() {
	registrars = append(registrars, func() { c02Sub = newSub("C02", "rapid", c02Run) })
}

func TestC02(t *testing.T) {
	registerAll()
	st.Rule = "cases = (message with bait command lines and end-marker look-alikes, marker commands pipelined after the true end marker, segmentation, backend read limit/verdict, size limit, SMTP/LMTP mode, recipients, optional stall past the read timeout, optional small line limit with or without an over-long message line); non-trivial = message contains a bait or look-alike AND (partial/no read OR rejection OR over the size limit OR LMTP); distinct = hash of the whole case"
	if !regress(t, "C02") {
		return
	}
	c02Sub.rapidCheck(t, pickTier(6000, 80000), c02Gen)
}
