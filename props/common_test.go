package props

import (
	"bytes"
	"fmt"
	"strings"

	"pgregory.net/rapid"

	"verif/harness"
)

// greetWord returns the greeting verb of the server's flavour.
func greetWord(lmtp bool) string {
	if lmtp {
		return "LHLO"
	}
	return "EHLO"
}

// dataEvents returns the end events of Data / LMTPData calls.
func dataEvents(evs []harness.Event) []harness.Event {
	var out []harness.Event
	for _, e := range evs {
		if (e.CB == "Data" || e.CB == "LMTPData") && !e.Begin {
			out = append(out, e)
		}
	}
	return out
}

func dataBegins(evs []harness.Event) []harness.Event {
	var out []harness.Event
	for _, e := range evs {
		if (e.CB == "Data" || e.CB == "LMTPData") && e.Begin {
			out = append(out, e)
		}
	}
	return out
}

func eventsOf(evs []harness.Event, cb string, begin bool) []harness.Event {
	var out []harness.Event
	for _, e := range evs {
		if e.CB == cb && e.Begin == begin {
			out = append(out, e)
		}
	}
	return out
}

func traceString(evs []harness.Event) string {
	var sb strings.Builder
	for _, e := range evs {
		sb.WriteString(e.String())
		sb.WriteString("; ")
	}
	return sb.String()
}

func codes(rs []harness.Reply) []int {
	out := make([]int, len(rs))
	for i, r := range rs {
		out[i] = r.Code
	}
	return out
}

func q(b []byte) string {
	if len(b) > 300 {
		return fmt.Sprintf("%q...(%d octets)", b[:300], len(b))
	}
	return fmt.Sprintf("%q", b)
}

// openData greets, opens a transaction with n recipients (r0@x ..) and sends
// DATA, all lock-step; it returns an error text if the 354 did not arrive. A
// backend that answers without reading the message lets the LMTP code path
// write final replies right after the 354; those octets are returned as early
// and belong in front of whatever is received later.
func openData(w *harness.Wire, lmtp bool, nrcpt int, mailParams ...string) (early []byte, errText string) {
	var sb strings.Builder
	fmt.Fprintf(&sb, "%s cli\r\nMAIL FROM:<s@x>%s\r\n", greetWord(lmtp), strings.Join(append([]string{""}, mailParams...), " "))
	for i := 0; i < nrcpt; i++ {
		fmt.Fprintf(&sb, "RCPT TO:<r%d@x>\r\n", i)
	}
	sb.WriteString("DATA\r\n")
	if st := w.WaitQuiet(); st != harness.QIdle {
		return nil, "server not idle after connect: " + st
	}
	w.Recv()
	out, st := w.Exchange([]byte(sb.String()))
	if st != harness.QIdle {
		return nil, "server not idle after DATA: " + st
	}
	rs, err := harness.ParseReplies(out)
	if err != nil {
		return nil, "preamble replies: " + err.Error()
	}
	if len(rs) < 3+nrcpt || rs[2+nrcpt].Code != 354 {
		return nil, fmt.Sprintf("preamble: expected %d replies ending in 354, got %v", 3+nrcpt, codes(rs))
	}
	for _, r := range rs[3+nrcpt:] {
		early = append(early, r.Raw...)
	}
	return early, ""
}

// ---- generators ----

// genCuts draws a segmentation of a stream of n octets, given the positions of
// "interesting" octets: none / every octet / random / around interesting ones.
func genCuts(t *rapid.T, n int, interesting []int, label string) []int {
	if n <= 1 {
		return nil
	}
	switch rapid.IntRange(0, 3).Draw(t, label+"_mode") {
	case 0:
		return nil
	case 1:
		if n > 600 {
			// every octet its own segment gets slow for long streams; cut a window
			start := rapid.IntRange(0, n-600).Draw(t, label+"_win")
			cuts := make([]int, 0, 600)
			for i := start + 1; i < start+600; i++ {
				cuts = append(cuts, i)
			}
			return cuts
		}
		cuts := make([]int, 0, n)
		for i := 1; i < n; i++ {
			cuts = append(cuts, i)
		}
		return cuts
	case 2:
		k := rapid.IntRange(1, 8).Draw(t, label+"_k")
		set := map[int]bool{}
		for i := 0; i < k; i++ {
			set[rapid.IntRange(1, n-1).Draw(t, label+"_c")] = true
		}
		return sortedKeys(set)
	default:
		set := map[int]bool{}
		for _, p := range interesting {
			if p > 0 && p < n && rapid.Bool().Draw(t, label+"_b") {
				set[p] = true
			}
			if p+1 < n && rapid.Bool().Draw(t, label+"_a") {
				set[p+1] = true
			}
		}
		return sortedKeys(set)
	}
}

func sortedKeys(set map[int]bool) []int {
	out := make([]int, 0, len(set))
	for k := range set {
		out = append(out, k)
	}
	// insertion sort: sets are small and this avoids depending on map order
	for i := 1; i < len(out); i++ {
		for j := i; j > 0 && out[j] < out[j-1]; j-- {
			out[j], out[j-1] = out[j-1], out[j]
		}
	}
	return out
}

func interestingPositions(s []byte, set string) []int {
	var out []int
	for i, c := range s {
		if strings.IndexByte(set, c) >= 0 {
			out = append(out, i)
		}
	}
	return out
}

// genReadSizes draws the backend's read-buffer size sequence.
func genReadSizes(t *rapid.T, label string) []int {
	switch rapid.IntRange(0, 7).Draw(t, label+"_mode") {
	case 0:
		return []int{1}
	case 1:
		return []int{2}
	case 2:
		return []int{3}
	case 3:
		return []int{5}
	case 4:
		return []int{64}
	case 5:
		return []int{4096}
	default:
		return rapid.SliceOfN(rapid.IntRange(1, 40), 1, 6).Draw(t, label+"_seq")
	}
}

var hostileFragments = [][]byte{
	[]byte("\r\n."), []byte(".\r"), []byte("\r\r\n"), []byte("\n.\n"), []byte(".."), {0}, {0xff},
	[]byte("\r\n.\r\n"), []byte("\n.\r\n"), []byte("\r\n.\n"), []byte("\r.\r"), []byte("\r\n..\r\n"),
	[]byte("\r\n"), []byte("."), []byte("\r"), []byte("\n"), []byte(".\r\n"), []byte("\r\n.\r"), []byte("\r\n. \r\n"),
}

// genBody draws a message-ish octet string: a weighted mix of arbitrary
// octets, the four byte classes and hostile fragments.
func genBody(t *rapid.T, maxParts int, label string) []byte {
	n := rapid.IntRange(0, maxParts).Draw(t, label+"_parts")
	var out []byte
	for i := 0; i < n; i++ {
		switch rapid.IntRange(0, 9).Draw(t, label+"_kind") {
		case 0, 1, 2:
			out = append(out, rapid.SampledFrom(hostileFragments).Draw(t, label+"_frag")...)
		case 3, 4:
			out = append(out, rapid.SampledFrom([]byte{'.', '\r', '\n', 'x'}).Draw(t, label+"_cls"))
		case 5:
			out = append(out, rapid.Byte().Draw(t, label+"_any"))
		case 6:
			out = append(out, rapid.SliceOfN(rapid.Byte(), 1, 12).Draw(t, label+"_run")...)
		default:
			out = append(out, []byte(rapid.StringMatching(`[a-z ]{1,10}`).Draw(t, label+"_txt"))...)
		}
	}
	return out
}

func hasLookalike(b []byte) bool {
	for _, f := range [][]byte{[]byte("\n.\n"), []byte("\n.\r\n"), []byte("\r\n.\n"), []byte("\r.\r"), []byte("\r\n.\r"), []byte("\r\r\n")} {
		if bytes.Contains(b, f) {
			return true
		}
	}
	return false
}

func hasBareCRLF(b []byte) (bareCR, bareLF bool) {
	for i, c := range b {
		if c == '\r' && (i+1 >= len(b) || b[i+1] != '\n') {
			bareCR = true
		}
		if c == '\n' && (i == 0 || b[i-1] != '\r') {
			bareLF = true
		}
	}
	return
}

func hasLineStartDot(b []byte) bool {
	return bytes.HasPrefix(b, []byte(".")) || bytes.Contains(b, []byte("\r\n."))
}

// ---- conversation builder ----

// expect describes one expected reply: an exact code (Code != 0) or a class.
type expect struct {
	Code  int
	Class int
	What  string
}

func (e expect) ok(r harness.Reply) bool {
	if e.Code != 0 {
		return r.Code == e.Code
	}
	return r.Class() == e.Class
}

func (e expect) String() string {
	if e.Code != 0 {
		return fmt.Sprintf("%d(%s)", e.Code, e.What)
	}
	return fmt.Sprintf("%dxx(%s)", e.Class, e.What)
}

// conv accumulates a client octet stream together with the replies it must
// produce, in order.
type conv struct {
	buf []byte
	exp []expect
}

func (c *conv) cmd(line string, exp ...expect) {
	c.buf = append(c.buf, line...)
	c.buf = append(c.buf, '\r', '\n')
	c.exp = append(c.exp, exp...)
}

func (c *conv) raw(b []byte, exp ...expect) {
	c.buf = append(c.buf, b...)
	c.exp = append(c.exp, exp...)
}

// matchReplies compares parsed replies with the expectation list.
func matchReplies(rs []harness.Reply, exp []expect) string {
	for i := 0; i < len(rs) && i < len(exp); i++ {
		if !exp[i].ok(rs[i]) {
			return fmt.Sprintf("reply %d is %s, expected %s; got %v, expected %v", i, rs[i], exp[i], codes(rs), exp)
		}
	}
	if len(rs) != len(exp) {
		return fmt.Sprintf("got %d replies %v, expected %d: %v", len(rs), codes(rs), len(exp), exp)
	}
	return ""
}

// preamble sends the greeting (and optionally an envelope) lock-step and
// checks the replies. rcptOK lists, per RCPT, whether the script accepts it.
func preamble(w *harness.Wire, lmtp bool, mail bool, rcpts int) string {
	if st := w.WaitQuiet(); st != harness.QIdle {
		return "server not idle after connect: " + st
	}
	w.Recv()
	var sb strings.Builder
	fmt.Fprintf(&sb, "%s cli\r\n", greetWord(lmtp))
	n := 1
	if mail {
		sb.WriteString("MAIL FROM:<s@x>\r\n")
		n++
		for i := 0; i < rcpts; i++ {
			fmt.Fprintf(&sb, "RCPT TO:<r%d@x>\r\n", i)
			n++
		}
	}
	out, st := w.Exchange([]byte(sb.String()))
	if st != harness.QIdle {
		return "server not idle after preamble: " + st
	}
	rs, err := harness.ParseReplies(out)
	if err != nil {
		return "preamble replies: " + err.Error()
	}
	if len(rs) != n {
		return fmt.Sprintf("preamble: expected %d replies, got %v", n, codes(rs))
	}
	return ""
}

// finishFail turns a failed Finish into a verdict: a state-based deadlock of
// the server is a violation (whatever the property expects next can never
// happen); an expired watchdog is inconclusive.
func finishFail(w *harness.Wire) Verdict {
	if w != nil && w.Deadlock != "" {
		d := w.Deadlock
		if len(d) > 2500 {
			d = d[:2500]
		}
		return failf("deadlock", "the server is deadlocked: every goroutine serving the connection is parked on a channel or lock, none waits for input:\n%s", d)
	}
	return Verdict{Inconclusive: "watchdog while finishing"}
}

func trimTo(s string, n int) string {
	if len(s) > n {
		return s[:n] + "..."
	}
	return s
}

// flavoured gives a plain-error decision one of the shapes a Go error can have
// (harness.PlainFlavours): none of them is an *SMTPError, so every property
// that speaks of "any other error" covers them alike. For the flavours that
// stand for a fixed error value the text is that value's.
func flavoured(t *rapid.T, label string, d harness.Decision) harness.Decision {
	if d.Kind != "plain" {
		return d
	}
	d.Flavour = rapid.SampledFrom(harness.PlainFlavours).Draw(t, label+"_flavour")
	if txt := harness.FlavourText(d.Flavour); txt != "" {
		d.Msg = txt
	}
	return d
}
