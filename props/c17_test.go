package props

import (
	"fmt"
	"io"
	"strings"
	"testing"
	"time"

	"github.com/emersion/go-smtp"
	"pgregory.net/rapid"

	"verif/harness"
)

// C17 - backend errors reach the peer and the client with code, class and
// text intact.

type c17Case struct {
	Source string           `json:"source"` // NewSession Mail Rcpt Data
	D      harness.Decision `json:"d"`
	Via    string           `json:"via"` // "wire" or "client"
	BDAT   bool             `json:"bdat,omitempty"`
	// Limit: the server has a MaxMessageBytes that the message fits "exact"ly
	// or with room ("above"); it has no bearing on the backend's error.
	Limit string `json:"limit,omitempty"`
	// Prior: an earlier transaction on the same connection with an outcome of
	// its own: "bdat-failed-chunk" (the delivery fails while a non-LAST chunk
	// is being handed over), "bdat-rset", "bdat-ok", "data-refused". The
	// client API has no BDAT, so through the client only the last one is used.
	Prior string `json:"prior,omitempty"`
	// Helo: the wire conversation greets with HELO instead of EHLO
	Helo bool `json:"helo,omitempty"`
	// SendMail: the client conversation uses Client.SendMail (one call for
	// envelope and message) instead of Mail, Rcpt, Data
	SendMail bool `json:"sendmail,omitempty"`
	// LMTP: server and client speak LMTP (envelope callbacks only: the final
	// replies of an LMTP transfer carry a recipient prefix, C13's subject)
	LMTP bool `json:"lmtp,omitempty"`
	// Frag > 0: the server's replies reach the client in segments of at most
	// Frag octets (a network may deliver a reply octet by octet)
	Frag int `json:"frag,omitempty"`
}

const c17Msg = "hello\r\n" // the judged message (DATA: before the end marker)

func c17Cfg(c c17Case) harness.Config {
	cfg := harness.Config{LMTP: c.LMTP && c.Source != "Data", FragmentReplies: c.Frag}
	switch c.Limit {
	case "exact":
		cfg.MaxMessageBytes = int64(len(c17Msg))
	case "above":
		cfg.MaxMessageBytes = int64(len(c17Msg)) + 10
	}
	return cfg
}

// c17Prior returns the wire form of the earlier transaction and the number of
// replies it produces.
func c17Prior(c c17Case) ([]byte, int) {
	if c.Prior == "" || c.Source == "NewSession" {
		return nil, 0
	}
	var cv conv
	cv.cmd("MAIL FROM:<p@x>")
	cv.cmd("RCPT TO:<q@x>")
	switch c.Prior {
	case "bdat-failed-chunk":
		cv.cmd("BDAT 2")
		cv.raw([]byte("ab"))
		return cv.buf, 3
	case "bdat-rset":
		cv.cmd("BDAT 2")
		cv.raw([]byte("ab"))
		cv.cmd("RSET")
		return cv.buf, 4
	case "bdat-ok":
		cv.cmd("BDAT 2 LAST")
		cv.raw([]byte("ab"))
		return cv.buf, 3
	default: // data-refused
		cv.cmd("DATA")
		cv.raw([]byte("x\r\n.\r\n"))
		return cv.buf, 4
	}
}

func c17Lines(msg string) []string { return strings.Split(msg, "\n") }

// c17Renderings returns the acceptable wire texts (one string per reply line)
// for an SMTPError: RFC 2034 puts the enhanced code on every line; a first-
// line-only rendering is also accepted (the client round-trip decides).
func c17Renderings(d harness.Decision) [][]string {
	lines := c17Lines(d.Msg)
	enh := ""
	switch {
	case d.Enh == [3]int{-1, -1, -1}:
		return [][]string{lines}
	case d.Enh == [3]int{0, 0, 0}:
		enh = fmt.Sprintf("%d.0.0", d.Code/100)
	default:
		enh = fmt.Sprintf("%d.%d.%d", d.Enh[0], d.Enh[1], d.Enh[2])
	}
	all := make([]string, len(lines))
	first := make([]string, len(lines))
	for i, l := range lines {
		all[i] = enh + " " + l
		first[i] = l
	}
	first[0] = enh + " " + lines[0]
	return [][]string{all, first}
}

func c17Script(c c17Case) harness.Script {
	s := harness.Script{}
	switch c.Source {
	case "NewSession":
		s.NewSession = []harness.Decision{c.D, c.D, c.D}
	case "Mail":
		s.Mail = []harness.Decision{c.D}
	case "Rcpt":
		s.Rcpt = []harness.Decision{c.D}
	case "Data":
		s.Data = []harness.DataPlan{{Read: harness.ReadPlan{Limit: -1}, Result: c.D}}
	}
	if _, n := c17Prior(c); n > 0 {
		s.Mail = append([]harness.Decision{{}}, s.Mail...)
		s.Rcpt = append([]harness.Decision{{}}, s.Rcpt...)
		prior := harness.DataPlan{Read: harness.ReadPlan{Limit: -1}}
		switch c.Prior {
		case "bdat-failed-chunk":
			prior.Read.Limit = 0
			prior.Result = harness.Decision{Kind: "smtp", Code: 452, Enh: [3]int{4, 3, 1}, Msg: "the earlier transfer failed"}
		case "data-refused":
			prior.Result = harness.Decision{Kind: "smtp", Code: 550, Enh: [3]int{5, 7, 1}, Msg: "the earlier message was refused"}
		}
		s.Data = append([]harness.DataPlan{prior}, s.Data...)
	}
	return s
}

func enhLooking(s string) bool {
	// the first word of the first line (on the wire nothing tells a code the
	// server added from text that happens to look like one)
	w := s
	if i := strings.IndexAny(s, " \n"); i >= 0 {
		w = s[:i]
	}
	parts := strings.Split(w, ".")
	if len(parts) != 3 {
		return false
	}
	for _, p := range parts {
		if p == "" {
			return false
		}
		for _, ch := range p {
			if ch < '0' || ch > '9' {
				return false
			}
		}
	}
	return true
}

func c17Classify(c c17Case) Verdict {
	v := Verdict{}
	multi := strings.Contains(c.D.Msg, "\n")
	custom := c.D.Kind == "smtp" && c.D.Enh != [3]int{0, 0, 0} && c.D.Enh != [3]int{-1, -1, -1}
	v.NonTrivial = multi || custom
	if multi {
		v.Classes = append(v.Classes, "multi_line")
	}
	if custom {
		v.Classes = append(v.Classes, "enhanced_code_set")
	}
	if c.Limit != "" {
		v.Classes = append(v.Classes, "size_limit_"+c.Limit)
	}
	if c.Prior != "" && c.Source != "NewSession" {
		v.Classes = append(v.Classes, "after_"+c.Prior)
	}
	if c.Helo && c.Via == "wire" {
		v.Classes = append(v.Classes, "greeted_with_helo")
	}
	if c.LMTP && c.Source != "Data" {
		v.Classes = append(v.Classes, "lmtp")
	}
	if c.SendMail && c.Via == "client" && c.Source != "NewSession" {
		v.Classes = append(v.Classes, "through_client_sendmail")
	}
	v.Classes = append(v.Classes, "source_"+c.Source, "via_"+c.Via, "kind_"+c.D.Kind)
	return v
}

func c17RunWire(c c17Case) Verdict {
	v := c17Classify(c)
	r := harness.NewRig(c17Cfg(c), c17Script(c))
	w, _ := r.Dial()
	if st := w.WaitQuiet(); st != harness.QIdle {
		w.Finish()
		return Verdict{Inconclusive: "server not idle after connect: " + st}
	}
	w.Recv()
	var cv conv
	if c.LMTP && c.Source != "Data" {
		cv.cmd("LHLO cli")
	} else if c.Helo {
		cv.cmd("HELO cli")
	} else {
		cv.cmd("EHLO cli")
	}
	priorWire, nPrior := c17Prior(c)
	cv.raw(priorWire)
	idx := 1 // banner, EHLO, MAIL, RCPT, (354,) final
	if c.Source != "NewSession" {
		cv.cmd("MAIL FROM:<s@x>")
		idx = 2
		if c.Source != "Mail" {
			cv.cmd("RCPT TO:<r@x>")
			idx = 3
			if c.Source == "Data" {
				if c.BDAT {
					cv.cmd(fmt.Sprintf("BDAT %d LAST", len(c17Msg)))
					cv.raw([]byte(c17Msg))
					idx = 4
				} else {
					cv.cmd("DATA")
					cv.raw([]byte(c17Msg + ".\r\n"))
					idx = 5
				}
			}
		}
	}
	idx += nPrior
	w.Send(cv.buf)
	_, fin := w.Finish()
	if !fin {
		return finishFail(w)
	}
	rs, err := harness.ParseReplies(w.Out)
	if err != nil {
		return failf("reply-syntax", "error %+v from %s: replies do not parse: %v (%s)", c.D, c.Source, err, q(w.Out))
	}
	if len(rs) <= idx+0 {
		return failf("replies", "expected at least %d replies, got %v", idx+1, codes(rs))
	}
	rp := rs[idx]
	switch c.D.Kind {
	case "smtp":
		if rp.Code != c.D.Code {
			return failf("code", "SMTPError %+v from %s sent with code %d", c.D, c.Source, rp.Code)
		}
		ok := false
		for _, want := range c17Renderings(c.D) {
			if strings.Join(want, "\n") == strings.Join(rp.Lines, "\n") {
				ok = true
			}
		}
		if !ok {
			return failf("wire-text", "SMTPError %+v from %s sent as %q; acceptable renderings: %q", c.D, c.Source, rp.Lines, c17Renderings(c.D))
		}
	case "plain":
		wantCode, cls := 451, 4
		if c.Source == "Data" {
			wantCode, cls = 554, 5
		}
		if rp.Code != wantCode {
			return failf("generic-code", "plain error from %s sent with code %d, want %d", c.Source, rp.Code, wantCode)
		}
		ec, _, ok := rp.EnhancedCode()
		if !ok || ec != [3]int{cls, 0, 0} {
			return failf("generic-enh", "plain error from %s: enhanced code %v, want %d.0.0 (%s)", c.Source, ec, cls, rp)
		}
		if !strings.Contains(strings.Join(rp.Lines, "\n"), c.D.Msg) && !strings.Contains(c.D.Msg, "\n") {
			return failf("generic-text", "plain error %q from %s not contained in the reply %q", c.D.Msg, c.Source, rp.Lines)
		}
	}
	return v
}

// withClient runs fn with a go-smtp client connected to the rig over memnet.
// It returns false if fn did not return: either both ends ended up blocked
// reading with nothing in flight (state-based: nobody will ever write again,
// reported through lastClientStuck) or the watchdog expired.
var lastClientStuck bool

// lastClientStall: the run ended in a flow-control stall on an unbuffered
// transport (harness.Wire.FlowStallNow): unspecified, see there.
var lastClientStall bool

func withClient(r *harness.Rig, lmtp bool, fn func(c *smtp.Client, w *harness.Wire)) bool {
	nc, w := r.DialConn()
	var cl *smtp.Client
	if lmtp {
		cl = smtp.NewClientLMTP(nc)
	} else {
		cl = smtp.NewClient(nc)
	}
	done := make(chan struct{})
	go func() {
		defer func() {
			// the waiter evaluates "done" under the hub lock: change it under
			// the lock too, or the wake-up can slip between its check and its wait
			r.Hub.Lock()
			close(done)
			r.Hub.Unlock()
			r.Hub.Broadcast()
		}()
		fn(cl, w)
	}()
	finished, stuck, stall := false, false, false
	for deadline := time.Now().Add(harness.Watchdog); !finished && !stuck && !stall && time.Now().Before(deadline); {
		bothWrite := false
		r.Hub.WaitUntil(func() bool {
			select {
			case <-done:
				finished = true
				return true
			default:
			}
			if w.S.BlockedInReadLocked() && w.C.BlockedInReadLocked() && !r.B.AtGateLocked() && r.B.InflightLocked() == 0 {
				stuck = true
				return true
			}
			// unbuffered transport: each waits for the other to read? (looked
			// at outside the lock, with the goroutine states)
			bothWrite = w.S.BlockedInWriteLocked() && w.C.BlockedInWriteLocked()
			return bothWrite
		}, time.Until(deadline))
		if !finished && !stuck && bothWrite {
			if stall = w.FlowStallNow(); !stall {
				time.Sleep(200 * time.Microsecond)
			}
		}
	}
	lastClientStuck, lastClientStall = stuck, stall
	if !finished {
		w.Abort()
		select {
		case <-done:
		case <-time.After(harness.Watchdog):
		}
	}
	cl.Close()
	w.C.Close()
	r.B.ReleaseAll()
	w.WaitClosed()
	return r.Shutdown() && finished
}

func c17RunClient(c c17Case) Verdict {
	v := c17Classify(c)
	if c.Prior != "" {
		c.Prior = "data-refused"
	}
	r := harness.NewRig(c17Cfg(c), c17Script(c))
	var got error
	reached := false
	lmtp := c.LMTP && c.Source != "Data"
	ok := withClient(r, lmtp, func(cl *smtp.Client, w *harness.Wire) {
		if err := cl.Hello("cli"); err != nil {
			if c.Source == "NewSession" {
				got, reached = err, true
			}
			return
		}
		if c.Source == "NewSession" {
			reached = true
			return
		}
		if c.Prior != "" {
			if cl.Mail("p@x", nil) != nil || cl.Rcpt("q@x", nil) != nil {
				return
			}
			var pw io.WriteCloser
			var err error
			if lmtp {
				pw, err = cl.LMTPData(func(string, *smtp.SMTPError) {})
			} else {
				pw, err = cl.Data()
			}
			if err != nil {
				return
			}
			pw.Write([]byte("x\r\n"))
			pw.Close()
		}
		if c.SendMail {
			// whichever callback fails, the one call reports it
			got, reached = cl.SendMail("s@x", []string{"r@x"}, strings.NewReader(c17Msg)), true
			return
		}
		if err := cl.Mail("s@x", nil); err != nil {
			if c.Source == "Mail" {
				got, reached = err, true
			}
			return
		}
		if c.Source == "Mail" {
			reached = true
			return
		}
		if err := cl.Rcpt("r@x", nil); err != nil {
			if c.Source == "Rcpt" {
				got, reached = err, true
			}
			return
		}
		if c.Source == "Rcpt" {
			reached = true
			return
		}
		wc, err := cl.Data()
		if err != nil {
			return
		}
		wc.Write([]byte(c17Msg))
		got, reached = wc.Close(), true
	})
	if !ok {
		return Verdict{Inconclusive: "watchdog in client run"}
	}
	if !reached {
		return Verdict{Inconclusive: "client did not reach the scripted callback"}
	}
	if got == nil {
		return failf("client-nil", "backend error %+v from %s but the client call returned nil", c.D, c.Source)
	}
	se, isSMTP := got.(*smtp.SMTPError)
	if !isSMTP {
		return failf("client-type", "client returned %T (%v), want *SMTPError", got, got)
	}
	switch c.D.Kind {
	case "smtp":
		if c.D.Enh == [3]int{-1, -1, -1} && enhLooking(c.D.Msg) {
			v.Classes = append(v.Classes, "unspecified_noenh_codelike_text")
			return v
		}
		wantEnh := []smtp.EnhancedCode{smtp.EnhancedCode(c.D.Enh)}
		switch c.D.Enh {
		case [3]int{0, 0, 0}:
			wantEnh = []smtp.EnhancedCode{{c.D.Code / 100, 0, 0}}
		case [3]int{-1, -1, -1}:
			wantEnh = []smtp.EnhancedCode{smtp.EnhancedCodeNotSet, smtp.NoEnhancedCode}
		}
		okEnh := false
		for _, e := range wantEnh {
			if se.EnhancedCode == e {
				okEnh = true
			}
		}
		if se.Code != c.D.Code || !okEnh || se.Message != c.D.Msg {
			return failf("client-differs", "backend returned SMTPError{%d %v %q} from %s; the client reports SMTPError{%d %v %q}", c.D.Code, c.D.Enh, c.D.Msg, c.Source, se.Code, se.EnhancedCode, se.Message)
		}
	case "plain":
		wantCode, cls := 451, 4
		if c.Source == "Data" {
			wantCode, cls = 554, 5
		}
		if se.Code != wantCode || se.EnhancedCode != (smtp.EnhancedCode{cls, 0, 0}) || !strings.Contains(se.Message, c.D.Msg) {
			return failf("client-generic", "plain error %q from %s: client reports SMTPError{%d %v %q}", c.D.Msg, c.Source, se.Code, se.EnhancedCode, se.Message)
		}
	}
	return v
}

func c17Run(c c17Case) Verdict {
	if c.Via == "client" {
		return c17RunClient(c)
	}
	return c17RunWire(c)
}

var c17Msgs = []string{
	"", "simple text", " leading space", "trailing space ", "  both  ", "5.1.1 looks like a code", "4.0.0", "x.y.z not a code",
	"héllo wörld €", "line one\nline two", "one\ntwo\nthree", "first\n\nthird", "ends empty\n", "\nstarts empty",
	"5.7.1 code-like\n5.7.1 again", "tab\there", "a", "550 looks like a reply", "-dash", "multi\n5.1.1 second looks coded",
}

// c17GenMsg draws a message text: one of the listed shapes, or a string put
// together from pieces that matter to a reply codec (line breaks, padding,
// code-looking and reply-looking tokens, hyphens, non-ASCII, tabs).
func c17GenMsg(t *rapid.T, label string) string {
	if rapid.Bool().Draw(t, label+"_listed") {
		return rapid.SampledFrom(c17Msgs).Draw(t, label)
	}
	pieces := []string{"a", "word", " ", "  ", "\n", "\n", "5.1.1", "5.1.1 ", "2.0.0 ", "4.", ".", "-", "250", "550 ", "550-", "é", "€", "\t", ":", "<x@y>", "%s", "%", "\\"}
	var sb strings.Builder
	for i, n := 0, rapid.IntRange(1, 7).Draw(t, label+"_n"); i < n; i++ {
		sb.WriteString(rapid.SampledFrom(pieces).Draw(t, label+"_piece"))
	}
	if rapid.IntRange(0, 7).Draw(t, label+"_long") == 0 {
		// a line of several hundred octets (under the client's own line
		// limit): the text is the backend's, however long
		filler := rapid.SampledFrom([]string{"word ", "x", "é", "ab-"}).Draw(t, label+"_filler")
		sb.WriteString(strings.Repeat(filler, rapid.IntRange(300, 1700).Draw(t, label+"_longn")/len(filler)))
		sb.WriteString("end")
	}
	return sb.String()
}

func c17GenDecision(t *rapid.T) harness.Decision {
	if rapid.IntRange(0, 5).Draw(t, "plain") == 0 {
		m := c17GenMsg(t, "pmsg")
		if m == "" {
			m = "x"
		}
		return flavoured(t, "plain", harness.Decision{Kind: "plain", Msg: m})
	}
	code := rapid.SampledFrom([]int{421, 450, 451, 452, 455, 499, 500, 501, 502, 503, 504, 521, 550, 551, 552, 553, 554, 555, 571, 599}).Draw(t, "code")
	if rapid.IntRange(0, 4).Draw(t, "any_code") == 0 {
		code = rapid.IntRange(400, 599).Draw(t, "code_any")
	}
	d := harness.Decision{Kind: "smtp", Code: code, Msg: c17GenMsg(t, "msg")}
	switch rapid.IntRange(0, 4).Draw(t, "enh") {
	case 0:
		d.Enh = [3]int{0, 0, 0}
	case 1:
		d.Enh = [3]int{-1, -1, -1}
	default:
		// RFC 3463: class "." subject "." detail, subject and detail 1*3DIGIT
		d.Enh = [3]int{code / 100, rapid.SampledFrom([]int{0, 1, 7, 9, 10, 99, 100, 999, rapid.IntRange(0, 999).Draw(t, "subj_any")}).Draw(t, "subj"),
			rapid.SampledFrom([]int{0, 1, 7, 10, 99, 100, 255, 999, rapid.IntRange(0, 999).Draw(t, "detail_any")}).Draw(t, "detail")}
	}
	return d
}

var c17Sub *subCheck[c17Case]

func init() {
	registrars = append(registrars, func() { c17Sub = newSub("C17", "rapid", c17Run) })
}

func TestC17(t *testing.T) {
	registerAll()
	st.Rule = "cases = (callback NewSession|Mail|Rcpt|Data(DATA or BDAT), error = SMTPError with 4xx/5xx code, enhanced code set/unset/explicitly absent, message from a list of shapes (empty, padded, code-looking, non-ASCII, 1-3 lines, empty lines) or a plain error, observed on the wire or through the go-smtp client, optionally under a size limit the message fits exactly or loosely, optionally after an earlier transaction with another outcome on the same connection); non-trivial = multi-line message or an explicitly set enhanced code; distinct = hash of the whole case"
	if !regress(t, "C17") {
		return
	}
	c17Sub.rapidCheck(t, pickTier(10000, 100000), func(rt *rapid.T) c17Case {
		return c17Case{Source: rapid.SampledFrom([]string{"NewSession", "Mail", "Rcpt", "Data"}).Draw(rt, "source"), D: c17GenDecision(rt),
			Via: rapid.SampledFrom([]string{"wire", "client"}).Draw(rt, "via"), BDAT: rapid.Bool().Draw(rt, "bdat"),
			Limit: rapid.SampledFrom([]string{"", "", "exact", "above"}).Draw(rt, "limit"),
			Prior: rapid.SampledFrom([]string{"", "", "", "bdat-failed-chunk", "bdat-rset", "bdat-ok", "data-refused"}).Draw(rt, "prior"),
			Helo:  rapid.IntRange(0, 3).Draw(rt, "helo") == 0, SendMail: rapid.IntRange(0, 2).Draw(rt, "sendmail") == 0,
			LMTP: rapid.IntRange(0, 3).Draw(rt, "lmtp") == 0, Frag: rapid.SampledFrom([]int{0, 0, 1, 4}).Draw(rt, "frag")}
	})
}
