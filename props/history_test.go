package props

import (
	"encoding/base64"
	"fmt"
	"strings"

	"pgregory.net/rapid"

	"verif/harness"
	"verif/ref"
)

// Command histories shared by C03 (state monitor, lock-step) and C04 (reply
// discipline, pipelining metamorphism).

type hCmd struct {
	Op   string `json:"op"`
	Arg  string `json:"arg,omitempty"`  // address local part / greeting name / "cancel"|"resp"
	Last bool   `json:"last,omitempty"` // BDAT ... LAST
	Body Octets `json:"body,omitempty"` // DATA: wire octets before the end marker; BDAT: payload; garbage: the line
	// Case: spelling of the keywords of the line (commands and parameter
	// keywords are case-insensitive): 0 as written, 1 lower case, 2 mixed
	Case int `json:"case,omitempty"`
}

// respell changes the case of the keywords of a command line, leaving
// addresses, names, sizes and base64 alone.
func respell(line string, mode int) string {
	if mode == 0 {
		return line
	}
	f := func(s string) string {
		if mode == 1 {
			return strings.ToLower(s)
		}
		var sb strings.Builder
		for i, r := range s {
			if i%2 == 0 {
				sb.WriteString(strings.ToLower(string(r)))
			} else {
				sb.WriteString(strings.ToUpper(string(r)))
			}
		}
		return sb.String()
	}
	kw := map[string]bool{"EHLO": true, "LHLO": true, "HELO": true, "MAIL": true, "RCPT": true, "DATA": true, "BDAT": true, "LAST": true, "RSET": true, "NOOP": true,
		"VRFY": true, "HELP": true, "AUTH": true, "PLAIN": true, "STARTTLS": true, "QUIT": true}
	toks := strings.Split(line, " ")
	for i, tk := range toks {
		switch {
		case kw[tk]:
			toks[i] = f(tk)
		case strings.HasPrefix(tk, "FROM:"):
			toks[i] = f("FROM:") + tk[5:]
		case strings.HasPrefix(tk, "TO:"):
			toks[i] = f("TO:") + tk[3:]
		case strings.HasPrefix(tk, "BODY=") || strings.HasPrefix(tk, "SIZE=") || strings.HasPrefix(tk, "RET=") || strings.HasPrefix(tk, "NOTIFY=") ||
			tk == "SMTPUTF8" || tk == "REQUIRETLS":
			toks[i] = f(tk)
		case strings.HasPrefix(tk, "ENVID=") || strings.HasPrefix(tk, "ORCPT=") || strings.HasPrefix(tk, "RRVS=") || strings.HasPrefix(tk, "AUTH="):
			// the keyword only: these values are case-sensitive
			k := strings.IndexByte(tk, '=')
			toks[i] = f(tk[:k]) + tk[k:]
		}
	}
	return strings.Join(toks, " ")
}

type hCase struct {
	Cfg    harness.Config `json:"cfg"`
	Script harness.Script `json:"script"`
	Cmds   []hCmd         `json:"cmds"`
	// C04 only: how the octets of the lock-step run are re-sent
	Discipline string `json:"discipline,omitempty"` // "" lock-step only, "one", "random", "octet", "lines"
	CutSeed    int    `json:"cut_seed,omitempty"`
	// ShutdownAt = k > 0: a graceful Server.Shutdown (no deadline) begins
	// before the k-th command is sent. It stops the server accepting; the
	// connection under test is already open and stays served, so nothing
	// about the conversation changes.
	ShutdownAt int `json:"shutdown_at,omitempty"`
	// Bystander: before the judged conversation begins, another connection to
	// the same server greets, opens a transaction with two recipients and
	// then sits there for the whole history (it is closed at the end).
	// Connections share a server and a backend, nothing else: nothing about
	// the judged conversation changes.
	Bystander bool `json:"bystander,omitempty"`
}

func (c hCmd) String() string {
	s := c.Op
	if c.Arg != "" {
		s += "(" + c.Arg + ")"
	}
	if c.Body != nil {
		s += fmt.Sprintf("[%d]", len(c.Body))
	}
	if c.Last {
		s += "+LAST"
	}
	return s
}

// line returns the command line (without CRLF) and the octets that follow it
// unconditionally (BDAT payload).
func (c hCmd) line(lmtp bool) (string, []byte) {
	right, wrong := "EHLO", "LHLO"
	if lmtp {
		right, wrong = "LHLO", "EHLO"
	}
	switch c.Op {
	case "greet":
		return right + " " + c.Arg, nil
	case "helo":
		return "HELO " + c.Arg, nil
	case "greet-wrong":
		return wrong + " " + c.Arg, nil
	case "greet-noarg":
		return right, nil
	case "mail":
		return "MAIL FROM:<" + c.Arg + "@x>", nil
	case "mail-bad":
		return "MAIL FROM:<" + c.Arg, nil
	case "mail-binary":
		return "MAIL FROM:<" + c.Arg + "@x> BODY=BINARYMIME", nil
	case "mail-size-over":
		return "MAIL FROM:<" + c.Arg + "@x> SIZE=41", nil
	case "rcpt":
		return "RCPT TO:<" + c.Arg + "@x>", nil
	case "rcpt-bad":
		return "RCPT TO:" + c.Arg + " @", nil
	case "data":
		return "DATA", nil
	case "data-arg":
		return "DATA now", nil
	case "bdat":
		l := fmt.Sprintf("BDAT %d", len(c.Body))
		if c.Last {
			l += " LAST"
		}
		return l, c.Body
	case "bdat-badsize":
		return "BDAT x7", nil
	case "bdat-3args":
		return "BDAT 3 LAST now", nil
	case "bdat-badlast":
		return fmt.Sprintf("BDAT %d LAS", len(c.Body)), c.Body
	case "rset":
		return "RSET", nil
	case "noop":
		return "NOOP", nil
	case "vrfy":
		return "VRFY someone", nil
	case "help":
		return "HELP", nil
	case "auth-plain":
		return "AUTH PLAIN " + base64.StdEncoding.EncodeToString([]byte("\x00"+c.Arg+"\x00pw")), nil
	case "auth-noir":
		return "AUTH PLAIN", nil
	case "starttls", "starttls-fail":
		return "STARTTLS", nil
	case "quit":
		return "QUIT", nil
	case "unknown":
		return "XYZW " + c.Arg, nil
	case "empty":
		return "", nil
	case "garbage":
		return string(c.Body), nil
	}
	panic("unknown op " + c.Op)
}

// ---- generator ----

var hOps = []struct {
	op string
	w  int
}{
	{"greet", 6}, {"helo", 1}, {"greet-wrong", 1}, {"greet-noarg", 1},
	{"mail", 10}, {"mail-bad", 1}, {"mail-binary", 1}, {"mail-size-over", 1},
	{"rcpt", 12}, {"rcpt-bad", 1},
	{"data", 6}, {"data-arg", 1},
	{"bdat", 10}, {"bdat-badsize", 1}, {"bdat-3args", 1}, {"bdat-badlast", 1},
	{"rset", 3}, {"noop", 2}, {"vrfy", 1}, {"help", 1},
	{"auth-plain", 2}, {"auth-noir", 1}, {"starttls", 1}, {"starttls-fail", 1}, {"quit", 1}, {"unknown", 2}, {"empty", 1}, {"garbage", 1},
}

func genDecision(t *rapid.T, label string) harness.Decision {
	switch rapid.IntRange(0, 24).Draw(t, label) {
	case 0:
		return harness.Decision{Kind: "smtp", Code: 550, Enh: [3]int{5, 1, 1}, Msg: "scripted 550"}
	case 1:
		return harness.Decision{Kind: "smtp", Code: 451, Enh: [3]int{4, 3, 0}, Msg: "scripted 451"}
	case 2:
		return flavoured(t, label, harness.Decision{Kind: "plain", Msg: "scripted plain error"})
	case 3:
		// several lines, enhanced code left unset (sent as X.0.0 on every line)
		return harness.Decision{Kind: "smtp", Code: 550, Msg: "scripted refusal\nwith a second line\nand a third"}
	case 4:
		return harness.Decision{Kind: "smtp", Code: 452, Enh: [3]int{4, 2, 2}, Msg: "scripted 452\ntwo lines"}
	case 5:
		// text a reply cannot carry as it is: whatever the server makes of it,
		// what it writes must still be well-formed replies (C04)
		pieces := []string{"text", " ", "\r", "\n", "\r\n", "\x00", "\t", "\x7f", "\x1b[31m", "é", "\xff", "250 ", "250-", "-", "\n\n", "5.1.1 ", strings.Repeat("long ", 150)}
		var sb strings.Builder
		for i, n := 0, rapid.IntRange(1, 6).Draw(t, label+"_odd_n"); i < n; i++ {
			sb.WriteString(rapid.SampledFrom(pieces).Draw(t, label+"_odd"))
		}
		code := rapid.SampledFrom([]int{550, 451, 421, 554}).Draw(t, label+"_odd_code")
		if rapid.Bool().Draw(t, label+"_odd_plain") {
			return harness.Decision{Kind: "plain", Msg: sb.String()}
		}
		return harness.Decision{Kind: "smtp", Code: code, Msg: sb.String()}
	}
	return harness.Decision{}
}

func genHistory(t *rapid.T, maxLen int, garbageCtl bool) hCase {
	c := hCase{}
	c.Cfg.LMTP = rapid.Bool().Draw(t, "lmtp")
	c.Cfg.MaxRecipients = rapid.SampledFrom([]int{0, 2}).Draw(t, "maxrcpt")
	c.Cfg.MaxMessageBytes = int64(rapid.SampledFrom([]int{0, 40}).Draw(t, "maxbytes"))
	c.Cfg.BinaryMIME = rapid.Bool().Draw(t, "binarymime")
	if rapid.Bool().Draw(t, "tls") {
		c.Cfg.TLS = "starttls"
		if rapid.IntRange(0, 3).Draw(t, "implicit_tls") == 0 {
			// TLS from the first octet (a TLS listener); STARTTLS is then refused
			c.Cfg.TLS = "implicit"
		}
	}
	c.Cfg.AllowInsecureAuth = rapid.IntRange(0, 3).Draw(t, "insecure") != 0
	if rapid.IntRange(0, 2).Draw(t, "shortlines") == 0 {
		c.Cfg.MaxLineLength = 64 // every command of the alphabet fits; some payloads have longer LF-free runs
	}
	c.Script.LMTPSession = c.Cfg.LMTP && rapid.Bool().Draw(t, "lmtpsession")
	c.Script.AuthSession = rapid.IntRange(0, 3).Draw(t, "authsession") != 0
	c.Script.Mechs = []string{"PLAIN"}
	// the delivery goroutine of a chunked transfer starts only when the
	// command loop has to wait for it (late start, owned by the harness)
	c.Script.GateStart = rapid.Bool().Draw(t, "gate_start")
	c.Script.LogoutErr = rapid.IntRange(0, 3).Draw(t, "logout_err") == 0
	for i := 0; i < 3; i++ {
		// refused session creation makes the rest of a history moot: keep it rare
		d := harness.Decision{}
		if rapid.IntRange(0, 2).Draw(t, "newsession_may_fail") == 0 {
			d = genDecision(t, "d_newsession")
		}
		c.Script.NewSession = append(c.Script.NewSession, d)
	}
	for i := 0; i < 8; i++ {
		c.Script.Mail = append(c.Script.Mail, genDecision(t, "d_mail"))
		c.Script.Rcpt = append(c.Script.Rcpt, genDecision(t, "d_rcpt"))
	}
	for i := 0; i < 6; i++ {
		p := harness.DataPlan{Read: harness.ReadPlan{Limit: -1}, Honest: true}
		switch rapid.IntRange(0, 5).Draw(t, "d_data") {
		case 0:
			p.Result = harness.Decision{Kind: "smtp", Code: 554, Enh: [3]int{5, 6, 0}, Msg: fmt.Sprintf("scripted data rejection %d", i)}
		case 1:
			p.Result = harness.Decision{Kind: "smtp", Code: 452, Enh: [3]int{4, 3, 1}, Msg: fmt.Sprintf("early rejection %d", i)}
			p.Read.Limit = 0
		case 2:
			p.Result = flavoured(t, fmt.Sprintf("dres%d", i), harness.Decision{Kind: "plain", Msg: fmt.Sprintf("plain data failure %d", i)})
		case 3:
			p.Result = harness.Decision{Kind: "smtp", Code: 554, Msg: fmt.Sprintf("data rejection %d\nin two lines, enhanced code unset", i)}
		}
		c.Script.Data = append(c.Script.Data, p)
	}
	for i := 0; i < 4; i++ {
		sc := harness.SASLScript{Challenges: [][]byte{[]byte("chal")}, SkipChallengesWithIR: true}
		if rapid.IntRange(0, 2).Draw(t, "d_sasl") == 0 {
			sc.Final = harness.Decision{Kind: "smtp", Code: 535, Enh: [3]int{5, 7, 8}, Msg: "Authentication failed"}
		}
		c.Script.SASL = append(c.Script.SASL, sc)
	}
	total := 0
	for _, o := range hOps {
		total += o.w
	}
	n := rapid.IntRange(1, maxLen).Draw(t, "len")
	names := []string{"a", "b", "c"}
	// approximate state, used only to bias the walk towards open transactions
	greeted, txn, nr, chunked := false, false, 0, false
	var forced []string
	for i := 0; i < n; i++ {
		op := ""
		if len(forced) > 0 {
			op, forced = forced[0], forced[1:]
		} else if rapid.IntRange(0, 9).Draw(t, "guided") < 6 {
			switch {
			case !greeted:
				op = "greet"
			case !txn:
				op = "mail"
				if c.Cfg.BinaryMIME && rapid.IntRange(0, 4).Draw(t, "binary_mail") == 0 {
					op = "mail-binary"
				}
			case nr == 0 || (nr < 3 && rapid.IntRange(0, 2).Draw(t, "more_rcpt") == 0):
				op = "rcpt"
			case chunked:
				op = "bdat"
			default:
				op = rapid.SampledFrom([]string{"data", "bdat", "bdat"}).Draw(t, "deliver")
			}
		} else {
			x := rapid.IntRange(0, total-1).Draw(t, "op")
			for _, o := range hOps {
				if x < o.w {
					op = o.op
					break
				}
				x -= o.w
			}
		}
		switch op {
		case "greet":
			greeted, txn, nr, chunked = true, false, 0, false
		case "helo":
			if !c.Cfg.LMTP {
				greeted, txn, nr, chunked = true, false, 0, false
			}
		case "mail", "mail-binary":
			txn = greeted
		case "rcpt":
			if txn && !chunked {
				nr++
			}
		case "data", "rset":
			txn, nr, chunked = false, 0, false
		case "bdat":
			chunked = txn && nr > 0
		case "starttls":
			if c.Cfg.TLS != "" {
				greeted, txn, nr, chunked = false, false, 0, false
			}
		case "starttls-fail":
			// whatever survives a failed handshake, a new greeting starts
			// afresh: probe the envelope right behind it half of the time
			if c.Cfg.TLS != "" && rapid.Bool().Draw(t, "probe_after_failed_handshake") {
				forced = []string{"greet", rapid.SampledFrom([]string{"rcpt", "data", "bdat"}).Draw(t, "probe")}
			}
		}
		cmd := hCmd{Op: op}
		switch op {
		case "greet", "helo", "greet-wrong":
			cmd.Arg = "host" + rapid.SampledFrom(names).Draw(t, "name")
			if garbageCtl && rapid.IntRange(0, 5).Draw(t, "odd_name") == 0 {
				// the name is echoed in the reply and handed to the backend
				cmd.Arg = rapid.SampledFrom([]string{"[1.2.3.4]", "[IPv6:::1]", "h\xffst", "höst", "a_b", "-", "x.", "a-b.c-d", "1.2.3.4"}).Draw(t, "odd_host")
			}
		case "mail", "mail-bad", "mail-binary", "mail-size-over":
			cmd.Arg = "s" + rapid.SampledFrom(names).Draw(t, "name")
		case "rcpt", "rcpt-bad":
			cmd.Arg = "r" + rapid.SampledFrom(names).Draw(t, "name")
		case "data":
			cmd.Body = c02Defuse(genHBody(t, true))
		case "bdat", "bdat-badlast":
			cmd.Body = genHBody(t, false)
			cmd.Last = op == "bdat" && rapid.IntRange(0, 2).Draw(t, "last") == 0
			if cmd.Last {
				txn, nr, chunked = false, 0, false
			}
		case "auth-plain":
			cmd.Arg = "u" + rapid.SampledFrom(names).Draw(t, "name")
		case "auth-noir":
			cmd.Arg = rapid.SampledFrom([]string{"cancel", "resp"}).Draw(t, "authstep")
		case "unknown":
			cmd.Arg = rapid.SampledFrom(names).Draw(t, "name")
		case "garbage":
			cmd.Body = genGarbageLine(t, garbageCtl)
		}
		if rapid.IntRange(0, 5).Draw(t, "respell") == 0 {
			cmd.Case = rapid.IntRange(1, 2).Draw(t, "case")
		}
		c.Cmds = append(c.Cmds, cmd)
	}
	if rapid.IntRange(0, 5).Draw(t, "shutdown") == 0 {
		c.ShutdownAt = rapid.IntRange(1, len(c.Cmds)).Draw(t, "shutdown_at")
	}
	c.Bystander = rapid.IntRange(0, 5).Draw(t, "bystander") == 0
	return c
}

func genHBody(t *rapid.T, forData bool) []byte {
	switch rapid.IntRange(0, 5).Draw(t, "bodykind") {
	case 5:
		if forData {
			// the line limit applies to lines of a DATA message by design
			return []byte("short line\r\n")
		}
		return []byte(strings.Repeat("z", 90)) // BDAT payload: LF-free, longer than the short line limit
	case 0:
		return []byte{}
	case 1:
		return []byte("hello\r\n")
	case 2:
		return []byte("QUIT\r\nMAIL FROM:<bait@x>\r\n")
	case 3:
		return []byte(strings.Repeat("0123456789", 5)) // 50 octets: over the small limit
	}
	return []byte(rapid.StringMatching(`[a-z.]{0,12}(\r\n)?`).Draw(t, "body"))
}

// genGarbageLine draws a line that cannot be a recognised command: its first
// octet is not a letter. LF never occurs (it would end the line). With ctl
// false, C0 controls and DEL are excluded (D18: they used to be echoed).
func genGarbageLine(t *rapid.T, ctl bool) []byte {
	n := rapid.IntRange(1, 12).Draw(t, "glen")
	out := make([]byte, 0, n)
	for i := 0; i < n; i++ {
		b := rapid.Byte().Draw(t, "gbyte")
		if b == '\n' {
			b = '?'
		}
		if !ctl && (b < 0x20 || b == 0x7f) {
			st.excluded("garbage_c0_or_del")
			b = '#'
		}
		if i == 0 && ((b >= 'a' && b <= 'z') || (b >= 'A' && b <= 'Z')) {
			b = '1'
		}
		out = append(out, b)
	}
	// a trailing CR run is trimmed by the parser; an all-CR/space line is empty: still a protocol error
	return out
}

// ---- lock-step runner ----

type stepRec struct {
	Cmd     hCmd
	Sent    [][]byte // octet groups in the order sent
	Raw     []byte
	Replies []harness.Reply
	PErr    error
	Events  []harness.Event
	Closed  bool
	TLS     bool // a TLS handshake was performed after this step
	// Barrier: the octet groups of this step cannot share a segment (the
	// second one is what the server's TLS layer reads instead of a handshake)
	Barrier bool
}

type hRun struct {
	pre    []harness.Event // events before the judged conversation (the bystander's)
	steps  []stepRec
	banner []byte
	tail   []harness.Event // events after the last command (Logout at EOF)
	rig    *harness.Rig
	incon  string
	// deadlock: state-based (all server goroutines parked, none waiting for input)
	deadlock string
	out      []byte // complete server output (plaintext)
}

// startBystander opens the bystander connection of c (nil if it has none). It
// is dialled before the judged connection, so that the backend's wire marks
// follow the latter.
func startBystander(c hCase, r *harness.Rig) *harness.Wire {
	if !c.Bystander {
		return nil
	}
	bw, _ := r.Dial()
	if bw.WaitQuiet() != harness.QIdle {
		return bw
	}
	bw.Exchange([]byte(greetWord(c.Cfg.LMTP) + " bystander\r\nMAIL FROM:<bystander@x>\r\nRCPT TO:<by1@x>\r\nRCPT TO:<by2@x>\r\n"))
	return bw
}

// endBystander closes it (before the judged connection's Finish, which joins
// every handler).
func endBystander(bw *harness.Wire) {
	if bw != nil {
		bw.CloseWrite()
		bw.WaitClosed()
	}
}

func runLockstep(c hCase) hRun {
	r := harness.NewRig(c.Cfg, c.Script)
	bw := startBystander(c, r)
	w, _ := r.Dial()
	run := hRun{rig: r}
	if st := w.WaitQuiet(); st != harness.QIdle {
		endBystander(bw)
		w.Finish()
		run.incon = "server not idle after connect: " + st
		return run
	}
	run.banner = w.Recv()
	run.pre = r.B.Events()
	nev := len(run.pre)
	take := func(sr *stepRec) bool {
		st := w.WaitQuiet()
		for i := 0; st == harness.QGate && i < 8; i++ {
			// a parked delivery (start gate) that the command loop now waits
			// for: let it run
			r.B.ReleaseArrived()
			st = w.WaitQuiet()
		}
		out := w.Recv()
		sr.Raw = append(sr.Raw, out...)
		evs := r.B.Events()
		sr.Events = append(sr.Events, evs[nev:]...)
		nev = len(evs)
		switch st {
		case harness.QClosed:
			sr.Closed = true
		case harness.QIdle:
		default:
			run.incon = fmt.Sprintf("step %s: server state %s", sr.Cmd, st)
			if st == harness.QDeadlock {
				run.deadlock = fmt.Sprintf("after %s the server is deadlocked (no reply will ever come):\n%s", sr.Cmd, w.Deadlock)
			}
			return false
		}
		return true
	}
	closed := false
	for ci, cmd := range c.Cmds {
		if c.ShutdownAt == ci+1 && !r.BeginShutdown() {
			endBystander(bw)
			w.Finish()
			run.incon = "graceful Shutdown did not close the listener (watchdog)"
			return run
		}
		sr := stepRec{Cmd: cmd}
		line, payload := cmd.line(c.Cfg.LMTP)
		switch cmd.Op {
		case "garbage", "unknown", "empty", "mail-bad", "rcpt-bad", "bdat-badlast", "bdat-badsize", "bdat-3args", "data-arg":
			// (what these lines are refused for is their spelling)
		default:
			line = respell(line, cmd.Case)
		}
		first := append([]byte(line+"\r\n"), payload...)
		sr.Sent = append(sr.Sent, first)
		w.Send(first)
		ok := take(&sr)
		if ok && !sr.Closed {
			rs, _ := harness.ParseRepliesLenient(sr.Raw)
			if len(rs) > 0 {
				lastR := rs[len(rs)-1]
				switch {
				case cmd.Op == "data" && rs[0].Code == 354:
					// (an LMTP backend that answers without reading lets the
					// final replies follow the 354 at once)
					body := append(append([]byte(nil), cmd.Body...), ref.Terminator(cmd.Body)...)
					sr.Sent = append(sr.Sent, body)
					w.Send(body)
					ok = take(&sr)
				case cmd.Op == "auth-noir" && lastR.Code == 334:
					resp := "*\r\n"
					if cmd.Arg == "resp" {
						resp = base64.StdEncoding.EncodeToString([]byte("\x00u\x00pw")) + "\r\n"
					}
					sr.Sent = append(sr.Sent, []byte(resp))
					w.Send([]byte(resp))
					ok = take(&sr)
				case cmd.Op == "starttls-fail" && lastR.Code == 220:
					// plaintext where the ClientHello should be: the handshake fails
					junk := []byte("this-is-not-a-tls-handshake\r\n")
					sr.Sent = append(sr.Sent, junk)
					sr.Barrier = true
					w.Send(junk)
					ok = take(&sr)
				case cmd.Op == "starttls" && lastR.Code == 220:
					if err := w.StartTLS(); err != nil {
						run.incon = "TLS handshake failed: " + err.Error()
						ok = false
					} else {
						sr.TLS = true
						// the server finishes its side (Logout, state reset)
						// after the client's handshake returns
						ok = take(&sr)
					}
				}
			}
		}
		sr.Replies, _ = harness.ParseRepliesLenient(sr.Raw)
		_, sr.PErr = harness.ParseReplies(sr.Raw)
		run.steps = append(run.steps, sr)
		if !ok {
			endBystander(bw)
			w.Finish()
			return run
		}
		if sr.Closed {
			closed = true
			break
		}
	}
	_ = closed
	endBystander(bw)
	rest, fin := w.Finish()
	if !fin {
		run.incon = "watchdog while finishing"
		if w.Deadlock != "" {
			run.deadlock = "the server is deadlocked at the end of the history:\n" + w.Deadlock
		}
		return run
	}
	if len(rest) > 0 && len(run.steps) > 0 {
		// output written after the last quiescence (none expected)
		last := &run.steps[len(run.steps)-1]
		last.Raw = append(last.Raw, rest...)
		last.Replies, _ = harness.ParseRepliesLenient(last.Raw)
		_, last.PErr = harness.ParseReplies(last.Raw)
	}
	evs := r.B.Events()
	run.tail = evs[nev:]
	run.out = w.Out
	return run
}

// closedByShutdown: once a graceful Shutdown has begun the server is free to
// end the connections it still has - RFC 5321 3.8: a 421 reply and goodbye, or
// (no property says otherwise) just goodbye; go-smtp's documentation promises
// not to, but nothing listed here depends on that. It returns the index of the
// step at which the connection was ended that way (the history is judged up
// to there), or -1.
func closedByShutdown(c hCase, run hRun) int {
	if c.ShutdownAt <= 0 {
		return -1
	}
	for i, s := range run.steps {
		if i+1 >= c.ShutdownAt && s.Closed {
			if n := len(s.Replies); n == 0 || s.Replies[n-1].Code == 421 {
				return i
			}
			return -1
		}
	}
	return -1
}

// ---- the command-state monitor (DESIGN.md appendix A) ----

type monitor struct {
	cfg    harness.Config
	script harness.Script

	session   bool // a backend session exists
	greeted   bool
	helo      string
	tls       bool
	authed    bool
	txn       bool
	rcpts     []string
	chunked   bool
	bytes     int64
	binary    bool
	written   bool // some payload octet of the open transfer reached the pipe
	plan      harness.DataPlan
	errors    int
	closed    bool
	uncertain bool
	// lost: a TLS handshake failed. What the server keeps of the session is
	// not specified; until the next successful greeting every step is
	// unspecified (the trace invariants still apply), and whether an earlier
	// authentication still counts stays open until the server shows it.
	lost          bool
	authUncertain bool
	// errSlack: refusals that a server may or may not count against the
	// connection's budget of malformed commands (a line the model takes for a
	// well-formed command but that a stricter parser refuses as malformed)
	errSlack     int
	pendingBegin bool // transfer open, its Data call has not been seen to begin yet

	nNew, nMail, nRcpt, nData, nSASL int

	unspecified int
	classes     map[string]bool
}

func newMonitor(c hCase) *monitor {
	m := &monitor{cfg: c.Cfg, script: c.Script, classes: map[string]bool{}}
	m.tls = c.Cfg.ImplicitTLS()
	if m.tls {
		m.classes["implicit_tls"] = true
	}
	return m
}

// preload accounts for the scripted decisions used up before the judged
// conversation began (by the bystander connection).
func (m *monitor) preload(pre []harness.Event) {
	m.nNew += len(begins(pre, "NewSession"))
	m.nMail += len(begins(pre, "Mail"))
	m.nRcpt += len(begins(pre, "Rcpt"))
	m.nData += len(begins(pre, "Data", "LMTPData"))
	m.nSASL += saslTaken(pre)
	if len(pre) > 0 {
		m.classes["bystander_connection_with_open_transaction"] = true
	}
}

func (m *monitor) txnEnd() {
	m.txn, m.rcpts, m.chunked, m.bytes, m.written = false, nil, false, 0, false
	m.uncertain = false
	// an aborted delivery is joined before the transaction ends, so its Data
	// call cannot begin any later than this
	m.pendingBegin = false
}

func decisionCode(d harness.Decision, plainCode int) int {
	switch d.Kind {
	case "smtp":
		return d.Code
	case "plain":
		return plainCode
	}
	return 250
}

func pickD(list []harness.Decision, i int) harness.Decision {
	if i < len(list) {
		return list[i]
	}
	return harness.Decision{}
}

func begins(evs []harness.Event, cbs ...string) []harness.Event {
	var out []harness.Event
	for _, e := range evs {
		if !e.Begin {
			continue
		}
		for _, cb := range cbs {
			if e.CB == cb {
				out = append(out, e)
			}
		}
	}
	return out
}

func ends(evs []harness.Event, cbs ...string) []harness.Event {
	var out []harness.Event
	for _, e := range evs {
		if e.Begin {
			continue
		}
		for _, cb := range cbs {
			if e.CB == cb {
				out = append(out, e)
			}
		}
	}
	return out
}

var workCBs = []string{"NewSession", "Mail", "Rcpt", "Data", "LMTPData", "Auth"}

func (m *monitor) refuse(s stepRec, why string, codes ...int) string {
	if len(s.Replies) != 1 {
		return fmt.Sprintf("%s must be refused (%s) with exactly one reply, got %v", s.Cmd, why, replyCodes(s.Replies))
	}
	r := s.Replies[0]
	if len(codes) > 0 {
		ok := false
		for _, c := range codes {
			if r.Code == c || (c < 10 && r.Class() == c) {
				ok = true
			}
		}
		if !ok {
			return fmt.Sprintf("%s must be refused (%s) with %v, got %s", s.Cmd, why, codes, r)
		}
	} else if r.Class() != 5 {
		return fmt.Sprintf("%s is out of order / invalid (%s) and must be answered 5xx, got %s", s.Cmd, why, r)
	}
	if b := begins(s.Events, workCBs...); len(b) > 0 {
		return fmt.Sprintf("%s must be refused (%s) without consulting the backend, but %s was called", s.Cmd, why, b[0])
	}
	return ""
}

func replyCodes(rs []harness.Reply) []int { return codes(rs) }

func (m *monitor) nfinal() int {
	if m.cfg.LMTP {
		return len(m.rcpts)
	}
	return 1
}

func (m *monitor) dataCB() string {
	if m.cfg.LMTP && m.script.LMTPSession {
		return "LMTPData"
	}
	return "Data"
}

func (m *monitor) planAt(i int) harness.DataPlan {
	if i < len(m.script.Data) {
		return m.script.Data[i]
	}
	return harness.DataPlan{Read: harness.ReadPlan{Limit: -1}, Honest: true}
}

func (m *monitor) needReset(s stepRec, why string) string {
	if !m.session {
		return ""
	}
	if len(begins(s.Events, "Reset")) == 0 {
		return fmt.Sprintf("%s ends the transaction (%s) but the backend was not told by Reset; events %s", s.Cmd, why, traceString(s.Events))
	}
	return ""
}

// step checks one lock-step command against the model and advances the state.
func (m *monitor) step(s stepRec) string {
	defer func() {
		// keep the callback ordinals in step with what the backend consumed
		m.nNew += len(begins(s.Events, "NewSession"))
		m.nMail += len(begins(s.Events, "Mail"))
		m.nRcpt += len(begins(s.Events, "Rcpt"))
		// deliveries never overlap (the server joins an aborted delivery before
		// it ends the transaction), so the ordinal of the next Data call is
		// the number of Data calls begun in earlier steps
		m.nData += len(begins(s.Events, "Data", "LMTPData"))
		// every Auth callback takes the next SASL script, also during the
		// stretches in which the model predicts nothing
		m.nSASL += saslTaken(s.Events)
		if s.Closed {
			m.closed = true
		}
	}()
	cmd := s.Cmd // (reply syntax, s.PErr, is C04's business)
	if m.pendingBegin {
		// The delivery goroutine of the open chunked transfer is started
		// asynchronously: its Data call may begin during any later command.
		// That call belongs to the transfer, not to this command.
		var kept []harness.Event
		dropped := false
		for _, e := range s.Events {
			if !dropped && e.Begin && (e.CB == "Data" || e.CB == "LMTPData") {
				dropped = true
				continue
			}
			kept = append(kept, e)
		}
		if dropped {
			m.pendingBegin = false
			m.nData++ // the deferred sync below counts from the filtered list
			s.Events = kept
		}
	}
	if m.lost {
		m.unspecified++
		if cmd.Op == "unknown" || cmd.Op == "empty" || cmd.Op == "garbage" {
			m.errors++ // these count against the connection whatever else is open
		}
		if cmd.Op == "auth-plain" || cmd.Op == "auth-noir" {
			// whatever else is unknown here, an authentication that goes
			// through (or is refused as a repetition) is remembered: it
			// outlives the next greeting
			for _, rp := range s.Replies {
				switch rp.Code {
				case 235:
					m.authed, m.authUncertain = true, false
				case 503:
					// "already authenticated", or out of sequence for some
					// other reason: not known
					m.authUncertain = m.authUncertain || !m.authed
				}
			}
		}
		if (cmd.Op == "greet" || (cmd.Op == "helo" && !m.cfg.LMTP)) && len(s.Replies) == 1 && s.Replies[0].Code == 250 {
			for _, ns := range begins(s.Events, "NewSession") {
				if ns.Hostname != cmd.Arg || ns.TLS != m.tls {
					return fmt.Sprintf("%s: NewSession observed Hostname()=%q TLS=%v, want %q %v", cmd, ns.Hostname, ns.TLS, cmd.Arg, m.tls)
				}
				if ns.TLS && !ns.TLSReady {
					return fmt.Sprintf("%s: the TLS state NewSession could query is not that of the connection's completed handshake (HandshakeComplete false, or no version / cipher suite)", cmd)
				}
			}
			m.lost = false
			m.session, m.greeted, m.helo = true, true, cmd.Arg
			m.txnEnd()
		}
		if cmd.Op == "starttls" && len(s.Replies) == 1 && s.Replies[0].Code == 220 && s.TLS {
			m.lost, m.authUncertain = false, false
			m.session, m.greeted, m.helo, m.authed, m.tls = false, false, "", false, true
			m.txnEnd()
		}
		return ""
	}
	if m.authUncertain && (cmd.Op == "auth-plain" || cmd.Op == "auth-noir") {
		m.unspecified++
		for _, rp := range s.Replies {
			if rp.Code == 235 || rp.Code == 503 {
				m.authed, m.authUncertain = true, false
			}
		}
		return ""
	}
	authAllowed := m.tls || m.cfg.AllowInsecureAuth
	one := func(code int) string {
		if len(s.Replies) != 1 || s.Replies[0].Code != code {
			return fmt.Sprintf("%s: expected a single %d reply, got %v", cmd, code, replyCodes(s.Replies))
		}
		return ""
	}
	noWork := func() string {
		if b := begins(s.Events, workCBs...); len(b) > 0 {
			return fmt.Sprintf("%s must not consult the backend, but %s was called", cmd, b[0])
		}
		return ""
	}
	switch cmd.Op {
	case "greet", "helo":
		if cmd.Op == "helo" && m.cfg.LMTP {
			return m.refuse(s, "HELO on an LMTP server")
		}
		if hasCtlOctet(cmd.Arg) && len(begins(s.Events, "NewSession")) == 0 && len(s.Replies) >= 1 && s.Replies[0].Class() == 5 {
			// a name with a control character: taking it (it is handed to
			// the backend and echoed, sanitised) and refusing the line as
			// malformed are both answers; a refusal may count as an error
			m.unspecified++
			m.classes["unspecified_greeting_with_control_character"] = true
			m.errSlack++
			if len(s.Replies) == 1 && !s.Closed {
				return noWork()
			}
			if m.errors+m.errSlack > 3 && len(s.Replies) == 2 && s.Replies[1].Code == 500 && s.Closed {
				return noWork()
			}
			return fmt.Sprintf("%s: refused, but with replies %v closed=%v", cmd, replyCodes(s.Replies), s.Closed)
		}
		if m.session {
			if e := one(250); e != "" {
				return e
			}
			if len(begins(s.Events, "NewSession")) != 0 {
				return fmt.Sprintf("%s: repeated greeting created a second session", cmd)
			}
			if e := m.needReset(s, "repeated greeting"); e != "" {
				return e
			}
			m.helo = cmd.Arg
			m.txnEnd()
			m.classes["repeated_greeting"] = true
			return ""
		}
		ns := begins(s.Events, "NewSession")
		if len(ns) != 1 {
			return fmt.Sprintf("%s: expected one NewSession call, got %d", cmd, len(ns))
		}
		if ns[0].Hostname != cmd.Arg || ns[0].TLS != m.tls {
			return fmt.Sprintf("%s: NewSession observed Hostname()=%q TLS=%v, want %q %v", cmd, ns[0].Hostname, ns[0].TLS, cmd.Arg, m.tls)
		}
		if ns[0].TLS && !ns[0].TLSReady {
			return fmt.Sprintf("%s: the TLS state NewSession could query is not that of the connection's completed handshake (HandshakeComplete false, or no version / cipher suite)", cmd)
		}
		d := pickD(m.script.NewSession, m.nNew)
		if d.OK() {
			if e := one(250); e != "" {
				return e
			}
			m.session, m.greeted, m.helo = true, true, cmd.Arg
		} else {
			if e := one(decisionCode(d, 451)); e != "" {
				return e
			}
			m.classes["newsession_rejected"] = true
		}
		return ""
	case "greet-wrong":
		return m.refuse(s, "greeting of the other protocol flavour")
	case "greet-noarg":
		return m.refuse(s, "greeting without argument")
	case "mail-bad":
		return m.refuse(s, "malformed MAIL")
	case "mail", "mail-binary", "mail-size-over":
		if !m.greeted {
			m.classes["mail_before_greeting"] = true
			return m.refuse(s, "no successful greeting")
		}
		if m.chunked && !m.uncertain {
			m.classes["mail_during_transfer"] = true
			return m.refuse(s, "chunked transfer open")
		}
		if cmd.Op == "mail-binary" && !m.cfg.BinaryMIME {
			if m.uncertain {
				// the transfer may still be open: refused either way, the
				// reason (and code) depends on that
				return m.refuse(s, "BINARYMIME disabled or chunked transfer open")
			}
			return m.refuse(s, "BINARYMIME disabled", 504)
		}
		if cmd.Op == "mail-size-over" && m.cfg.MaxMessageBytes > 0 {
			if m.uncertain {
				return m.refuse(s, "declared SIZE over the limit or chunked transfer open")
			}
			if m.txn && m.binary {
				// a second MAIL inside a transaction is not specified, a
				// refused one included: whether the BODY type of the open
				// transaction survives it is open (the server forgets it)
				m.classes["unspecified_second_mail"] = true
				e := m.refuse(s, "declared SIZE over the limit", 552)
				m.uncertain = true
				return e
			}
			return m.refuse(s, "declared SIZE over the limit", 552)
		}
		if m.uncertain {
			m.unspecified++
			return ""
		}
		ms := begins(s.Events, "Mail")
		if m.txn {
			// a second MAIL inside a transaction: not specified; follow the reply
			m.unspecified++
			m.classes["unspecified_second_mail"] = true
			if len(s.Replies) != 1 {
				return fmt.Sprintf("%s: expected one reply, got %v", cmd, replyCodes(s.Replies))
			}
			if cmd.Op == "mail-binary" || m.binary {
				// whether the BODY type of the replaced MAIL applies is open
				m.uncertain = true
			}
			return ""
		}
		if len(ms) != 1 || ms[0].From != cmd.Arg+"@x" {
			return fmt.Sprintf("%s: expected one Mail(%q) call, got %v", cmd, cmd.Arg+"@x", traceString(ms))
		}
		d := pickD(m.script.Mail, m.nMail)
		if e := one(decisionCode(d, 451)); e != "" {
			return e
		}
		if d.OK() {
			m.txn, m.binary = true, cmd.Op == "mail-binary"
		} else {
			m.classes["mail_rejected"] = true
			if cmd.Op == "mail-binary" {
				m.classes["binary_mail_rejected"] = true
			}
		}
		return ""
	case "rcpt-bad":
		return m.refuse(s, "malformed RCPT")
	case "rcpt":
		if m.uncertain {
			m.unspecified++
			return ""
		}
		if !m.txn {
			m.classes["rcpt_without_mail"] = true
			return m.refuse(s, "no accepted MAIL in this transaction")
		}
		if m.chunked {
			m.classes["rcpt_during_transfer"] = true
			return m.refuse(s, "chunked transfer open")
		}
		if m.cfg.MaxRecipients > 0 && len(m.rcpts) >= m.cfg.MaxRecipients {
			m.classes["rcpt_over_max"] = true
			return m.refuse(s, "recipient limit reached", 4, 5)
		}
		rs := begins(s.Events, "Rcpt")
		if len(rs) != 1 || rs[0].To != cmd.Arg+"@x" {
			return fmt.Sprintf("%s: expected one Rcpt(%q) call, got %v", cmd, cmd.Arg+"@x", traceString(rs))
		}
		d := pickD(m.script.Rcpt, m.nRcpt)
		if e := one(decisionCode(d, 451)); e != "" {
			return e
		}
		if d.OK() {
			m.rcpts = append(m.rcpts, cmd.Arg+"@x")
		} else {
			m.classes["rcpt_rejected"] = true
		}
		return ""
	case "data-arg":
		return m.refuse(s, "DATA with an argument")
	case "data":
		if m.uncertain {
			m.unspecified++
			if len(begins(s.Events, "Data", "LMTPData")) > 0 {
				m.txnEnd()
			}
			return ""
		}
		if !m.txn || len(m.rcpts) == 0 || m.chunked || m.binary {
			m.classes["data_out_of_order"] = true
			return m.refuse(s, fmt.Sprintf("txn=%v rcpts=%d chunked=%v binarymime=%v", m.txn, len(m.rcpts), m.chunked, m.binary))
		}
		nf := m.nfinal()
		if len(s.Replies) != 1+nf || s.Replies[0].Code != 354 {
			return fmt.Sprintf("%s: expected 354 and %d final replies, got %v", cmd, nf, replyCodes(s.Replies))
		}
		ds := begins(s.Events, m.dataCB())
		if len(ds) != 1 || len(begins(s.Events, "Data", "LMTPData")) != 1 {
			return fmt.Sprintf("%s: expected exactly one %s call, events %s", cmd, m.dataCB(), traceString(s.Events))
		}
		plan := m.planAt(m.nData)
		want := decisionCode(plan.Result, 554)
		full, _, _ := ref.Unstuff(append(append([]byte(nil), cmd.Body...), ref.Terminator(cmd.Body)...))
		if plan.Read.Limit < 0 && m.cfg.MaxMessageBytes > 0 && int64(len(full)) > m.cfg.MaxMessageBytes {
			want = 552 // honest backend passes the reader's error on
			m.classes["data_over_limit"] = true
		}
		for _, r := range s.Replies[1:] {
			if r.Code != want {
				return fmt.Sprintf("%s: final reply %s, want %d (backend plan %+v)", cmd, r, want, plan.Result)
			}
		}
		if e := m.needReset(s, "final reply to DATA"); e != "" {
			return e
		}
		m.txnEnd()
		m.classes["message_via_data"] = true
		return ""
	case "bdat-badsize", "bdat-3args", "bdat-badlast":
		if m.txn {
			// whether the open transaction (and transfer) survives a BDAT
			// command that is refused for its syntax is not specified: RFC
			// 3030 lets a server consider the transaction failed
			m.classes["unspecified_bad_bdat_in_transaction"] = true
			if m.chunked {
				m.classes["unspecified_bad_bdat_during_transfer"] = true
			}
			e := m.refuse(s, "malformed BDAT")
			m.uncertain = true
			return e
		}
		return m.refuse(s, "malformed BDAT")
	case "bdat":
		if m.uncertain {
			m.unspecified++
			if len(s.Replies) == 1 && s.Replies[0].Class() == 2 && !cmd.Last && len(begins(s.Events, "Data", "LMTPData")) == 0 {
				m.pendingBegin = true // a transfer may have started whose Data call has not begun yet
			}
			return ""
		}
		n := int64(len(cmd.Body))
		if !m.txn || len(m.rcpts) == 0 {
			m.classes["bdat_out_of_order"] = true
			return m.refuse(s, "no transaction with recipients")
		}
		if m.cfg.MaxMessageBytes > 0 && m.bytes+n > m.cfg.MaxMessageBytes {
			m.classes["bdat_over_limit"] = true
			if len(s.Replies) != 1 || s.Replies[0].Code != 552 {
				return fmt.Sprintf("%s: chunk exceeds the size limit, expected a single 552, got %v", cmd, replyCodes(s.Replies))
			}
			if len(begins(s.Events, "Mail", "Rcpt", "NewSession")) > 0 {
				return fmt.Sprintf("%s: over-limit chunk caused callbacks: %s", cmd, traceString(s.Events))
			}
			if e := m.needReset(s, "over-limit chunk"); e != "" {
				return e
			}
			m.txnEnd()
			return ""
		}
		if !m.chunked {
			m.plan = m.planAt(m.nData)
			m.chunked = true
			m.classes["chunked_transfer"] = true
			m.pendingBegin = len(begins(s.Events, "Data", "LMTPData")) == 0
		}
		m.bytes += n
		early := m.plan.Read.Limit == 0 && !m.plan.Result.OK()
		nf := m.nfinal()
		errCode := decisionCode(m.plan.Result, 554)
		switch {
		case early && n > 0:
			// the delivery already failed: this chunk reports its error
			m.classes["chunk_reports_early_failure"] = true
			if m.cfg.LMTP && cmd.Last {
				// the final response in LMTP is one reply per recipient (C13)
				if len(s.Replies) != nf {
					return fmt.Sprintf("%s: failed LAST chunk in LMTP: expected %d final replies, got %v", cmd, nf, replyCodes(s.Replies))
				}
				for _, r := range s.Replies {
					if r.Code != errCode {
						return fmt.Sprintf("%s: final reply %s, want %d", cmd, r, errCode)
					}
				}
			} else if e := one(errCode); e != "" {
				return e
			}
			if e := m.needReset(s, "failed chunk"); e != "" {
				return e
			}
			m.txnEnd()
			return ""
		case cmd.Last:
			want := errCode
			if len(s.Replies) != nf {
				return fmt.Sprintf("%s: expected %d final replies, got %v", cmd, nf, replyCodes(s.Replies))
			}
			for _, r := range s.Replies {
				if r.Code != want {
					return fmt.Sprintf("%s: final reply %s, want %d", cmd, r, want)
				}
			}
			if e := m.needReset(s, "final reply to BDAT LAST"); e != "" {
				return e
			}
			m.txnEnd()
			m.classes["message_via_bdat"] = true
			return ""
		default:
			if e := one(250); e != "" {
				return e
			}
			return ""
		}
	case "rset":
		if e := one(250); e != "" {
			return e
		}
		if e := noWork(); e != "" {
			return e
		}
		if e := m.needReset(s, "RSET"); e != "" {
			return e
		}
		if m.chunked {
			m.classes["rset_during_transfer"] = true
		}
		m.txnEnd()
		return ""
	case "noop":
		if e := one(250); e != "" {
			return e
		}
		return noWork()
	case "vrfy":
		if e := one(252); e != "" {
			return e
		}
		return noWork()
	case "help":
		if e := one(502); e != "" {
			return e
		}
		return noWork()
	case "auth-plain", "auth-noir":
		switch {
		case !m.greeted:
			return m.refuse(s, "AUTH before greeting")
		case m.authed:
			m.classes["auth_twice"] = true
			return m.refuse(s, "already authenticated", 503)
		case !authAllowed:
			m.classes["auth_insecure"] = true
			return m.refuse(s, "AUTH on an insecure connection")
		case !m.script.AuthSession:
			return m.refuse(s, "backend has no AUTH support")
		case m.txn || m.uncertain:
			// AUTH inside a mail transaction: RFC 4954 forbids the client to
			// send it; a server may refuse it (503) or go through with it
			m.unspecified++
			m.classes["unspecified_auth_in_transaction"] = true
			for _, rp := range s.Replies {
				if rp.Code == 235 {
					m.authed = true
				}
			}
			return ""
		}
		var sc harness.SASLScript
		if m.nSASL < len(m.script.SASL) {
			sc = m.script.SASL[m.nSASL]
		}
		// (m.nSASL advances with the Auth callbacks observed, see step's deferred sync)
		final := 235
		if !sc.Final.OK() {
			final = decisionCode(sc.Final, 454)
		}
		if cmd.Op == "auth-plain" {
			if e := one(final); e != "" {
				return e
			}
		} else {
			if cmd.Arg == "cancel" {
				final = 501
			}
			if len(s.Replies) != 2 || s.Replies[0].Code != 334 || s.Replies[1].Code != final {
				return fmt.Sprintf("%s: expected 334 then %d, got %v", cmd, final, replyCodes(s.Replies))
			}
		}
		if final == 235 {
			m.authed = true
			m.classes["authenticated"] = true
		}
		return ""
	case "starttls":
		if m.cfg.TLS != "starttls" || m.tls {
			return m.refuse(s, "TLS not configured or already active")
		}
		if e := one(220); e != "" {
			return e
		}
		if m.session && len(begins(s.Events, "Logout")) != 1 {
			return fmt.Sprintf("STARTTLS must end the session with Logout; events %s", traceString(s.Events))
		}
		m.session, m.greeted, m.helo, m.authed, m.tls = false, false, "", false, true
		m.txnEnd()
		m.classes["starttls"] = true
		return ""
	case "starttls-fail":
		if m.cfg.TLS != "starttls" || m.tls {
			return m.refuse(s, "TLS not configured or already active")
		}
		if len(s.Replies) == 1 && s.Replies[0].Code == 220 && s.Closed {
			// giving up the connection without another word is an answer too
			m.classes["failed_tls_handshake"] = true
			return noWork()
		}
		if len(s.Replies) != 2 || s.Replies[0].Code != 220 || s.Replies[1].Class() == 2 || s.Replies[1].Class() == 3 {
			return fmt.Sprintf("%s: expected 220 and, after plaintext instead of a handshake, a negative reply; got %v", cmd, replyCodes(s.Replies))
		}
		if e := noWork(); e != "" {
			return e
		}
		m.lost, m.authUncertain = true, m.authed || m.authUncertain
		m.uncertain = m.uncertain || m.chunked
		m.classes["failed_tls_handshake"] = true
		return ""
	case "quit":
		if e := one(221); e != "" {
			return e
		}
		if !s.Closed {
			return "QUIT: connection not closed"
		}
		return noWork()
	case "unknown", "empty", "garbage":
		m.errors++
		if e := noWork(); e != "" {
			return e
		}
		if m.errors > 3 {
			m.classes["error_threshold"] = true
			if len(s.Replies) != 2 || s.Replies[0].Class() != 5 || s.Replies[1].Code != 500 || !s.Closed {
				return fmt.Sprintf("%s is the 4th protocol error: expected an error reply, the closing 500 notice and a closed connection, got %v closed=%v", cmd, replyCodes(s.Replies), s.Closed)
			}
			return ""
		}
		if m.errors+m.errSlack > 3 && len(s.Replies) == 2 && s.Replies[0].Class() == 5 && s.Replies[1].Code == 500 && s.Closed {
			// the budget may be used up already (see errSlack)
			m.classes["error_threshold_with_slack"] = true
			return ""
		}
		if len(s.Replies) != 1 || s.Replies[0].Class() != 5 {
			return fmt.Sprintf("%s: expected a single 5xx reply, got %v", cmd, replyCodes(s.Replies))
		}
		if s.Closed {
			return fmt.Sprintf("%s: connection closed after only %d protocol errors", cmd, m.errors)
		}
		return ""
	}
	return "monitor: unknown op " + cmd.Op
}

func hasCtlOctet(s string) bool {
	for i := 0; i < len(s); i++ {
		if s[i] < 0x20 || s[i] == 0x7f {
			return true
		}
	}
	return false
}

// traceInvariants are checked on the whole lock-step run independently of the
// monitor's state: they use only callbacks and the replies that answered them.
func traceInvariants(c hCase, run hRun) string {
	greetedOK := false
	mailOK := false
	rcptOK := 0
	unknown := false // whether a transaction is open is not known (see bad BDAT below)
	for _, s := range run.steps {
		for _, e := range s.Events {
			if !e.Begin || (unknown && e.CB != "Mail") {
				continue
			}
			switch e.CB {
			case "Mail":
				if !greetedOK {
					return fmt.Sprintf("Mail called without a successful greeting on the current session (at %s)", s.Cmd)
				}
			case "Rcpt":
				if !mailOK {
					return fmt.Sprintf("Rcpt called without an accepted Mail in the current transaction (at %s)", s.Cmd)
				}
			case "Data", "LMTPData":
				if rcptOK == 0 {
					return fmt.Sprintf("Data called without an accepted Rcpt in the current transaction (at %s)", s.Cmd)
				}
			}
		}
		if len(s.Replies) == 0 {
			continue
		}
		last := s.Replies[len(s.Replies)-1]
		switch s.Cmd.Op {
		case "greet", "helo":
			if last.Class() == 2 {
				greetedOK = true
				mailOK, rcptOK, unknown = false, 0, false
			}
		case "starttls":
			if s.TLS {
				greetedOK, mailOK, rcptOK, unknown = false, false, 0, false
			}
		case "mail", "mail-binary", "mail-size-over":
			if last.Class() == 2 {
				mailOK = true
			}
		case "rcpt":
			if last.Class() == 2 {
				rcptOK++
				if c.Cfg.MaxRecipients > 0 && !unknown && rcptOK > c.Cfg.MaxRecipients {
					return fmt.Sprintf("%d recipients accepted with MaxRecipients=%d", rcptOK, c.Cfg.MaxRecipients)
				}
			}
		case "rset":
			mailOK, rcptOK, unknown = false, 0, false
		case "data":
			if s.Replies[0].Code == 354 {
				mailOK, rcptOK = false, 0
			}
		case "bdat":
			// Without an accepted MAIL and RCPT the command is out of order:
			// its refusal (whatever the code) changes nothing. Otherwise a
			// LAST chunk or a negative reply ends the transaction.
			if mailOK && rcptOK > 0 && (s.Cmd.Last || last.Class() != 2) {
				mailOK, rcptOK = false, 0
			}
		case "bdat-badsize", "bdat-3args", "bdat-badlast":
			// refused for its syntax: the transaction may or may not survive;
			// from here on this walk knows nothing until the next certain end
			if mailOK {
				unknown = true
			}
		}
	}
	return ""
}

var _ = rapid.Bool
