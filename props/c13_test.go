package props

import (
	"bufio"
	"fmt"
	"strings"
	"testing"
	"time"

	"pgregory.net/rapid"

	"verif/harness"
)

// C13 - LMTP returns one status per accepted recipient, in order, correctly
// attributed.

type c13Rcpt struct {
	Addr   string `json:"addr"`
	Reject bool   `json:"reject,omitempty"` // refused at RCPT time
}

type c13Status struct {
	Occ       int  `json:"occ"`   // index into the accepted recipient list this call is meant for
	OK        bool `json:"ok"`    // nil status
	AfterRead bool `json:"after"` // set after the message was consumed
}

type c13Case struct {
	Rcpts    []c13Rcpt   `json:"rcpts"`
	Status   []c13Status `json:"status"`   // SetStatus calls in call order (per-recipient backend only)
	RetErr   bool        `json:"ret_err"`  // return value of the delivery
	Panic    string      `json:"panic"`    // "", "before", "after"
	Chunks   int         `json:"chunks"`   // 0 = DATA, 1..2 = BDAT chunks
	PerRcpt  bool        `json:"per_rcpt"` // backend implements LMTPSession
	Early    bool        `json:"early"`    // delivery returns without reading the message
	Pipeline bool        `json:"pipeline"` // message and marker in the same segment as the command
	// Prior: before the judged transaction, a chunked transaction with the same
	// recipients is abandoned ("rset": RSET after a chunk; "lhlo": new LHLO),
	// its backend having set statuses for some recipients already.
	Prior string `json:"prior,omitempty"`
	// MultiLine: every negative status (and the return value) has several lines
	MultiLine bool `json:"multi_line,omitempty"`
	// Interludes (optional, len(Rcpts)+1 entries): a command that changes
	// nothing, sent before the i-th RCPT (the last entry: after the last
	// one): 0 none, 1 NOOP, 2 VRFY, 3 a malformed RCPT, 4 a BDAT whose second
	// argument is not LAST (refused, its octets discarded), 5 a BDAT with an
	// unreadable size, 6 DATA with an argument
	Interludes []int `json:"interludes,omitempty"`
}

var c13InterludeCmds = []struct {
	raw string
	exp expect
}{
	{}, {"NOOP\r\n", expect{Code: 250}}, {"VRFY someone\r\n", expect{Class: 2}}, {"RCPT TO:<nobody\r\n", expect{Class: 5}},
	{"BDAT 4 LATS\r\nabcd", expect{Class: 5}}, {"BDAT x LAST\r\n", expect{Class: 5}}, {"DATA now\r\n", expect{Class: 5}},
}

func c13Accepted(c c13Case) []string {
	var out []string
	for _, r := range c.Rcpts {
		if !r.Reject {
			out = append(out, r.Addr)
		}
	}
	return out
}

// c13Expect is the pure function of the script: the (code, text marker) of
// the i-th final reply, and whether the connection is closed afterwards.
func c13Expect(c c13Case) (codes []int, marks []string, closed bool) {
	acc := c13Accepted(c)
	n := len(acc)
	codes = make([]int, n)
	marks = make([]string, n)
	set := make([]bool, n)
	retCode, retMark := 250, "" // (a positive reply's wording is the server's business)
	if c.RetErr {
		retCode, retMark = 451, "return-value-error"
	}
	if c.PerRcpt && c.Panic != "before" {
		// the k-th status set for an address belongs to its k-th occurrence
		used := map[string]int{}
		// call order: the calls made before the message is read, then the others
		var order []int
		for si, s := range c.Status {
			if !s.AfterRead {
				order = append(order, si)
			}
		}
		for si, s := range c.Status {
			if s.AfterRead {
				order = append(order, si)
			}
		}
		for _, si := range order {
			s := c.Status[si]
			addr := acc[s.Occ]
			k := used[addr]
			used[addr]++
			// find the k-th occurrence of addr
			seen := 0
			for i, a := range acc {
				if a != addr {
					continue
				}
				if seen == k {
					set[i] = true
					if s.OK {
						codes[i], marks[i] = 250, ""
					} else {
						codes[i], marks[i] = 550+si, fmt.Sprintf("status-call-%d", si)
					}
					break
				}
				seen++
			}
		}
	}
	for i := range acc {
		if set[i] {
			continue
		}
		switch {
		case c.Panic != "":
			codes[i], marks[i] = 421, ""
		default:
			codes[i], marks[i] = retCode, retMark
		}
	}
	return codes, marks, c.Panic != ""
}

func c13Run(c c13Case) Verdict {
	acc := c13Accepted(c)
	script := harness.Script{LMTPSession: c.PerRcpt}
	for _, r := range c.Rcpts {
		d := harness.Decision{}
		if r.Reject {
			d = harness.Decision{Kind: "smtp", Code: 550, Enh: [3]int{5, 1, 1}, Msg: "no such user"}
		}
		script.Rcpt = append(script.Rcpt, d)
	}
	plan := harness.DataPlan{Read: harness.ReadPlan{Limit: -1}}
	if c.Early {
		plan.Read.Limit = 0
	}
	if c.RetErr {
		plan.Result = harness.Decision{Kind: "smtp", Code: 451, Enh: [3]int{4, 3, 0}, Msg: "return-value-error"}
		if c.MultiLine {
			plan.Result.Msg += "\nsecond line of the return value"
		}
	}
	if c.PerRcpt {
		for si, s := range c.Status {
			d := harness.Decision{}
			if !s.OK {
				d = harness.Decision{Kind: "smtp", Code: 550 + si, Enh: [3]int{5, 2, si}, Msg: fmt.Sprintf("status-call-%d", si)}
				if c.MultiLine {
					// one reply all the same, however many lines it has
					d.Msg += "\nsecond line of the status\nthird line"
				}
			}
			plan.Status = append(plan.Status, harness.StatusCall{Rcpt: acc[s.Occ], D: d, AfterRead: s.AfterRead})
		}
	}
	plan.PanicBefore = c.Panic == "before"
	plan.PanicAfter = c.Panic == "after"
	script.Data = []harness.DataPlan{plan}
	if c.Prior != "" {
		// the abandoned transfer: same RCPT decisions again, a delivery that
		// sets a distinctive status for every accepted recipient and then
		// waits for octets that never come
		script.Rcpt = append(append([]harness.Decision(nil), script.Rcpt...), script.Rcpt...)
		prior := harness.DataPlan{Read: harness.ReadPlan{Limit: -1}}
		if c.PerRcpt {
			seenPrior := map[string]bool{}
			for _, a := range acc {
				if !seenPrior[a] {
					seenPrior[a] = true
					prior.Status = append(prior.Status, harness.StatusCall{Rcpt: a, D: harness.Decision{Kind: "smtp", Code: 599, Enh: [3]int{5, 9, 9}, Msg: "status-of-the-abandoned-transfer"}})
				}
			}
		}
		script.Data = []harness.DataPlan{prior, plan}
	}
	r := harness.NewRig(harness.Config{LMTP: true}, script)
	w, _ := r.Dial()
	if st := w.WaitQuiet(); st != harness.QIdle {
		w.Finish()
		return Verdict{Inconclusive: "server not idle after connect: " + st}
	}
	w.Recv()
	var pre conv
	pre.cmd("LHLO cli", expect{Code: 250})
	if c.Prior != "" {
		pre.cmd("MAIL FROM:<prior@x>", expect{Code: 250})
		for _, rc := range c.Rcpts {
			if rc.Reject {
				pre.cmd("RCPT TO:<"+rc.Addr+">", expect{Code: 550})
			} else {
				pre.cmd("RCPT TO:<"+rc.Addr+">", expect{Code: 250})
			}
		}
		pre.raw([]byte("BDAT 3\r\nabc"), expect{Code: 250})
		if c.Prior == "rset" {
			pre.cmd("RSET", expect{Code: 250})
		} else {
			pre.cmd("LHLO again", expect{Code: 250})
		}
	}
	pre.cmd("MAIL FROM:<s@x>", expect{Code: 250})
	interlude := func(i int) {
		if i < len(c.Interludes) && c.Interludes[i] > 0 && c.Interludes[i] < len(c13InterludeCmds) {
			ic := c13InterludeCmds[c.Interludes[i]]
			pre.raw([]byte(ic.raw), ic.exp)
		}
	}
	for i, rc := range c.Rcpts {
		interlude(i)
		if rc.Reject {
			pre.cmd("RCPT TO:<"+rc.Addr+">", expect{Code: 550})
		} else {
			pre.cmd("RCPT TO:<"+rc.Addr+">", expect{Code: 250})
		}
	}
	interlude(len(c.Rcpts))
	out, st := w.Exchange(pre.buf)
	prs, err := harness.ParseReplies(out)
	// A server may also treat a BDAT it refuses as the end of the
	// transaction (RFC 3030 section 2 lets the sender consider it failed):
	// when the backend was told so by Reset after the judged MAIL, whatever
	// follows is refused for want of a MAIL and there is nothing to attribute.
	endedByRefusedBdat := func() bool {
		withBdat := false
		for _, k := range c.Interludes {
			if k == 4 || k == 5 {
				withBdat = true
			}
		}
		if !withBdat {
			return false
		}
		seenMail := false
		for _, e := range r.B.Events() {
			if e.CB == "Mail" && e.Begin && e.From == "s@x" {
				seenMail = true
			}
			if seenMail && e.CB == "Reset" {
				return true
			}
		}
		return false
	}
	if st == harness.QIdle && err == nil && matchReplies(prs, pre.exp) != "" && endedByRefusedBdat() {
		w.Finish()
		return Verdict{Classes: []string{"unspecified_refused_bdat_ended_transaction"}}
	}
	if st != harness.QIdle || err != nil || matchReplies(prs, pre.exp) != "" {
		w.Finish()
		return Verdict{Inconclusive: fmt.Sprintf("envelope: %s %v %s", st, err, matchReplies(prs, pre.exp))}
	}
	if endedByRefusedBdat() {
		// (the refused BDAT came last: the envelope went through, the
		// transaction is gone all the same)
		w.Finish()
		return Verdict{Classes: []string{"unspecified_refused_bdat_ended_transaction"}}
	}
	msg := "Subject: x\r\n\r\nhello\r\n"
	var body []byte
	if c.Chunks == 0 {
		if c.Pipeline {
			body = []byte("DATA\r\n" + msg + ".\r\nVRFY marker\r\n")
		} else {
			o, st := w.Exchange([]byte("DATA\r\n"))
			rs, _ := harness.ParseReplies(o)
			if (st != harness.QIdle && st != harness.QClosed) || len(rs) < 1 || rs[0].Code != 354 {
				w.Finish()
				return Verdict{Inconclusive: fmt.Sprintf("DATA not accepted: %v %s", codes(rs), st)}
			}
			// early replies (backend answered without reading) stay in w.Out
			body = []byte(msg + ".\r\nVRFY marker\r\n")
		}
	} else if c.Chunks == 1 {
		body = []byte(fmt.Sprintf("BDAT %d LAST\r\n%sVRFY marker\r\n", len(msg), msg))
	} else {
		h := len(msg) / 2
		body = []byte(fmt.Sprintf("BDAT %d\r\n%sBDAT %d LAST\r\n%sVRFY marker\r\n", h, msg[:h], len(msg)-h, msg[h:]))
	}
	mark := len(w.Out)
	if c.Chunks == 0 && !c.Pipeline {
		// w.Out already holds "354 ..." and possibly early replies; find the end of the 354 line
		mark = strings.LastIndex(string(w.Out), "354 ")
	}
	w.Send(body)
	st2 := w.WaitQuiet()
	if st2 == harness.QWatchdog {
		stacks := harness.BlockedStacks(harness.ServerGoroutines())
		w.Finish()
		if len(stacks) > 0 {
			return failf("deadlock", "server is stuck (not reading, not closed) after the message; a go-smtp goroutine is blocked:\n%s", stacks[0])
		}
		return Verdict{Inconclusive: "watchdog after the message"}
	}
	_, fin := w.Finish()
	if !fin {
		return finishFail(w)
	}
	rs, err := harness.ParseReplies(w.Out[mark:])
	if err != nil {
		return failf("reply-syntax", "replies do not parse: %v (%s)", err, q(w.Out[mark:]))
	}
	// drop the 354 / chunk acknowledgement
	switch {
	case c.Chunks == 0:
		if len(rs) == 0 || rs[0].Code != 354 {
			return failf("replies", "no 354: %v", codes(rs))
		}
		rs = rs[1:]
	case c.Chunks == 2:
		if len(rs) == 0 {
			return failf("replies", "no reply to the first chunk")
		}
		if rs[0].Code == 250 {
			// (one recipient-less 250: the acknowledgement of the first chunk)
			rs = rs[1:]
		} else if !c.Early && c.Panic != "before" {
			return failf("replies", "first chunk answered %s", rs[0])
		} else {
			// the delivery failed before the first chunk was consumed: the
			// chunk reports it and the transaction is over (C03/C05 judge that)
			return Verdict{Classes: []string{"unspecified_first_chunk_failed"}}
		}
	}
	wantCodes, wantMarks, closed := c13Expect(c)
	v := Verdict{}
	dup := false
	seen := map[string]bool{}
	for _, a := range acc {
		if seen[a] {
			dup = true
		}
		seen[a] = true
	}
	outOfOrder := false
	for i := 1; i < len(c.Status); i++ {
		if c.Status[i].Occ < c.Status[i-1].Occ {
			outOfOrder = true
		}
	}
	subset := c.PerRcpt && len(c.Status) < len(acc)
	v.NonTrivial = dup || outOfOrder || subset
	if dup {
		v.Classes = append(v.Classes, "duplicate_recipient")
	}
	if outOfOrder {
		v.Classes = append(v.Classes, "statuses_out_of_rcpt_order")
	}
	if subset {
		v.Classes = append(v.Classes, "strict_subset_set")
	}
	if c.Panic != "" {
		v.Classes = append(v.Classes, "backend_panic")
	}
	if c.Chunks > 0 {
		v.Classes = append(v.Classes, "via_bdat")
	}
	if !c.PerRcpt {
		v.Classes = append(v.Classes, "plain_backend")
		if c.Early && !c.RetErr {
			v.Classes = append(v.Classes, "plain_backend_success_without_reading")
		}
	}
	if c.Prior != "" {
		v.Classes = append(v.Classes, "after_abandoned_transfer")
	}
	if c.MultiLine {
		v.Classes = append(v.Classes, "multi_line_statuses")
	}
	for _, a := range acc {
		if a == "A@x" && (seen["a@x"] || contains(acc, "a@x")) {
			v.Classes = append(v.Classes, "recipients_differing_in_case")
			break
		}
	}
	n := len(acc)
	if c.Panic != "" {
		// A panicking backend: the statement only demands that nothing hangs
		// and nothing is misattributed. Statuses set before the panic must be
		// reported correctly; the rest is 421 (named per recipient, or one
		// unnamed connection-level 421) and the connection is closed.
		if len(rs) == 0 || len(rs) > n {
			return failf("after-panic", "backend panic: expected 1..%d replies, got %v", n, codes(rs))
		}
		for i, rp := range rs {
			if strings.Contains(rp.Text(), "<"+acc[i]+"> ") {
				if c.PerRcpt && (rp.Code != wantCodes[i] || (wantMarks[i] != "" && !strings.Contains(rp.Text(), wantMarks[i]))) {
					return failf("status-attribution", "backend panic: reply %d for <%s> is %s, the script gives %d %q", i, acc[i], rp, wantCodes[i], wantMarks[i])
				}
				if !c.PerRcpt && rp.Code != 421 {
					return failf("status", "backend panic with a plain backend: reply %d is %s", i, rp)
				}
				continue
			}
			if rp.Code != 421 || i != len(rs)-1 {
				return failf("after-panic", "backend panic: reply %d (%s) neither names <%s> nor is a final 421", i, rp, acc[i])
			}
		}
		if st2 != harness.QClosed {
			return failf("after-panic", "backend panic: connection not closed")
		}
		return v
	}
	if len(rs) < n {
		return failf("reply-count", "expected %d final replies (one per accepted recipient %v), got %v", n, acc, codes(rs))
	}
	for i := 0; i < n; i++ {
		text := rs[i].Text()
		if !strings.Contains(text, "<"+acc[i]+"> ") {
			return failf("recipient-name", "final reply %d (%s) does not name recipient %d <%s>", i, rs[i], i, acc[i])
		}
		// ... and nobody else, and not more often than it has lines (no
		// scripted text contains an address)
		for _, other := range []string{"a@x", "b@x", "A@x"} {
			k := strings.Count(text, "<"+other+"> ")
			if other != acc[i] && k > 0 {
				return failf("recipient-name", "final reply %d (%s) is for recipient %d <%s> but also names <%s>", i, rs[i], i, acc[i], other)
			}
			if other == acc[i] && k > len(rs[i].Lines) {
				return failf("recipient-name", "final reply %d (%s) names its recipient <%s> %d times in %d line(s)", i, rs[i], acc[i], k, len(rs[i].Lines))
			}
		}
		if !c.PerRcpt {
			// plain backend: every recipient gets the single result
			want := 250
			if c.RetErr {
				want = 451
			}
			if c.Panic != "" {
				want = 421
			}
			if rs[i].Code != want {
				return failf("status", "plain backend: reply %d is %s, want %d", i, rs[i], want)
			}
			continue
		}
		if rs[i].Code != wantCodes[i] || (wantMarks[i] != "" && !strings.Contains(text, wantMarks[i])) {
			return failf("status-attribution", "reply %d for <%s> is %s, the script gives that occurrence %d %q (statuses %+v, return error %v, panic %q)",
				i, acc[i], rs[i], wantCodes[i], wantMarks[i], c.Status, c.RetErr, c.Panic)
		}
	}
	rest := rs[n:]
	if closed {
		if len(rest) != 0 {
			return failf("after-panic", "replies after the per-recipient statuses of a panicked delivery: %v", codes(rest))
		}
		return v
	}
	if len(rest) != 1 || rest[0].Code != 252 {
		return failf("marker", "after %d final replies the marker command must be answered next (252), got %v", n, codes(rest))
	}
	return v
}

func c13Gen(t *rapid.T) c13Case {
	c := c13Case{}
	n := rapid.IntRange(1, 4).Draw(t, "nrcpt")
	for i := 0; i < n; i++ {
		// (A@x and a@x are different recipients: local parts are case-sensitive)
		c.Rcpts = append(c.Rcpts, c13Rcpt{Addr: rapid.SampledFrom([]string{"a@x", "b@x", "a@x", "b@x", "A@x"}).Draw(t, "addr"), Reject: rapid.IntRange(0, 4).Draw(t, "reject") == 0})
	}
	if len(c13Accepted(c)) == 0 {
		c.Rcpts[0].Reject = false
	}
	acc := c13Accepted(c)
	c.PerRcpt = rapid.IntRange(0, 4).Draw(t, "perrcpt") != 0
	if c.PerRcpt {
		// a sub-multiset of the occurrences, in any order
		perm := rapid.Permutation(seqInts(len(acc))).Draw(t, "perm")
		k := rapid.IntRange(0, len(acc)).Draw(t, "k")
		for _, occ := range perm[:k] {
			c.Status = append(c.Status, c13Status{Occ: occ, OK: rapid.Bool().Draw(t, "ok"), AfterRead: rapid.Bool().Draw(t, "after")})
		}
	}
	if rapid.IntRange(0, 2).Draw(t, "interludes") == 0 {
		for i := 0; i <= len(c.Rcpts); i++ {
			k := 0
			if rapid.Bool().Draw(t, "interlude_here") {
				k = rapid.IntRange(1, len(c13InterludeCmds)-1).Draw(t, "interlude")
			}
			c.Interludes = append(c.Interludes, k)
		}
	}
	c.RetErr = rapid.Bool().Draw(t, "reterr")
	c.Panic = rapid.SampledFrom([]string{"", "", "", "", "before", "after"}).Draw(t, "panic")
	c.Chunks = rapid.IntRange(0, 2).Draw(t, "chunks")
	// returning early is legitimate only with an error ("r must be consumed
	// before Data returns" otherwise)
	c.Early = rapid.IntRange(0, 5).Draw(t, "early") == 0 && c.Panic == "" && c.RetErr
	if !c.PerRcpt && c.Panic == "" && !c.RetErr && rapid.IntRange(0, 5).Draw(t, "early_success") == 0 {
		// Outside the documented precondition (success without having read
		// the message), but C02 counts such backends in and for a backend
		// with a single result the statement leaves no room: every recipient
		// gets that result. (With per-recipient statuses the breach makes the
		// recipients without one unspecified; not generated.)
		c.Early = true
	}
	if c.Early {
		// a delivery that does not read cannot set statuses "after the read"
		// in a meaningful order; keep them all before
		for i := range c.Status {
			c.Status[i].AfterRead = false
		}
	}
	c.Pipeline = rapid.Bool().Draw(t, "pipeline")
	c.MultiLine = rapid.IntRange(0, 3).Draw(t, "multi_line") == 0
	c.Prior = rapid.SampledFrom([]string{"", "", "", "rset", "lhlo"}).Draw(t, "prior")
	return c
}

func seqInts(n int) []int {
	out := make([]int, n)
	for i := range out {
		out[i] = i
	}
	return out
}

// ---- misuse of the collector: liveness and well-formedness only ----

type c13MisuseCase struct {
	Kind   string `json:"kind"` // "too-many", "unknown", "after-return"
	Chunks int    `json:"chunks"`
}

func c13MisuseRun(c c13MisuseCase) Verdict {
	plan := harness.DataPlan{Read: harness.ReadPlan{Limit: -1}}
	switch c.Kind {
	case "too-many":
		plan.Status = []harness.StatusCall{{Rcpt: "a@x"}, {Rcpt: "a@x"}, {Rcpt: "a@x"}}
	case "unknown":
		plan.Status = []harness.StatusCall{{Rcpt: "nobody@x"}}
	}
	r := harness.NewRig(harness.Config{LMTP: true}, harness.Script{LMTPSession: true, Data: []harness.DataPlan{plan}})
	w, _ := r.Dial()
	w.WaitQuiet()
	msg := "hello\r\n"
	body := "LHLO cli\r\nMAIL FROM:<s@x>\r\nRCPT TO:<a@x>\r\nRCPT TO:<b@x>\r\n"
	if c.Chunks == 0 {
		body += "DATA\r\n" + msg + ".\r\nVRFY marker\r\n"
	} else {
		body += fmt.Sprintf("BDAT %d LAST\r\n%sVRFY marker\r\n", len(msg), msg)
	}
	w.Send([]byte(body))
	if st := w.WaitQuiet(); st == harness.QWatchdog {
		stacks := harness.BlockedStacks(harness.ServerGoroutines())
		w.Finish()
		if len(stacks) > 0 {
			return failf("deadlock", "backend misuse (%s) wedges the server:\n%s", c.Kind, stacks[0])
		}
		return Verdict{Inconclusive: "watchdog"}
	}
	_, fin := w.Finish()
	if !fin {
		return finishFail(w)
	}
	if _, err := harness.ParseReplies(w.Out); err != nil {
		return failf("reply-syntax", "misuse %s: replies do not parse: %v", c.Kind, err)
	}
	return Verdict{NonTrivial: true, Classes: []string{"misuse_" + c.Kind}}
}

// ---- a transport without buffering, a client that reads after it has written ----

type c13PipeCase struct {
	PerRcpt   bool `json:"per_rcpt"`
	NRcpt     int  `json:"nrcpt"`      // 1..3 accepted recipients (a@x, b@x, a@x)
	ReadLimit int  `json:"read_limit"` // octets the backend reads before it returns (-1 = the whole message)
	RetErr    bool `json:"ret_err"`
	SetFirst  bool `json:"set_first"` // per-recipient backend: a status for the first recipient is set before returning
	BDAT      bool `json:"bdat"`
	BodyLines int  `json:"body_lines"`
}

// c13PipeRun: client and server are connected by a transport that buffers
// nothing (every Write waits for the peer's Read: net.Pipe), and the client is
// a sequential one: it writes the whole message and only then reads the
// replies. What is judged: the conversation completes with one reply per
// recipient, or - a server-internal deadlock - the client waits for a reply
// while every goroutine serving the connection is parked on a channel or
// lock. A server that starts to answer while octets of the message are still
// outstanding stalls this transport (it cannot finish its write, the client
// not its own): detected as a state, reported as unspecified (see below).
func c13PipeRun(c c13PipeCase) Verdict {
	addrs := []string{"a@x", "b@x", "a@x"}[:c.NRcpt]
	plan := harness.DataPlan{Read: harness.ReadPlan{Limit: c.ReadLimit}}
	if c.RetErr {
		plan.Result = harness.Decision{Kind: "smtp", Code: 552, Enh: [3]int{5, 3, 4}, Msg: "return-value-error"}
	}
	if c.PerRcpt && c.SetFirst {
		plan.Status = []harness.StatusCall{{Rcpt: addrs[0], D: harness.Decision{Kind: "smtp", Code: 550, Enh: [3]int{5, 2, 0}, Msg: "status-call-0"}}}
	}
	r := harness.NewRig(harness.Config{LMTP: true}, harness.Script{LMTPSession: c.PerRcpt, Data: []harness.DataPlan{plan}})
	cl, sv := r.L.Dial()
	cl.SetSynchronous(true)
	sv.SetSynchronous(true)
	msg := strings.Repeat("a line of the message, forty octets long\r\n", c.BodyLines)
	var finals []harness.Reply
	var clientErr string
	done := make(chan struct{})
	go func() {
		defer func() {
			r.Hub.Lock()
			close(done)
			r.Hub.Unlock()
			r.Hub.Broadcast()
		}()
		br := bufio.NewReader(cl)
		reply := func() (harness.Reply, bool) {
			var raw []byte
			for {
				l, err := br.ReadBytes('\n')
				raw = append(raw, l...)
				if err != nil {
					clientErr = "read: " + err.Error()
					return harness.Reply{}, false
				}
				if len(l) >= 4 && l[3] == ' ' {
					break
				}
			}
			rs, err := harness.ParseReplies(raw)
			if err != nil || len(rs) != 1 {
				clientErr = fmt.Sprintf("reply syntax: %v (%s)", err, q(raw))
				return harness.Reply{}, false
			}
			return rs[0], true
		}
		step := func(line string, want int) bool {
			if _, err := cl.Write([]byte(line)); err != nil {
				clientErr = "write: " + err.Error()
				return false
			}
			rp, ok := reply()
			if ok && rp.Code != want {
				clientErr = fmt.Sprintf("%q answered %s", line, rp)
				return false
			}
			return ok
		}
		if _, ok := reply(); !ok {
			return
		}
		if !step("LHLO cli\r\n", 250) || !step("MAIL FROM:<s@x>\r\n", 250) {
			return
		}
		for _, a := range addrs {
			if !step("RCPT TO:<"+a+">\r\n", 250) {
				return
			}
		}
		var werr error
		if c.BDAT {
			_, werr = cl.Write([]byte(fmt.Sprintf("BDAT %d LAST\r\n%s", len(msg), msg)))
		} else {
			if !step("DATA\r\n", 354) {
				return
			}
			// the whole message, then - and only then - the replies
			_, werr = cl.Write([]byte(msg + ".\r\n"))
		}
		if werr != nil {
			clientErr = "write of the message: " + werr.Error()
			return
		}
		for range addrs {
			rp, ok := reply()
			if !ok {
				return
			}
			finals = append(finals, rp)
		}
		step("QUIT\r\n", 221)
	}()
	finished, stuck := false, false
	w := &harness.Wire{R: r, C: cl, S: sv}
	parked := ""
	for deadline := time.Now().Add(harness.Watchdog); !finished && !stuck && parked == "" && time.Now().Before(deadline); {
		clientWaits, bothWrite := false, false
		r.Hub.WaitUntil(func() bool {
			select {
			case <-done:
				finished = true
				return true
			default:
			}
			if cl.BlockedInWriteLocked() && sv.BlockedInWriteLocked() {
				bothWrite = true
				return true
			}
			clientWaits = cl.BlockedInReadLocked()
			return false
		}, 50*time.Millisecond)
		if !finished && bothWrite {
			// (transiently true whenever an early LMTP reply is written while
			// the delivery is still reading: look at the goroutines)
			if stuck = w.FlowStallNow(); !stuck {
				time.Sleep(200 * time.Microsecond)
			}
			continue
		}
		if !finished && !stuck && clientWaits {
			// the client waits for a reply: is anybody going to write one?
			parked = w.DeadlockNow()
		}
	}
	if !finished {
		cl.Abort()
		<-done
	}
	cl.Close()
	if parked != "" {
		w.GiveUp()
	} else {
		r.B.ReleaseAll()
		r.Shutdown()
	}
	v := Verdict{NonTrivial: c.ReadLimit >= 0, Classes: []string{"unbuffered_transport"}}
	if c.ReadLimit >= 0 {
		v.Classes = append(v.Classes, "backend_returns_before_end_of_message")
	}
	if c.BDAT {
		v.Classes = append(v.Classes, "via_bdat")
	}
	if stuck {
		// The server answers while octets of the message are still
		// outstanding, the client reads only after it has written: on this
		// transport neither gets on. Stock go-smtp does the same for a refused
		// BDAT (reply first, discard afterwards), and no property says when a
		// reply may be written relative to input the peer is still sending:
		// unspecified, not a violation of "never deadlocks" (which speaks of
		// the status bookkeeping inside the server).
		v.Classes = append(v.Classes, "reply_before_the_message_was_read_flow_stall_unspecified")
		return v
	}
	if parked != "" {
		return failf("deadlock", "the server is deadlocked: the client waits for a reply and every goroutine serving the connection is parked on a channel or lock:\n%s", trimTo(parked, 2000))
	}
	if !finished {
		return Verdict{Inconclusive: "watchdog in the sequential client"}
	}
	if p := r.Log.Panicked(); p != "" {
		return failf("panic", "server logged a panic: %s", p)
	}
	if clientErr != "" {
		return failf("conversation", "sequential client over an unbuffered transport: %s (final replies so far %v)", clientErr, codes(finals))
	}
	if len(finals) != len(addrs) {
		return failf("reply-count", "%d final replies for %d recipients", len(finals), len(addrs))
	}
	for i, rp := range finals {
		if !strings.Contains(strings.Join(rp.Lines, "\n"), "<"+addrs[i]+">") {
			return failf("attribution", "final reply %d (%s) does not name recipient %d <%s>", i, rp, i, addrs[i])
		}
	}
	return v
}

var (
	c13Pipe   *subCheck[c13PipeCase]
	c13Sub    *subCheck[c13Case]
	c13Enum   *subCheck[c13Case]
	c13Misuse *subCheck[c13MisuseCase]
)

func init() {
	registrars = append(registrars, func() {
		c13Sub = newSub("C13", "rapid", c13Run)
		c13Enum = newSub("C13", "enum", c13Run)
		c13Misuse = newSub("C13", "misuse", c13MisuseRun)
		c13Pipe = newSub("C13", "pipe", c13PipeRun)
	})
}

func TestC13(t *testing.T) {
	registerAll()
	st.Rule = "cases = (RCPT sequence up to 4 over 2 addresses with rejections, SetStatus script = sub-multiset of the accepted occurrences in any order with nil/unique-error statuses set before/after the message is read, return value, backend panic before/after the statuses, DATA or BDAT in 1-2 chunks, per-recipient or plain backend, early return, pipelined or not); plus a sequential client (writes the whole message, then reads) over a transport without buffering (net.Pipe semantics) against backends that return before the end of the message; oracle = pure function of the script; non-trivial = duplicate address OR statuses out of RCPT order OR a strict subset set; distinct = hash of the whole case"
	if !regress(t, "C13") {
		return
	}
	idx := 0
	for _, k := range []string{"too-many", "unknown"} {
		for ch := 0; ch <= 1; ch++ {
			idx++
			if mine(idx) && !c13Misuse.one(t, c13MisuseCase{Kind: k, Chunks: ch}) {
				return
			}
		}
	}
	// unbuffered transport, sequential client: small complete enumeration
	for _, per := range []bool{false, true} {
		for n := 1; n <= 3; n++ {
			for _, rl := range []int{-1, 0, 16, 100} {
				for _, bdat := range []bool{false, true} {
					for _, lines := range []int{1, 40, 3500} {
						idx++
						if !mine(idx) {
							continue
						}
						if lines == 3500 && !thorough() && idx%4 != 0 {
							continue
						}
						if !c13Pipe.one(t, c13PipeCase{PerRcpt: per, NRcpt: n, ReadLimit: rl, RetErr: idx%2 == 0, SetFirst: idx%3 != 0, BDAT: bdat, BodyLines: lines}) {
							return
						}
					}
				}
			}
		}
	}
	// enumeration: all RCPT sequences up to maxN over 2 addresses (all accepted) x all ordered
	// sub-multisets of occurrences x transfer kind, statuses alternating error/nil, timing by parity
	maxN := pickTier(3, 4)
	complete := true
	var seqs [][]string
	var gen func(cur []string)
	gen = func(cur []string) {
		if len(cur) > 0 {
			seqs = append(seqs, append([]string(nil), cur...))
		}
		if len(cur) == maxN {
			return
		}
		gen(append(cur, "a@x"))
		gen(append(cur, "b@x"))
	}
	gen(nil)
	for _, sq := range seqs {
		var orders [][]int
		var perm func(cur []int, used uint)
		perm = func(cur []int, used uint) {
			orders = append(orders, append([]int(nil), cur...))
			for i := range sq {
				if used&(1<<uint(i)) == 0 {
					perm(append(cur, i), used|1<<uint(i))
				}
			}
		}
		perm(nil, 0)
		for oi, ord := range orders {
			for ch := 0; ch <= 2; ch++ {
				idx++
				if !mine(idx) || !complete {
					continue
				}
				c := c13Case{PerRcpt: true, Chunks: ch, RetErr: (oi+ch)%2 == 0, Pipeline: oi%2 == 0}
				for _, a := range sq {
					c.Rcpts = append(c.Rcpts, c13Rcpt{Addr: a})
				}
				for si, occ := range ord {
					c.Status = append(c.Status, c13Status{Occ: occ, OK: (si+oi)%3 == 0, AfterRead: (si+oi)%2 == 0})
				}
				if !c13Enum.one(t, c) {
					complete = false
				}
			}
		}
	}
	st.Exhaustive["enum"] = complete
	if !complete {
		return
	}
	c13Sub.rapidCheck(t, pickTier(12000, 120000), c13Gen)
}
