package props

import (
	"bufio"
	"bytes"
	"crypto/tls"
	"fmt"
	"io"
	"net"
	"strings"
	"sync"
	"testing"
	"time"

	"github.com/emersion/go-sasl"
	"github.com/emersion/go-smtp"
	"pgregory.net/rapid"

	"verif/harness"
)

// C10 - STARTTLS discards all plaintext state and input, on server and client.

// ---- server half ----

type c10Case struct {
	TLS     string   `json:"tls"` // "", "starttls", "implicit"
	LMTP    bool     `json:"lmtp,omitempty"`
	Pre     string   `json:"pre"`    // none greeted authed txn bdat
	Suffix  []string `json:"suffix"` // plaintext lines injected behind STARTTLS in the same segment
	Probes  []string `json:"probes"` // commands sent inside TLS
	GateDel bool     `json:"gate_delivery,omitempty"`
	// LogoutErr: the backend's Logout returns an error (it has nobody to
	// report it to; nothing may depend on it)
	LogoutErr bool `json:"logout_err,omitempty"`
	// Limit: MaxMessageBytes (0 none). The plaintext chunk of the "bdat"
	// state has 5 octets, the TLS-side messages 0, 6 or 10: with a limit of 10
	// each fits on its own, but not on top of what was counted in plaintext.
	Limit int64 `json:"limit,omitempty"`
}

func c10Run(c c10Case) Verdict {
	lmtp := c.LMTP
	g := greetWord(lmtp)
	cfg := harness.Config{LMTP: lmtp, TLS: c.TLS, AllowInsecureAuth: true, MaxMessageBytes: c.Limit}
	script := harness.Script{AuthSession: true, Mechs: []string{"PLAIN"}, LMTPSession: lmtp,
		SASL: []harness.SASLScript{{SkipChallengesWithIR: true}, {SkipChallengesWithIR: true}, {SkipChallengesWithIR: true}}}
	if c.GateDel {
		script.Data = []harness.DataPlan{{Read: harness.ReadPlan{Limit: -1}, Honest: true, GatePost: true}}
	}
	script.LogoutErr = c.LogoutErr
	r := harness.NewRig(cfg, script)
	w, err := r.Dial()
	if err != nil {
		w.Finish()
		return Verdict{Inconclusive: "dial: " + err.Error()}
	}
	if st := w.WaitQuiet(); st != harness.QIdle {
		w.Finish()
		return Verdict{Inconclusive: "server not idle after connect: " + st}
	}
	w.Recv()
	fail := func(v Verdict) Verdict { w.Finish(); return v }
	var pre []string
	switch c.Pre {
	case "greeted":
		pre = []string{g + " plainname"}
	case "authed":
		pre = []string{g + " plainname", "AUTH PLAIN AHUAcHc="}
	case "txn":
		pre = []string{g + " plainname", "MAIL FROM:<plain@x>", "RCPT TO:<plainrcpt@x>"}
	case "bdat":
		pre = []string{g + " plainname", "MAIL FROM:<plain@x>", "RCPT TO:<plainrcpt@x>", "BDAT 5\r\nhello"}
	}
	for _, l := range pre {
		b := []byte(l + "\r\n")
		if strings.HasPrefix(l, "BDAT") {
			b = []byte(l)
		}
		out, st := w.Exchange(b)
		rs, perr := harness.ParseReplies(out)
		if perr != nil || len(rs) != 1 || rs[0].Class() != 2 || (st != harness.QIdle && st != harness.QGate) {
			return fail(Verdict{Inconclusive: fmt.Sprintf("pre-STARTTLS command %q: %v %v %s", l, codes(rs), perr, st)})
		}
	}
	seg := "STARTTLS\r\n"
	for _, l := range c.Suffix {
		seg += l + "\r\n"
	}
	w.Send([]byte(seg))
	// a gated delivery of the open chunked transfer is released by the harness
	quiesce := func() string {
		for i := 0; i < 5; i++ {
			st := w.WaitQuiet()
			if st == harness.QGate {
				r.B.ReleaseArrived()
				continue
			}
			return st
		}
		return harness.QWatchdog
	}
	st := quiesce()
	out := w.Recv()
	if st != harness.QIdle && !(st == harness.QClosed && c.TLS != "starttls") {
		return fail(Verdict{Inconclusive: "after STARTTLS: " + st})
	}
	rs, perr := harness.ParseReplies(out)
	v := Verdict{NonTrivial: len(c.Suffix) > 0, Classes: []string{"pre_" + c.Pre, "tls_" + c.TLS}}
	if len(c.Suffix) > 0 {
		v.Classes = append(v.Classes, "injected_suffix")
	}
	if c.LogoutErr {
		v.Classes = append(v.Classes, "logout_returns_error")
	}
	wantAccept := c.TLS == "starttls"
	if perr != nil || len(rs) < 1 {
		return fail(failf("starttls-reply", "STARTTLS: %v %v", codes(rs), perr))
	}
	if !wantAccept {
		// not configured or already active: refused, and the rest of the
		// segment is ordinary pipelined input
		if rs[0].Class() != 5 {
			return fail(failf("starttls-accepted", "STARTTLS answered %s although TLS is %q", rs[0], c.TLS))
		}
		w.Finish()
		return v
	}
	if rs[0].Code != 220 {
		return fail(failf("starttls-refused", "TLS is configured and not active, but STARTTLS was answered %s", rs[0]))
	}
	if len(rs) != 1 {
		return fail(failf("suffix-answered", "plaintext injected behind STARTTLS was answered in plaintext: %v (%s)", codes(rs), q(out)))
	}
	if err := w.StartTLS(); err != nil {
		return fail(failf("handshake", "TLS handshake after 220 failed: %v", err))
	}
	if st := quiesce(); st != harness.QIdle {
		return fail(Verdict{Inconclusive: "after handshake: " + st})
	}
	if extra := w.Recv(); len(extra) != 0 {
		return fail(failf("suffix-answered", "unsolicited output inside TLS right after the handshake (caused by injected plaintext?): %s", q(extra)))
	}
	nevAtUpgrade := len(r.B.Events())
	// probes inside TLS
	greeted, authed := false, false
	txn := false
	nrcpt := 0
	for _, p := range c.Probes {
		line := p
		switch p {
		case "EHLO":
			line = g + " tlsname"
		}
		wire := line + "\r\n"
		if p == "BDAT 6 LAST" {
			wire += "tlsmsg"
		}
		out, st := w.Exchange([]byte(wire))
		prs, perr := harness.ParseReplies(out)
		wantN := 1
		if lmtp && nrcpt > 1 && strings.HasPrefix(p, "BDAT") {
			wantN = nrcpt // LMTP: one final reply per accepted recipient
		}
		if perr != nil || len(prs) != wantN || (st != harness.QIdle && st != harness.QClosed) {
			return fail(failf("probe-reply", "inside TLS, %q: %v %v %s", line, codes(prs), perr, st))
		}
		rp := prs[0]
		switch {
		case p == "EHLO":
			if rp.Code != 250 {
				return fail(failf("probe-reply", "greeting inside TLS answered %s", rp))
			}
			greeted, txn, nrcpt = true, false, 0
			for _, l := range rp.Lines[1:] {
				if l == "STARTTLS" {
					return fail(failf("starttls-offered-in-tls", "STARTTLS advertised inside TLS"))
				}
			}
		case strings.HasPrefix(p, "MAIL"):
			if !greeted {
				if rp.Class() != 5 {
					return fail(failf("remembered-greeting", "MAIL before a new greeting inside TLS answered %s: the plaintext greeting is remembered", rp))
				}
			} else if txn {
				// a second MAIL inside an open transaction: refused (503) or
				// accepted (with or without the TLS-side recipients so far),
				// all are answers
				if rp.Class() != 2 && rp.Class() != 5 {
					return fail(failf("probe-reply", "second MAIL inside a TLS-side transaction answered %s", rp))
				}
			} else if rp.Code != 250 {
				return fail(failf("probe-reply", "MAIL inside TLS answered %s", rp))
			} else {
				txn = true
			}
		case strings.HasPrefix(p, "RCPT"):
			if !txn && rp.Class() != 5 {
				return fail(failf("remembered-envelope", "RCPT without a MAIL inside TLS answered %s: the plaintext envelope is remembered", rp))
			}
			if txn && rp.Class() == 2 {
				nrcpt++
			}
		case p == "DATA" || strings.HasPrefix(p, "BDAT"):
			if nrcpt == 0 {
				if rp.Class() != 5 {
					return fail(failf("remembered-envelope", "%s inside TLS without recipients answered %s: the plaintext envelope is remembered", p, rp))
				}
				break
			}
			// a complete TLS-side envelope: the message goes through
			if p == "DATA" {
				if rp.Code != 354 {
					return fail(failf("probe-reply", "DATA inside TLS with recipients answered %s", rp))
				}
				fo, _ := w.Exchange([]byte("tls body\r\n.\r\n"))
				frs, ferr := harness.ParseReplies(fo)
				wantF := 1
				if lmtp {
					wantF = nrcpt
				}
				if ferr != nil || len(frs) != wantF {
					return fail(failf("probe-reply", "message inside TLS: %d final replies expected, got %v %v", wantF, codes(frs), ferr))
				}
				for _, fr := range frs {
					if fr.Code != 250 {
						return fail(failf("remembered-transfer", "a message sent inside TLS with a complete TLS-side envelope was answered %s: something of the plaintext transfer is remembered", fr))
					}
				}
			} else {
				for _, fr := range prs {
					if fr.Code != 250 {
						return fail(failf("remembered-transfer", "%s inside TLS with a complete TLS-side envelope was answered %s: something of the plaintext transfer (octet count, recipient statuses) is remembered", p, fr))
					}
				}
			}
			txn, nrcpt = false, 0
		case strings.HasPrefix(p, "AUTH"):
			switch {
			case !greeted:
				if rp.Class() != 5 {
					return fail(failf("remembered-greeting", "AUTH before a new greeting inside TLS answered %s", rp))
				}
			case authed:
				if rp.Code != 503 {
					return fail(failf("probe-reply", "second AUTH inside TLS answered %s", rp))
				}
			case txn:
				// AUTH inside a mail transaction may be refused (RFC 4954: 503)
				if rp.Code == 235 {
					authed = true
				} else if rp.Class() != 5 {
					return fail(failf("probe-reply", "AUTH inside a TLS-side transaction answered %s", rp))
				}
			default:
				if rp.Code != 235 {
					return fail(failf("remembered-auth", "AUTH inside TLS after a new greeting answered %s (plaintext authentication remembered?)", rp))
				}
				authed = true
			}
		case p == "STARTTLS":
			if rp.Class() != 5 {
				return fail(failf("starttls-twice", "STARTTLS inside TLS answered %s", rp))
			}
		}
	}
	_, fin := w.Finish()
	if !fin {
		return finishFail(w)
	}
	if p := r.Log.Panicked(); p != "" {
		return failf("panic", "server logged a panic: %s", p)
	}
	evs := r.B.Events()
	// nothing from the injected suffix ever reached the backend
	for _, e := range evs {
		if strings.Contains(e.From, "inj") || strings.Contains(e.To, "inj") || strings.Contains(e.Hostname, "inj") {
			return failf("suffix-executed", "plaintext injected behind STARTTLS reached the backend: %s", e)
		}
	}
	// the plaintext session is logged out by the upgrade, the next greeting
	// creates a session that sees TLS and the new name
	if c.Pre != "none" {
		lo := eventsOf(evs[:nevAtUpgrade], "Logout", true)
		if len(lo) != 1 || lo[0].Sess != 0 {
			return failf("no-logout", "the plaintext session was not logged out by STARTTLS; trace %s", traceString(evs[:nevAtUpgrade]))
		}
	}
	for _, e := range evs[nevAtUpgrade:] {
		if e.CB == "NewSession" && e.Begin {
			if !e.TLS || e.Hostname != "tlsname" {
				return failf("newsession-state", "session created after the upgrade observed TLS=%v Hostname=%q, want true/\"tlsname\"", e.TLS, e.Hostname)
			}
		}
		if e.Sess == 0 && c.Pre != "none" && e.Begin {
			return failf("old-session-used", "the plaintext session is used after the upgrade: %s", e)
		}
	}
	if bad := sessionInvariants(evs, r.Leftover); bad != nil {
		return *bad
	}
	return v
}

func c10Gen(t *rapid.T) c10Case {
	c := c10Case{TLS: rapid.SampledFrom([]string{"starttls", "starttls", "starttls", "", "implicit"}).Draw(t, "tls"), LMTP: rapid.IntRange(0, 3).Draw(t, "lmtp") == 0}
	c.Pre = rapid.SampledFrom([]string{"none", "greeted", "authed", "txn", "bdat"}).Draw(t, "pre")
	c.GateDel = c.Pre == "bdat" && rapid.Bool().Draw(t, "gate")
	c.LogoutErr = rapid.IntRange(0, 2).Draw(t, "logout_err") == 0
	inj := []string{"MAIL FROM:<inj@x>", "RCPT TO:<inj@x>", "EHLO inj", "LHLO inj", "DATA", "inj body", ".", "NOOP", "AUTH PLAIN AGluagBwdw==", "RSET", "QUIT", "STARTTLS", "BDAT 3 LAST", "inj"}
	for i, n := 0, rapid.IntRange(0, 5).Draw(t, "nsfx"); i < n; i++ {
		c.Suffix = append(c.Suffix, rapid.SampledFrom(inj).Draw(t, "sfx"))
	}
	probes := []string{"EHLO", "MAIL FROM:<tls@x>", "RCPT TO:<tlsr@x>", "DATA", "BDAT 0 LAST", "BDAT 6 LAST", "AUTH PLAIN AHUAcHc=", "STARTTLS", "NOOP"}
	if rapid.Bool().Draw(t, "guided_probes") {
		// a complete transaction inside TLS, then anything
		c.Probes = []string{"EHLO", "MAIL FROM:<tls@x>", "RCPT TO:<tlsr@x>"}
		if rapid.Bool().Draw(t, "two_rcpts") {
			c.Probes = append(c.Probes, "RCPT TO:<tlsr@x>")
		}
		c.Probes = append(c.Probes, rapid.SampledFrom([]string{"DATA", "BDAT 0 LAST", "BDAT 6 LAST", "BDAT 6 LAST"}).Draw(t, "deliver"))
	}
	for i, n := 0, rapid.IntRange(0, 7).Draw(t, "nprobes"); i < n; i++ {
		c.Probes = append(c.Probes, rapid.SampledFrom(probes).Draw(t, "probe"))
	}
	if rapid.IntRange(0, 2).Draw(t, "limit") == 0 {
		c.Limit = 10
	}
	return c
}

// ---- client half: misbehaving servers ----

type c10ClientCase struct {
	Server string `json:"server"` // nostarttls refuse454 refuse502 garbage injected ok
	Entry  string `json:"entry"`  // newclient dial sendmail sendmail-auth
}

// fakeServer is a scripted SMTP server for one connection. It records every
// octet the client sends before the TLS session exists.
type fakeServer struct {
	mode    string
	mu      sync.Mutex
	plainIn []byte   // raw octets received outside TLS
	tlsCmds []string // command lines received inside TLS
	done    chan struct{}
}

type recordingConn struct {
	net.Conn
	fs *fakeServer
}

func (r recordingConn) Read(p []byte) (int, error) {
	n, err := r.Conn.Read(p)
	r.fs.mu.Lock()
	r.fs.plainIn = append(r.fs.plainIn, p[:n]...)
	r.fs.mu.Unlock()
	return n, err
}

func (fs *fakeServer) serve(conn net.Conn) {
	defer close(fs.done)
	defer conn.Close()
	conn.SetDeadline(time.Now().Add(harness.Watchdog))
	rc := recordingConn{Conn: conn, fs: fs}
	br := bufio.NewReader(rc)
	io.WriteString(conn, "220 fake ESMTP\r\n")
	for {
		line, err := br.ReadString('\n')
		if err != nil {
			return
		}
		verb := strings.ToUpper(strings.TrimSpace(line))
		switch {
		case strings.HasPrefix(verb, "EHLO"), strings.HasPrefix(verb, "LHLO"):
			caps := "250-fake\r\n250-PIPELINING\r\n250-8BITMIME\r\n250-XPLAIN\r\n250-AUTH PLAIN\r\n"
			if fs.mode != "nostarttls" {
				caps += "250-STARTTLS\r\n"
			}
			io.WriteString(conn, caps+"250 SIZE 1000\r\n")
		case strings.HasPrefix(verb, "HELO"):
			io.WriteString(conn, "250 fake\r\n")
		case verb == "STARTTLS":
			switch fs.mode {
			case "refuse454":
				io.WriteString(conn, "454 4.7.0 TLS not available\r\n")
				continue
			case "refuse502", "nostarttls":
				io.WriteString(conn, "502 5.5.1 no\r\n")
				continue
			case "garbage":
				io.WriteString(conn, "220 2.0.0 go ahead\r\n")
				// wait for the ClientHello, then answer with plaintext instead of a handshake
				rc.Read(make([]byte, 4096))
				io.WriteString(conn, "this is not a TLS handshake, just plaintext garbage\r\n250 OK\r\n250 OK\r\n250 OK\r\n354 go\r\n250 OK\r\n")
				// keep reading whatever the client says next (all of it is recorded)
				io.Copy(io.Discard, rc)
				return
			case "injected":
				io.WriteString(conn, "220 2.0.0 go ahead\r\n250-injected\r\n250-XINJECTED\r\n250 AUTH PLAIN LOGIN\r\n")
			default:
				io.WriteString(conn, "220 2.0.0 go ahead\r\n")
			}
			// genuine TLS from here; what was buffered in plaintext is dropped
			tc := tls.Server(conn, harness.ServerTLS())
			if err := tc.Handshake(); err != nil {
				return
			}
			fs.serveTLS(tc)
			return
		case verb == "QUIT":
			io.WriteString(conn, "221 2.0.0 bye\r\n")
			return
		default:
			// a client that gets here is already leaking; answer positively so
			// that it keeps going and the leak is recorded in full
			if verb == "DATA" {
				io.WriteString(conn, "354 go\r\n")
			} else {
				io.WriteString(conn, "250 2.0.0 OK\r\n")
			}
		}
	}
}

func (fs *fakeServer) serveTLS(tc *tls.Conn) {
	br := bufio.NewReader(tc)
	inData := false
	for {
		line, err := br.ReadString('\n')
		if err != nil {
			return
		}
		l := strings.TrimRight(line, "\r\n")
		if inData {
			if l == "." {
				inData = false
				io.WriteString(tc, "250 2.0.0 queued\r\n")
			}
			continue
		}
		fs.mu.Lock()
		fs.tlsCmds = append(fs.tlsCmds, l)
		fs.mu.Unlock()
		verb := strings.ToUpper(l)
		switch {
		case strings.HasPrefix(verb, "EHLO") && fs.mode == "tlshelo":
			// inside TLS this server only speaks HELO
			io.WriteString(tc, "502 5.5.1 EHLO not implemented\r\n")
		case strings.HasPrefix(verb, "HELO"):
			io.WriteString(tc, "250 fake\r\n")
		case strings.HasPrefix(verb, "EHLO") && fs.mode == "tlsbare":
			// inside TLS the EHLO reply is the greeting line alone: no extensions
			io.WriteString(tc, "250 fake\r\n")
		case strings.HasPrefix(verb, "EHLO"):
			io.WriteString(tc, "250-fake\r\n250-XTLSONLY\r\n250-AUTH PLAIN\r\n250 8BITMIME\r\n")
		case strings.HasPrefix(verb, "AUTH"):
			io.WriteString(tc, "235 2.0.0 ok\r\n")
		case verb == "DATA":
			inData = true
			io.WriteString(tc, "354 go\r\n")
		case verb == "QUIT":
			io.WriteString(tc, "221 2.0.0 bye\r\n")
			return
		default:
			io.WriteString(tc, "250 2.0.0 OK\r\n")
		}
	}
}

var c10Secrets = []string{"MAIL FROM", "RCPT TO", "AUTH PLAIN", "AUTH ", "s3cretpw", "czNjcmV0cHc", "TOPSECRETBODY", "DATA\r\n", "sender@example", "rcpt@example"}

func c10ClientRun(c c10ClientCase) Verdict {
	fs := &fakeServer{mode: c.Server, done: make(chan struct{})}
	var (
		extTLS, extPlain, extInj bool
		authLogin, authPlain     bool
		maxSize                  int
		maxSizeOK                bool
		callErr                  error
		hung                     bool
	)
	from, to := "sender@example.org", []string{"rcpt@example.org"}
	body := "Subject: x\r\n\r\nTOPSECRETBODY\r\n"
	switch c.Entry {
	case "newclient":
		hub := harness.NewHub()
		cl, sv := harness.Pair(hub)
		go fs.serve(sv)
		res := make(chan struct{})
		go func() {
			defer close(res)
			client, err := smtp.NewClientStartTLS(cl, harness.ClientTLS())
			callErr = err
			if err == nil {
				extTLS, _ = client.Extension("XTLSONLY")
				extPlain, _ = client.Extension("XPLAIN")
				extInj, _ = client.Extension("XINJECTED")
				authLogin, authPlain = client.SupportsAuth("LOGIN"), client.SupportsAuth("plain")
				maxSize, maxSizeOK = client.MaxMessageSize()
				callErr = client.SendMail(from, to, strings.NewReader(body))
				client.Quit()
				client.Close()
			}
		}()
		select {
		case <-res:
		case <-time.After(harness.Watchdog):
			hung = true
			cl.Abort()
			<-res
		}
		cl.Close()
	default:
		ln, err := net.Listen("tcp", "127.0.0.1:0")
		if err != nil {
			return Verdict{Inconclusive: "listen: " + err.Error()}
		}
		defer ln.Close()
		go func() {
			conn, err := ln.Accept()
			if err != nil {
				close(fs.done)
				return
			}
			fs.serve(conn)
		}()
		addr := ln.Addr().String()
		res := make(chan struct{})
		go func() {
			defer close(res)
			switch c.Entry {
			case "dial":
				client, err := smtp.DialStartTLS(addr, harness.ClientTLS())
				callErr = err
				if err == nil {
					extTLS, _ = client.Extension("XTLSONLY")
					extPlain, _ = client.Extension("XPLAIN")
					extInj, _ = client.Extension("XINJECTED")
					authLogin, authPlain = client.SupportsAuth("LOGIN"), client.SupportsAuth("plain")
					maxSize, maxSizeOK = client.MaxMessageSize()
					callErr = client.SendMail(from, to, strings.NewReader(body))
					client.Quit()
					client.Close()
				}
			case "sendmail":
				callErr = smtp.SendMail(addr, nil, from, to, strings.NewReader(body))
			case "sendmail-auth":
				callErr = smtp.SendMail(addr, sasl.NewPlainClient("", "user", "s3cretpw"), from, to, strings.NewReader(body))
			}
		}()
		select {
		case <-res:
		case <-time.After(harness.Watchdog):
			hung = true
		}
	}
	select {
	case <-fs.done:
	case <-time.After(harness.Watchdog):
		return Verdict{Inconclusive: "fake server did not finish"}
	}
	if hung {
		return Verdict{Inconclusive: "client call did not return (watchdog)"}
	}
	fs.mu.Lock()
	plain := append([]byte(nil), fs.plainIn...)
	cmds := append([]string(nil), fs.tlsCmds...)
	fs.mu.Unlock()
	v := Verdict{NonTrivial: c.Server != "ok", Classes: []string{"server_" + c.Server, "entry_" + c.Entry}}
	// never envelope, credentials or content in plaintext
	for _, s := range c10Secrets {
		if bytes.Contains(plain, []byte(s)) {
			return failf("plaintext-leak", "server %q, entry %s: the client wrote %q outside TLS; plaintext octets received: %s", c.Server, c.Entry, s, q(plain))
		}
	}
	bare := c.Server == "tlshelo" || c.Server == "tlsbare" // nothing is offered inside TLS
	success := c.Server == "ok" || c.Server == "injected" || bare
	if !success {
		if callErr == nil {
			return failf("no-error", "server %q: STARTTLS did not succeed but the client call returned nil", c.Server)
		}
		if len(cmds) != 0 {
			return failf("tls-after-failure", "commands inside TLS although the upgrade must have failed: %q", cmds)
		}
		return v
	}
	if bare && c.Entry == "sendmail-auth" {
		// the TLS side offers no AUTH: SendMail has to give up, and must not have sent credentials
		if callErr == nil {
			return failf("stale-capabilities", "SendMail with credentials succeeded although the TLS side offers no AUTH; commands inside TLS: %q", cmds)
		}
		for _, l := range cmds {
			if strings.HasPrefix(strings.ToUpper(l), "AUTH") {
				return failf("stale-capabilities", "credentials sent inside TLS to a server that offered AUTH only in plaintext: %q", l)
			}
		}
		return v
	}
	// positive control: with a working upgrade the envelope does flow, inside TLS
	if callErr != nil {
		return failf("upgrade-failed", "server %q, entry %s: upgrade should succeed but the call returned %v (TLS-side commands %q)", c.Server, c.Entry, callErr, cmds)
	}
	if len(cmds) == 0 || !strings.HasPrefix(strings.ToUpper(cmds[0]), "EHLO") {
		return failf("no-ehlo-after-upgrade", "first command inside TLS is %q, want a new EHLO", cmds)
	}
	joined := strings.Join(cmds, "\n")
	if bare {
		// inside TLS nothing was offered (HELO only, or an EHLO reply without
		// extension lines): nothing learned in plaintext may be used
		for _, l := range cmds {
			u := strings.ToUpper(l)
			if strings.HasPrefix(u, "AUTH") || (strings.HasPrefix(u, "MAIL FROM") && strings.Contains(u, "BODY=")) {
				return failf("stale-capabilities", "inside TLS the server offered no extensions, but the client sent %q - a capability it only learned in plaintext", l)
			}
		}
		if (c.Entry == "newclient" || c.Entry == "dial") && (extPlain || extTLS) {
			return failf("stale-capabilities", "server %q offers nothing inside TLS, yet Extension() still reports capabilities (XPLAIN=%v)", c.Server, extPlain)
		}
		if (c.Entry == "newclient" || c.Entry == "dial") && (authPlain || authLogin || maxSizeOK) {
			return failf("stale-capabilities", "server %q offers nothing inside TLS, yet SupportsAuth(PLAIN)=%v SupportsAuth(LOGIN)=%v MaxMessageSize=(%d,%v): capabilities learned in plaintext", c.Server, authPlain, authLogin, maxSize, maxSizeOK)
		}
		return v
	}
	if !strings.Contains(joined, "MAIL FROM:<sender@example.org>") || !strings.Contains(joined, "RCPT TO:<rcpt@example.org>") {
		return failf("control", "positive control failed: envelope not seen inside TLS: %q", cmds)
	}
	if c.Entry == "sendmail-auth" && !strings.Contains(joined, "AUTH PLAIN") {
		return failf("control", "positive control failed: AUTH not seen inside TLS: %q", cmds)
	}
	if c.Entry == "newclient" || c.Entry == "dial" {
		if !extTLS || extPlain || extInj {
			return failf("stale-capabilities", "after the upgrade Extension() reports XTLSONLY=%v XPLAIN=%v XINJECTED=%v, want true/false/false", extTLS, extPlain, extInj)
		}
		// the TLS side offers AUTH PLAIN and no SIZE; the plaintext side
		// offered SIZE 1000, the injected reply AUTH PLAIN LOGIN
		if !authPlain || authLogin || maxSizeOK {
			return failf("stale-capabilities", "after the upgrade SupportsAuth(plain)=%v SupportsAuth(LOGIN)=%v MaxMessageSize=(%d,%v), want true / false / not conveyed: the accessors answer from the TLS-side EHLO reply", authPlain, authLogin, maxSize, maxSizeOK)
		}
	}
	return v
}

var (
	c10Sub    *subCheck[c10Case]
	c10Client *subCheck[c10ClientCase]
)

func init() {
	registrars = append(registrars, func() {
		c10Sub = newSub("C10", "server", c10Run)
		c10Client = newSub("C10", "client", c10ClientRun)
	})
}

func TestC10(t *testing.T) {
	registerAll()
	st.Rule = "server: cases = (TLS none/available/active, SMTP/LMTP, pre-STARTTLS state none|greeted|authenticated|mid-transaction|mid-BDAT (optionally with a gated delivery), plaintext lines injected behind STARTTLS in the same segment, probe commands inside TLS); client: cases = (scripted server nostarttls|454|502|220+garbage|220+injected replies|ok|HELO-only inside TLS|EHLO without extensions inside TLS) x (NewClientStartTLS over memnet, DialStartTLS and package-level SendMail with/without SASL over 127.0.0.1); non-trivial = non-empty injected suffix or a misbehaving server script; distinct = hash of the whole case"
	if !regress(t, "C10") {
		return
	}
	// the client half is a small finite product: enumerate it completely
	idx := 0
	for _, srv := range []string{"nostarttls", "refuse454", "refuse502", "garbage", "injected", "ok", "tlshelo", "tlsbare"} {
		for _, entry := range []string{"newclient", "dial", "sendmail", "sendmail-auth"} {
			idx++
			if !mine(idx) {
				continue
			}
			t0 := time.Now()
			if !c10Client.one(t, c10ClientCase{Server: srv, Entry: entry}) {
				return
			}
			if d := time.Since(t0); d > 2*time.Second {
				st.note("slow client case %s/%s: %v", srv, entry, d)
			}
		}
	}
	st.Exhaustive["client"] = true
	c10Sub.rapidCheck(t, pickTier(4000, 40000), c10Gen)
}
