package props

import (
	"bytes"
	"fmt"
	"testing"

	"pgregory.net/rapid"

	"verif/harness"
	"verif/ref"
)

// C01 - DATA body reaches the backend byte-exact after RFC 5321 dot-unstuffing.

type c01Case struct {
	Body  Octets `json:"body"`            // octets sent after the 354; the shortest legal end marker and QUIT are appended
	Cuts  []int  `json:"cuts,omitempty"`  // segmentation of the stream
	Reads []int  `json:"reads,omitempty"` // backend read-buffer sizes (cycled)
	Mode  int    `json:"mode"`            // 0 SMTP, 1 LMTP plain backend, 2 LMTP per-recipient backend
	Limit bool   `json:"limit,omitempty"` // MaxMessageBytes = message length + 1
}

func c01Stream(body []byte) []byte {
	s := append([]byte(nil), body...)
	s = append(s, ref.Terminator(body)...)
	return append(s, "QUIT\r\n"...)
}

func c01Run(c c01Case) Verdict {
	stream := c01Stream(c.Body)
	want, _, ok := ref.Unstuff(stream)
	if !ok {
		return Verdict{Inconclusive: "reference found no end marker (generator bug)"}
	}
	// The server's line length limit also applies to lines of the message
	// (the stock suite expects that); C01 is about the reader, so it runs
	// with the limit off and quantifies over all streams.
	cfg := harness.Config{LMTP: c.Mode != 0, MaxLineLength: -1}
	if c.Limit {
		cfg.MaxMessageBytes = int64(len(want)) + 1
	}
	script := harness.Script{LMTPSession: c.Mode == 2,
		DefaultData: &harness.DataPlan{Read: harness.ReadPlan{Sizes: c.Reads, Limit: -1}, Honest: true}}
	r := harness.NewRig(cfg, script)
	w, _ := r.Dial()
	if _, e := openData(w, cfg.LMTP, 1); e != "" {
		w.Finish()
		return Verdict{Inconclusive: e}
	}
	w.SendCuts(stream, c.Cuts)
	_, fin := w.Finish()
	if !fin {
		return finishFail(w)
	}
	bareCR, bareLF := hasBareCRLF(c.Body)
	v := Verdict{}
	dot, look := hasLineStartDot(c.Body), hasLookalike(c.Body)
	v.NonTrivial = dot || bareCR || bareLF || look
	if dot {
		v.Classes = append(v.Classes, "line_start_dot")
	}
	if bareCR {
		v.Classes = append(v.Classes, "bare_cr")
	}
	if bareLF {
		v.Classes = append(v.Classes, "bare_lf")
	}
	if look {
		v.Classes = append(v.Classes, "terminator_lookalike")
	}
	if len(c.Cuts) > 0 {
		v.Classes = append(v.Classes, "segmented")
	}
	if len(stream) > 4096 {
		v.Classes = append(v.Classes, "longer_than_bufio")
	}
	des := dataEvents(r.B.Events())
	if len(des) < 1 {
		return failf("no-data-call", "backend Data was not called (or did not return); trace: %s", traceString(r.B.Events()))
	}
	rec := des[0].Data
	if !bytes.Equal(rec.Bytes, want) {
		return failf("octets-differ", "backend read %s, reference says %s (stream %s)", q(rec.Bytes), q(want), q(stream))
	}
	if !rec.EOF {
		return failf("no-eof", "reader ended with %q instead of io.EOF after the complete message %s", rec.ErrStr, q(want))
	}
	for _, rr := range rec.AfterEOF {
		if rr.N != 0 || rr.Err != "EOF" {
			return failf("eof-not-sticky", "Read after EOF returned (%d, %q)", rr.N, rr.Err)
		}
	}
	if rec.ZeroNil > 0 {
		v.Classes = append(v.Classes, "zero_nil_read")
	}
	if p := r.Log.Panicked(); p != "" {
		return failf("panic", "server logged a panic: %s", p)
	}
	return v
}

var c01Sub *subCheck[c01Case]
var c01Words *subCheck[c01Case]

func init() {
	registrars = append(registrars, func() {
		c01Sub = newSub("C01", "rapid", c01Run)
		c01Words = newSub("C01", "words", c01Run)
	})
}

func c01Gen(t *rapid.T) c01Case {
	maxParts := 30
	if thorough() && rapid.IntRange(0, 9).Draw(t, "big") == 0 {
		maxParts = 1200 // crosses the 4096-octet bufio boundary
	}
	body := genBody(t, maxParts, "body")
	stream := c01Stream(body)
	return c01Case{
		Body:  body,
		Cuts:  genCuts(t, len(stream), interestingPositions(stream, ".\r\n"), "cuts"),
		Reads: genReadSizes(t, "reads"),
		Mode:  rapid.IntRange(0, 2).Draw(t, "mode"),
		Limit: rapid.Bool().Draw(t, "limit"),
	}
}

// variant i of the four (segmentation, read size) combinations used for the
// exhaustive word enumeration.
func c01Variant(word []byte, i int) c01Case {
	c := c01Case{Body: word}
	n := len(c01Stream(word))
	every := make([]int, 0, n)
	for k := 1; k < n; k++ {
		every = append(every, k)
	}
	switch i % 4 {
	case 0:
		c.Reads = []int{512}
	case 1:
		c.Cuts, c.Reads = every, []int{1}
	case 2:
		c.Reads, c.Mode = []int{1}, 2
	case 3:
		c.Cuts, c.Reads, c.Limit, c.Mode = every, []int{3}, true, 1
	}
	return c
}

func TestC01(t *testing.T) {
	registerAll()
	st.Rule = "cases = (DATA octet stream, segmentation, backend read sizes, mode, limit); exhaustive part: all words over {'.',CR,LF,'x'} up to the length bound, each closed with the shortest legal end marker; non-trivial = body has a line-start dot, a bare CR, a bare LF or an end-marker look-alike; distinct = hash of the whole case"
	if !regress(t, "C01") {
		return
	}
	// exhaustive over the byte classes
	maxLen := pickTier(8, 10)
	alpha := []byte{'.', '\r', '\n', 'x'}
	idx := 0
	complete := true
	for l := 0; l <= maxLen && complete; l++ {
		total := 1
		for i := 0; i < l; i++ {
			total *= 4
		}
		for n := 0; n < total; n++ {
			idx++
			if !mine(idx) {
				continue
			}
			word := make([]byte, l)
			x := n
			for i := 0; i < l; i++ {
				word[i] = alpha[x%4]
				x /= 4
			}
			if thorough() {
				for vi := 0; vi < 4; vi++ {
					if !c01Words.one(t, c01Variant(word, vi)) {
						complete = false
						break
					}
				}
			} else if !c01Words.one(t, c01Variant(word, idx)) {
				complete = false
			}
			if !complete {
				break
			}
		}
	}
	st.Exhaustive["words"] = complete
	st.note("exhaustive: all %d-ary class words up to length %d (shard %d/%d)", 4, maxLen, shard, nshards)
	if !complete {
		return
	}
	c01Sub.rapidCheck(t, pickTier(3000, 20000), c01Gen)
}

func FuzzC01(f *testing.F) {
	registerAll()
	for _, s := range []string{"Hey <3\r\n", "Hey\r\n..\r\n", ".\rx\r\n", "\r\r\n", "a\n.\nb", "a\r\n.\nb\r\n", "\r\n.\r", "..\r\n...\r\n", "\x00\xff\r"} {
		f.Add([]byte(s), uint16(0), uint16(0))
		f.Add([]byte(s), uint16(0xffff), uint16(1))
	}
	f.Fuzz(func(t *testing.T, body []byte, cutSeed, readSeed uint16) {
		if len(body) > 9000 {
			return
		}
		c := c01Case{Body: body, Mode: int(readSeed>>8) % 3, Limit: readSeed&0x80 != 0}
		c.Reads = []int{int(readSeed&0x7f) + 1}
		n := len(c01Stream(body))
		// cutSeed: bit pattern over the first 16 positions, repeated
		if cutSeed != 0 {
			for k := 1; k < n && k < 2000; k++ {
				if cutSeed&(1<<(uint(k)%16)) != 0 {
					c.Cuts = append(c.Cuts, k)
				}
			}
		}
		v := c01Run(c)
		if v.Fail != "" {
			t.Fatalf("C01: %s\ncase: %s", v.Fail, fmt.Sprint(mustJSONString(c)))
		}
	})
}

func mustJSONString(v interface{}) string { return string(mustJSON(v)) }
