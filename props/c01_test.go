package props

import (
	"bytes"
	"fmt"
	"testing"
	"time"

	"pgregory.net/rapid"

	"verif/harness"
	"verif/ref"
)

// C01 - DATA body reaches the backend byte-exact after RFC 5321 dot-unstuffing.

type c01Case struct {
	Body  Octets `json:"body"`            // octets sent after the 354; the shortest legal end marker and QUIT are appended
	Cuts  []int  `json:"cuts,omitempty"`  // segmentation of the stream
	Reads []int  `json:"reads,omitempty"` // backend read-buffer sizes (cycled)
	Mode  int    `json:"mode"`            // 0 SMTP, 1 LMTP plain backend, 2 LMTP per-recipient backend
	Limit bool   `json:"limit,omitempty"` // MaxMessageBytes = message length + 1
	// LimitAt > 0: MaxMessageBytes is exactly this. At or above the message
	// length the message must arrive whole; below it the reader must deliver
	// a prefix and must not report end-of-file.
	LimitAt int `json:"limit_at,omitempty"`
	// LineLimit > 0: Server.MaxLineLength is this instead of "none". Only
	// used with streams in which no LF-delimited stretch outgrows it, so the
	// message must arrive whole all the same (bare LFs end a stretch as far
	// as the limiter is concerned, CRLF is not required).
	LineLimit int `json:"line_limit,omitempty"`
	// PauseAt > 0: the server has a 60 ms WriteTimeout (and no read timeout);
	// the client sends the first PauseAt octets, waits 150 ms of wall-clock
	// time and sends the rest (never under TLS: a handshake has no business
	// under a deadline that short on a busy machine). When segments arrive has no bearing on the
	// result; time is only the trigger, nothing is armed on a correct server.
	PauseAt int `json:"pause_at,omitempty"`
	// TLS: the connection is under (implicit) TLS; every segment is a record
	TLS bool `json:"tls,omitempty"`
	// FinalEOF: the client half-closes together with its last segment and
	// the server's connection reports the end of the stream with the last
	// octets (n > 0, io.EOF) instead of in a Read of its own - as io.Reader
	// allows and crypto/tls does. How the end of the connection is reported
	// has no bearing on a message that arrived in full.
	FinalEOF bool `json:"final_eof,omitempty"`
	// Prior: "data" - an earlier, complete DATA transaction on the same
	// connection; "data+starttls" - the same in the clear, then STARTTLS, the
	// judged message inside TLS. What a connection carried before has no
	// bearing on the next message.
	Prior string `json:"prior,omitempty"`
	// PriorSize (with Prior): the earlier transaction's MAIL declares the
	// exact size of its message (SIZE=n). DeclaredSlack >= 0 with Declare:
	// the judged transaction's MAIL declares the size of the message on the
	// wire plus DeclaredSlack (an estimate that is not too low).
	PriorSize     bool `json:"prior_size,omitempty"`
	Declare       bool `json:"declare,omitempty"`
	DeclaredSlack int  `json:"declared_slack,omitempty"`
}

// maxStretch is the length of the longest run of octets that ends in LF (the
// LF included) or at the end of s.
func maxStretch(s []byte) int {
	m, cur := 0, 0
	for _, c := range s {
		cur++
		if cur > m {
			m = cur
		}
		if c == '\n' {
			cur = 0
		}
	}
	return m
}

func c01Stream(body []byte) []byte {
	s := append([]byte(nil), body...)
	s = append(s, ref.Terminator(body)...)
	return append(s, "QUIT\r\n"...)
}

func c01Run(c c01Case) Verdict {
	stream := c01Stream(c.Body)
	want, _, ok := ref.Unstuff(stream)
	if !ok {
		return Verdict{Inconclusive: "reference found no end marker (generator bug)"}
	}
	// The server's line length limit also applies to lines of the message
	// (the stock suite expects that); C01 is about the reader, so it runs
	// with the limit off and quantifies over all streams.
	cfg := harness.Config{LMTP: c.Mode != 0, MaxLineLength: -1}
	if c.LineLimit > 0 {
		if maxStretch(stream) > c.LineLimit || c.LineLimit < 32 {
			return Verdict{Inconclusive: "line limit below the longest line of the stream (generator bug)"}
		}
		cfg.MaxLineLength = c.LineLimit
	}
	if c.Limit {
		cfg.MaxMessageBytes = int64(len(want)) + 1
	}
	if c.LimitAt > 0 {
		cfg.MaxMessageBytes = int64(c.LimitAt)
	}
	over := cfg.MaxMessageBytes > 0 && int64(len(want)) > cfg.MaxMessageBytes
	pause := c.PauseAt > 0 && c.PauseAt < len(stream)
	if pause {
		cfg.WriteTimeoutMs = 60
	}
	prior := c.Prior
	if pause || c.FinalEOF {
		prior = ""
	}
	if c.TLS && !pause && prior != "data+starttls" {
		cfg.TLS = "implicit"
	}
	if prior == "data+starttls" {
		cfg.TLS = "starttls"
	}
	finalEOF := c.FinalEOF && !pause && !c.TLS
	cfg.EOFWithData = finalEOF
	script := harness.Script{LMTPSession: c.Mode == 2,
		DefaultData: &harness.DataPlan{Read: harness.ReadPlan{Sizes: c.Reads, Limit: -1, Retry: 2}, Honest: true}}
	r := harness.NewRig(cfg, script)
	w, derr := r.Dial()
	if derr != nil {
		w.Finish()
		return Verdict{Inconclusive: "dial: " + derr.Error()}
	}
	nprior := 0
	if prior != "" {
		nprior = 1
		earlier := "an earlier message\r\n..with a dot line\r\n.\r\n"
		if cfg.MaxMessageBytes > 0 && cfg.MaxMessageBytes < 40 {
			earlier = ".\r\n" // the empty message fits every limit
		}
		var pparams []string
		if c.PriorSize {
			pparams = []string{fmt.Sprintf("SIZE=%d", len(earlier)-3)}
		}
		if _, e := openData(w, cfg.LMTP, 1, pparams...); e != "" {
			w.Finish()
			return Verdict{Inconclusive: "earlier transaction: " + e}
		}
		out, st := w.Exchange([]byte(earlier))
		if prs, err := harness.ParseReplies(out); st != harness.QIdle || err != nil || len(prs) != 1 || prs[0].Class() != 2 {
			w.Finish()
			return Verdict{Inconclusive: fmt.Sprintf("earlier transaction not accepted: %s %v %v", st, err, codes(prs))}
		}
		if prior == "data+starttls" {
			out, st := w.Exchange([]byte("STARTTLS\r\n"))
			if prs, err := harness.ParseReplies(out); st != harness.QIdle || err != nil || len(prs) != 1 || prs[0].Code != 220 {
				w.Finish()
				return Verdict{Inconclusive: fmt.Sprintf("STARTTLS not accepted: %s %v %v", st, err, codes(prs))}
			}
			if err := w.StartTLS(); err != nil {
				w.Finish()
				return Verdict{Inconclusive: "TLS handshake: " + err.Error()}
			}
		}
	}
	var jparams []string
	if c.Declare && (cfg.MaxMessageBytes == 0 || int64(len(stream)+c.DeclaredSlack) <= cfg.MaxMessageBytes) {
		// (a declaration above the server's limit is refused at MAIL: C06)
		jparams = []string{fmt.Sprintf("SIZE=%d", len(stream)+c.DeclaredSlack)}
	}
	if _, e := openData(w, cfg.LMTP, 1, jparams...); e != "" {
		w.Finish()
		if prior != "" {
			return failf("after-earlier-transaction", "after an earlier DATA transaction (%s) the next one could not be opened: %s", prior, e)
		}
		return Verdict{Inconclusive: e}
	}
	if pause {
		w.Send(stream[:c.PauseAt])
		w.WaitQuiet()
		time.Sleep(150 * time.Millisecond)
		w.Send(stream[c.PauseAt:])
	} else if finalEOF {
		w.SendCutsFinal(stream, c.Cuts)
	} else {
		w.SendCuts(stream, c.Cuts)
	}
	_, fin := w.Finish()
	if !fin {
		return finishFail(w)
	}
	bareCR, bareLF := hasBareCRLF(c.Body)
	v := Verdict{}
	dot, look := hasLineStartDot(c.Body), hasLookalike(c.Body)
	v.NonTrivial = dot || bareCR || bareLF || look
	if dot {
		v.Classes = append(v.Classes, "line_start_dot")
	}
	if bareCR {
		v.Classes = append(v.Classes, "bare_cr")
	}
	if bareLF {
		v.Classes = append(v.Classes, "bare_lf")
	}
	if look {
		v.Classes = append(v.Classes, "terminator_lookalike")
	}
	if len(c.Cuts) > 0 {
		v.Classes = append(v.Classes, "segmented")
	}
	if len(stream) > 4096 {
		v.Classes = append(v.Classes, "longer_than_bufio")
	}
	if pause {
		v.Classes = append(v.Classes, "paused_past_write_timeout")
	}
	if c.TLS && !pause {
		v.Classes = append(v.Classes, "under_tls")
	}
	if finalEOF {
		v.Classes = append(v.Classes, "eof_with_last_octets")
	}
	if c.LineLimit > 0 && len(stream) > c.LineLimit {
		v.Classes = append(v.Classes, "line_limit_on")
		if _, lf := hasBareCRLF(stream); lf {
			v.Classes = append(v.Classes, "line_limit_bare_lf")
		}
	}
	if cfg.MaxMessageBytes > 0 && int64(len(want)) == cfg.MaxMessageBytes {
		v.Classes = append(v.Classes, "exactly_at_size_limit")
	}
	des := dataEvents(r.B.Events())
	if len(des) < 1+nprior {
		return failf("no-data-call", "backend Data was not called (or did not return); trace: %s", traceString(r.B.Events()))
	}
	if prior != "" {
		v.Classes = append(v.Classes, "after_"+prior)
	}
	rec := des[nprior].Data
	if over {
		// the message does not fit: what the reader hands over is a prefix
		// and it never claims to be complete
		v.NonTrivial = true
		v.Classes = append(v.Classes, "over_size_limit")
		if int64(len(rec.Bytes)) > cfg.MaxMessageBytes || !bytes.HasPrefix(want, rec.Bytes) {
			return failf("over-limit-octets", "limit %d: backend read %s, which is not a prefix (within the limit) of the message %s", cfg.MaxMessageBytes, q(rec.Bytes), q(want))
		}
		for _, rr := range rec.AfterErr {
			if rr.N != 0 || rr.Err == "" || rr.Err == "EOF" {
				return failf("over-limit-not-sticky", "limit %d: after the reader failed (%q) another Read returned (%d, %q)", cfg.MaxMessageBytes, rec.ErrStr, rr.N, rr.Err)
			}
		}
		if rec.EOF {
			return failf("over-limit-eof", "limit %d: reader reported end-of-file after %s although the message is %s (stream %s)", cfg.MaxMessageBytes, q(rec.Bytes), q(want), q(stream))
		}
		if p := r.Log.Panicked(); p != "" {
			return failf("panic", "server logged a panic: %s", p)
		}
		return v
	}
	if !bytes.Equal(rec.Bytes, want) {
		return failf("octets-differ", "backend read %s, reference says %s (stream %s)", q(rec.Bytes), q(want), q(stream))
	}
	if !rec.EOF {
		return failf("no-eof", "reader ended with %q instead of io.EOF after the complete message %s", rec.ErrStr, q(want))
	}
	for _, rr := range rec.AfterEOF {
		if rr.N != 0 || rr.Err != "EOF" {
			return failf("eof-not-sticky", "Read after EOF returned (%d, %q)", rr.N, rr.Err)
		}
	}
	if rec.ZeroNil > 0 {
		v.Classes = append(v.Classes, "zero_nil_read")
	}
	if p := r.Log.Panicked(); p != "" {
		return failf("panic", "server logged a panic: %s", p)
	}
	return v
}

var c01Sub *subCheck[c01Case]
var c01Words *subCheck[c01Case]

func init() {
	registrars = append(registrars, func() {
		c01Sub = newSub("C01", "rapid", c01Run)
		c01Words = newSub("C01", "words", c01Run)
	})
}

func c01Gen(t *rapid.T) c01Case {
	maxParts := 30
	if thorough() && rapid.IntRange(0, 9).Draw(t, "big") == 0 {
		maxParts = 1200 // crosses the 4096-octet bufio boundary
	}
	body := genBody(t, maxParts, "body")
	stream := c01Stream(body)
	c := c01Case{
		Body:  body,
		Cuts:  genCuts(t, len(stream), interestingPositions(stream, ".\r\n"), "cuts"),
		Reads: genReadSizes(t, "reads"),
		Mode:  rapid.IntRange(0, 2).Draw(t, "mode"),
	}
	want, _, _ := ref.Unstuff(stream)
	switch rapid.IntRange(0, 5).Draw(t, "limit") {
	case 0, 1:
		c.Limit = true
	case 2:
		c.LimitAt = len(want) // exactly fits
	case 3:
		// too small, preferably running out right behind a CR, LF or dot
		if len(want) > 1 {
			c.LimitAt = genLimitBelow(t, want, "limit_at")
		}
	}
	c.TLS = rapid.IntRange(0, 7).Draw(t, "tls") == 0
	c.FinalEOF = rapid.IntRange(0, 3).Draw(t, "final_eof") == 0
	if !c.FinalEOF && rapid.IntRange(0, 3).Draw(t, "prior") == 0 {
		c.Prior = rapid.SampledFrom([]string{"data", "data+starttls"}).Draw(t, "prior_kind")
		c.PriorSize = rapid.Bool().Draw(t, "prior_size")
	}
	if rapid.IntRange(0, 4).Draw(t, "declare") == 0 {
		c.Declare, c.DeclaredSlack = true, rapid.SampledFrom([]int{0, 0, 1, 1000}).Draw(t, "declared_slack")
	}
	// a few paused transfers (each costs its pause in wall-clock time)
	if len(stream) > 2 && rapid.IntRange(0, 999).Draw(t, "pause")%150 == 7 {
		c.PauseAt = rapid.IntRange(1, len(stream)-1).Draw(t, "pause_at")
	}
	if rapid.IntRange(0, 2).Draw(t, "line_limit") == 0 {
		c.LineLimit = maxStretch(stream) + rapid.IntRange(0, 2).Draw(t, "line_slack")
		if c.LineLimit < 32 {
			c.LineLimit = 32
		}
	}
	return c
}

// genLimitBelow draws a size limit in [1, len(want)-1], half of the time one
// that is used up right after a CR, LF or '.' of the message.
func genLimitBelow(t *rapid.T, want []byte, label string) int {
	var cand []int
	for i, ch := range want[:len(want)-1] {
		if ch == '\r' || ch == '\n' || ch == '.' {
			cand = append(cand, i+1)
		}
	}
	if len(cand) > 0 && rapid.Bool().Draw(t, label+"_edge") {
		return rapid.SampledFrom(cand).Draw(t, label+"_pos")
	}
	return rapid.IntRange(1, len(want)-1).Draw(t, label+"_any")
}

// variant i of the four (segmentation, read size) combinations used for the
// exhaustive word enumeration.
func c01Variant(word []byte, i int) c01Case {
	c := c01Case{Body: word}
	n := len(c01Stream(word))
	every := make([]int, 0, n)
	for k := 1; k < n; k++ {
		every = append(every, k)
	}
	switch i % 4 {
	case 0:
		c.Reads = []int{512}
		c.FinalEOF = true // the whole stream and the end of the connection in one Read
	case 1:
		c.Cuts, c.Reads = every, []int{1}
	case 2:
		c.Reads, c.Mode = []int{1}, 2
	case 3:
		c.Cuts, c.Reads, c.Limit, c.Mode = every, []int{3}, true, 1
	}
	return c
}

// c01LimitVariants: the word under every size limit from 1 to its length,
// read with the given buffer size.
func c01LimitVariants(word []byte, read int) []c01Case {
	want, _, _ := ref.Unstuff(c01Stream(word))
	var out []c01Case
	for n := 1; n <= len(want); n++ {
		out = append(out, c01Case{Body: word, Reads: []int{read}, LimitAt: n})
	}
	return out
}

func TestC01(t *testing.T) {
	registerAll()
	st.Rule = "cases = (DATA octet stream, segmentation, backend read sizes, mode, size limit above/at/below the message length, line limit no smaller than the longest LF-delimited stretch, optionally a pause longer than the server's WriteTimeout in mid-message, optionally after an earlier DATA transaction on the same connection - in the clear before a STARTTLS upgrade, or not, its MAIL optionally declaring its SIZE - and optionally with a declared SIZE that is not too low); exhaustive part: all words over {'.',CR,LF,'x'} up to the length bound, each closed with the shortest legal end marker, the shorter ones also under every size limit from 1 to their length; non-trivial = body has a line-start dot, a bare CR, a bare LF or an end-marker look-alike; distinct = hash of the whole case"
	if !regress(t, "C01") {
		return
	}
	// exhaustive over the byte classes
	maxLen := pickTier(8, 10)
	alpha := []byte{'.', '\r', '\n', 'x'}
	idx := 0
	complete := true
	for l := 0; l <= maxLen && complete; l++ {
		total := 1
		for i := 0; i < l; i++ {
			total *= 4
		}
		for n := 0; n < total; n++ {
			idx++
			if !mine(idx) {
				continue
			}
			word := make([]byte, l)
			x := n
			for i := 0; i < l; i++ {
				word[i] = alpha[x%4]
				x /= 4
			}
			if thorough() {
				for vi := 0; vi < 4; vi++ {
					if !c01Words.one(t, c01Variant(word, vi)) {
						complete = false
						break
					}
				}
			} else if !c01Words.one(t, c01Variant(word, idx)) {
				complete = false
			}
			if complete && l <= pickTier(5, 7) {
				for _, lc := range c01LimitVariants(word, 1+idx%3) {
					if !c01Words.one(t, lc) {
						complete = false
						break
					}
				}
			}
			if !complete {
				break
			}
		}
	}
	st.Exhaustive["words"] = complete
	st.note("exhaustive: all %d-ary class words up to length %d (shard %d/%d)", 4, maxLen, shard, nshards)
	if !complete {
		return
	}
	c01Sub.rapidCheck(t, pickTier(3000, 20000), c01Gen)
}

func FuzzC01(f *testing.F) {
	registerAll()
	for _, s := range []string{"Hey <3\r\n", "Hey\r\n..\r\n", ".\rx\r\n", "\r\r\n", "a\n.\nb", "a\r\n.\nb\r\n", "\r\n.\r", "..\r\n...\r\n", "\x00\xff\r"} {
		f.Add([]byte(s), uint16(0), uint16(0))
		f.Add([]byte(s), uint16(0xffff), uint16(1))
	}
	f.Fuzz(func(t *testing.T, body []byte, cutSeed, readSeed uint16) {
		if len(body) > 9000 {
			return
		}
		c := c01Case{Body: body, Mode: int(readSeed>>8) % 3, Limit: readSeed&0x80 != 0, FinalEOF: readSeed&0x2000 != 0}
		c.Reads = []int{int(readSeed&0x7f) + 1}
		n := len(c01Stream(body))
		if readSeed&0x4000 != 0 {
			if m := maxStretch(c01Stream(body)); m <= 2000 {
				c.LineLimit = 2000 // the default limit
			}
		}
		if w, _, _ := ref.Unstuff(c01Stream(body)); readSeed&0x8000 != 0 && len(w) > 1 {
			c.LimitAt = 1 + int(cutSeed)%len(w)
		}
		// cutSeed: bit pattern over the first 16 positions, repeated
		if cutSeed != 0 {
			for k := 1; k < n && k < 2000; k++ {
				if cutSeed&(1<<(uint(k)%16)) != 0 {
					c.Cuts = append(c.Cuts, k)
				}
			}
		}
		v := c01Run(c)
		if v.Fail != "" {
			t.Fatalf("C01: %s\ncase: %s", v.Fail, fmt.Sprint(mustJSONString(c)))
		}
	})
}

func mustJSONString(v interface{}) string { return string(mustJSON(v)) }
