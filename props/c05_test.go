package props

import (
	"bytes"
	"fmt"
	"strings"
	"testing"
	"time"

	"pgregory.net/rapid"

	"verif/harness"
)

// C05 - BDAT chunks are framed by octet count and delivered binary-transparent.

type c05Chunk struct {
	Payload Octets `json:"payload"`
	Last    bool   `json:"last,omitempty"`
	Marker  bool   `json:"marker,omitempty"` // a VRFY marker command follows the chunk
	Lower   bool   `json:"lower,omitempty"`  // spell the command in lower case
	Zeros   int    `json:"zeros,omitempty"`  // leading zeros in front of the size (chunk-size = 1*DIGIT)
}

type c05Case struct {
	Chunks []c05Chunk `json:"chunks"`
	// State: "valid", "nomail", "norcpt" (every RCPT rejected), "badlast"
	// (last chunk carries a bad LAST token), "overlimit" (cumulative size
	// exceeds MaxMessageBytes at some chunk)
	// "earlyerr": the backend reads ErrAfter octets and returns an error; the
	// replies to the BDAT commands are then not predicted, only framing is
	// judged (one reply per command, markers answered, bait never executed)
	State    string `json:"state"`
	ErrAfter int    `json:"err_after,omitempty"`
	Limit    int64  `json:"limit,omitempty"`
	MaxLine  int    `json:"max_line"`
	Mode     int    `json:"mode"` // 0 SMTP, 1 LMTP plain, 2 LMTP per-recipient
	NRcpt    int    `json:"nrcpt"`
	Cuts     []int  `json:"cuts,omitempty"` // segmentation of the BDAT part of the stream
	Reads    []int  `json:"reads,omitempty"`
	// GateStart: the delivery goroutine starts only when the harness lets it
	// (released whenever the command loop waits for it, and at the end)
	GateStart bool `json:"gate_start,omitempty"`
	// StallAt > 0 (valid state only): 100 ms ReadTimeout; the client sends the
	// first StallAt octets of the BDAT part, stays silent until the server has
	// reacted to the timeout, then sends the rest. Only "no payload octet is
	// executed" is demanded then.
	StallAt int `json:"stall_at,omitempty"`
	// Prior: chunk sizes of an earlier chunked transaction on the same
	// connection (one recipient), ended by LAST on its final chunk or, with
	// PriorRset, abandoned by RSET. With Limit > 0 in the valid and badlast
	// states the server has that MaxMessageBytes, which every message of the
	// case fits: nothing changes.
	Prior     []int `json:"prior,omitempty"`
	PriorRset bool  `json:"prior_rset,omitempty"`
	// ShuttingDown: a graceful Server.Shutdown (no deadline) begins once the
	// envelope has been sent. The connection is open, so it stays served:
	// nothing about the transfer changes.
	ShuttingDown bool `json:"shutting_down,omitempty"`
	// TLS: the connection is under (implicit) TLS; every segment is a record
	TLS bool `json:"tls,omitempty"`
	// Settle: the client lets the server come to rest after every segment
	// (and a moment longer, so that a delivery that has returned is over in
	// every respect) before it sends the next one. When segments arrive has
	// no bearing on the framing.
	Settle bool `json:"settle,omitempty"`
}

const c05Bait = "MAIL FROM:<bait@x>\r\nRCPT TO:<bait@x>\r\nQUIT\r\nDATA\r\nBDAT 3 LAST\r\n"

func c05BaitPayload(n int) []byte {
	var b []byte
	for len(b) < n {
		b = append(b, c05Bait...)
	}
	return b[:n]
}

// c05Build returns the lock-step preamble, the BDAT part, the expected replies
// for each and the message the backend must read (nil = no Data call expected;
// partial = the transfer is aborted so only a prefix is demanded).
type c05Plan struct {
	pre, body   conv
	msg         []byte
	expectData  bool
	expectEOF   bool
	refusedWith bool // some refused BDAT carried payload
}

func c05Build(c c05Case) c05Plan {
	var p c05Plan
	lmtp := c.Mode != 0
	// "nogreet": BDAT is the first thing the client says; "greetrefused":
	// the backend refuses the session (no greeting is in effect either)
	ungreeted := c.State == "nogreet" || c.State == "greetrefused"
	switch c.State {
	case "nogreet":
	case "greetrefused":
		p.pre.cmd(greetWord(lmtp)+" cli", expect{Code: 550, What: "greeting refused by the backend"})
	default:
		p.pre.cmd(greetWord(lmtp)+" cli", expect{Code: 250, What: "greeting"})
	}
	if len(c.Prior) > 0 && !ungreeted {
		p.pre.cmd("MAIL FROM:<p@x>", expect{Code: 250, What: "earlier MAIL"})
		p.pre.cmd("RCPT TO:<p0@x>", expect{Code: 250, What: "earlier RCPT"})
		for i, n := range c.Prior {
			line := fmt.Sprintf("BDAT %d", n)
			if i == len(c.Prior)-1 && !c.PriorRset {
				line += " LAST"
			}
			p.pre.cmd(line, expect{Code: 250, What: "earlier chunk"})
			p.pre.raw(bytes.Repeat([]byte{'p'}, n))
		}
		if c.PriorRset {
			p.pre.cmd("RSET", expect{Code: 250, What: "RSET of the earlier transfer"})
		}
	}
	if c.State != "nomail" && !ungreeted {
		p.pre.cmd("MAIL FROM:<s@x>", expect{Code: 250, What: "MAIL"})
		for i := 0; i < c.NRcpt; i++ {
			if c.State == "norcpt" {
				p.pre.cmd(fmt.Sprintf("RCPT TO:<r%d@x>", i), expect{Code: 550, What: "RCPT rejected"})
			} else {
				p.pre.cmd(fmt.Sprintf("RCPT TO:<r%d@x>", i), expect{Code: 250, What: "RCPT"})
			}
		}
	}
	nfinal := 1
	if lmtp {
		nfinal = c.NRcpt
	}
	var total int64
	refusedAll := c.State == "nomail" || c.State == "norcpt" || ungreeted
	aborted := false
	for i, ch := range c.Chunks {
		verb := "BDAT"
		if ch.Lower {
			verb = "bdat"
		}
		line := fmt.Sprintf("%s %s%d", verb, strings.Repeat("0", ch.Zeros), len(ch.Payload))
		isLast := ch.Last
		badLast := c.State == "badlast" && i == len(c.Chunks)-1
		if badLast {
			line += " LAS"
		} else if isLast {
			line += " LAST"
		}
		switch {
		case refusedAll:
			p.body.cmd(line, expect{Class: 5, What: "BDAT without envelope"})
			p.body.raw(ch.Payload)
			if len(ch.Payload) > 0 {
				p.refusedWith = true
			}
		case badLast:
			p.body.cmd(line, expect{Class: 5, What: "BDAT bad LAST token"})
			p.body.raw(ch.Payload)
			if len(ch.Payload) > 0 {
				p.refusedWith = true
			}
			aborted = true
		case c.State == "overlimit" && c.Limit > 0 && total+int64(len(ch.Payload)) > c.Limit:
			p.body.cmd(line, expect{Code: 552, What: "BDAT over limit"})
			p.body.raw(ch.Payload)
			if len(ch.Payload) > 0 {
				p.refusedWith = true
			}
			aborted = true
		default:
			p.expectData = true
			total += int64(len(ch.Payload))
			p.msg = append(p.msg, ch.Payload...)
			if isLast {
				var exp []expect
				for k := 0; k < nfinal; k++ {
					exp = append(exp, expect{Code: 250, What: "final"})
				}
				p.body.cmd(line, exp...)
				p.expectEOF = true
			} else {
				p.body.cmd(line, expect{Code: 250, What: "chunk"})
			}
			p.body.raw(ch.Payload)
		}
		if ch.Marker {
			p.body.cmd(fmt.Sprintf("VRFY m%d", i), expect{Code: 252, What: "marker"})
		}
		if aborted || (isLast && !refusedAll) {
			break
		}
	}
	if aborted && c.State == "overlimit" {
		// the transaction is discarded
		p.body.cmd("RCPT TO:<after@x>", expect{Class: 5, What: "RCPT after discarded transaction"})
	}
	if ungreeted {
		// still no greeting: MAIL is refused, the stream is in sync
		p.body.cmd("NOOP", expect{Code: 250, What: "NOOP"})
		p.body.cmd("MAIL FROM:<after@x>", expect{Class: 5, What: "MAIL without a greeting"})
	} else if !aborted || c.State == "overlimit" {
		// a fresh transaction still works: the stream is in sync
		p.body.cmd("RSET", expect{Code: 250, What: "RSET"})
		p.body.cmd("MAIL FROM:<after@x>", expect{Code: 250, What: "MAIL after"})
	}
	p.body.cmd("QUIT", expect{Code: 221, What: "QUIT"})
	return p
}

func c05Run(c c05Case) Verdict {
	p := c05Build(c)
	lmtp := c.Mode != 0
	cfg := harness.Config{LMTP: lmtp, MaxLineLength: c.MaxLine}
	stall := c.StallAt > 0 && c.StallAt < len(p.body.buf) && c.State == "valid"
	if stall {
		cfg.ReadTimeoutMs = 100
	} else if c.TLS {
		cfg.TLS = "implicit"
	}
	if c.State == "overlimit" || ((c.State == "valid" || c.State == "badlast") && c.Limit > 0) {
		cfg.MaxMessageBytes = c.Limit
		total := 0
		for _, ch := range c.Chunks {
			total += len(ch.Payload)
		}
		prior := 0
		for _, n := range c.Prior {
			prior += n
		}
		if c.State != "overlimit" && (int64(total) > c.Limit || int64(prior) > c.Limit) {
			return Verdict{Inconclusive: "limit below a message of a state that says it fits (generator bug)"}
		}
	}
	script := harness.Script{LMTPSession: c.Mode == 2, GateStart: c.GateStart,
		DefaultData: &harness.DataPlan{Read: harness.ReadPlan{Sizes: c.Reads, Limit: -1}, Honest: true}}
	earlyErr := c.State == "earlyerr"
	if earlyErr {
		early := harness.DataPlan{Read: harness.ReadPlan{Sizes: c.Reads, Limit: c.ErrAfter},
			Result: harness.Decision{Kind: "smtp", Code: 451, Enh: [3]int{4, 3, 0}, Msg: "backend gave up early"}}
		if len(c.Prior) > 0 {
			script.Data = []harness.DataPlan{*script.DefaultData, early}
		} else {
			script.Data = []harness.DataPlan{early}
		}
	}
	if c.State == "greetrefused" {
		script.NewSession = []harness.Decision{{Kind: "smtp", Code: 550, Enh: [3]int{5, 7, 1}, Msg: "not you"}}
	}
	if c.State == "norcpt" {
		for i := 0; i < c.NRcpt; i++ {
			script.Rcpt = append(script.Rcpt, harness.Decision{Kind: "smtp", Code: 550, Enh: [3]int{5, 1, 1}, Msg: "no such user"})
		}
	}
	r := harness.NewRig(cfg, script)
	w, derr := r.Dial()
	if derr != nil {
		w.Finish()
		return Verdict{Inconclusive: "dial: " + derr.Error()}
	}
	if st := w.WaitQuiet(); st != harness.QIdle {
		w.Finish()
		return Verdict{Inconclusive: "server not idle after connect: " + st}
	}
	w.Recv()
	out, st := w.Exchange(p.pre.buf)
	for i := 0; c.GateStart && st == harness.QGate && i < 64; i++ {
		// the earlier transfer's delivery is waiting for its start
		r.B.ReleaseArrived()
		st = w.WaitQuiet()
		out = append(out, w.Recv()...)
	}
	if st != harness.QIdle {
		w.Finish()
		return Verdict{Inconclusive: "server not idle after preamble: " + st}
	}
	if c.ShuttingDown && !r.BeginShutdown() {
		w.Finish()
		return Verdict{Inconclusive: "graceful Shutdown did not close the listener (watchdog)"}
	}
	nPre := len(r.B.Events())
	prs, err := harness.ParseReplies(out)
	if err != nil {
		w.Finish()
		return failf("reply-syntax", "preamble replies do not parse: %v", err)
	}
	if m := matchReplies(prs, p.pre.exp); m != "" {
		w.Finish()
		return Verdict{Inconclusive: "preamble: " + m}
	}
	if stall {
		w.Send(p.body.buf[:c.StallAt])
		w.Recv()
		r.Hub.WaitUntil(func() bool { return w.S.ClosedLocked() || w.S.WrittenLocked() > int64(len(w.Out)) }, harness.Watchdog)
		// the replies to what was sent before the stall may come first; wait
		// for the server to settle, then for the timeout's own reaction
		w.WaitQuiet()
		w.Recv()
		r.Hub.WaitUntil(func() bool { return w.S.ClosedLocked() || w.S.WrittenLocked() > int64(len(w.Out)) }, 400*time.Millisecond)
		w.WaitQuiet()
		w.Send(p.body.buf[c.StallAt:])
	} else if c.Settle && !c.GateStart && len(c.Cuts) > 0 && len(c.Cuts) <= 12 {
		prev := 0
		for _, k := range append(append([]int(nil), c.Cuts...), len(p.body.buf)) {
			if k <= prev || k > len(p.body.buf) {
				continue
			}
			w.Send(p.body.buf[prev:k])
			prev = k
			if st := w.WaitQuiet(); st == harness.QClosed {
				break
			}
			time.Sleep(2 * time.Millisecond)
		}
		if prev < len(p.body.buf) && !w.S.Closed() {
			w.Send(p.body.buf[prev:])
		}
	} else {
		w.SendCuts(p.body.buf, c.Cuts)
	}
	for i := 0; c.GateStart && i < 64; i++ {
		if st := w.WaitQuiet(); st != harness.QGate {
			break
		}
		r.B.ReleaseArrived()
	}
	rest, fin := w.Finish()
	if !fin {
		return finishFail(w)
	}

	v := Verdict{}
	longRun := false
	limit := c.MaxLine
	if limit == 0 {
		limit = 2000
	}
	shares := false
	for _, ch := range c.Chunks {
		run := 0
		for _, b := range ch.Payload {
			if b == '\n' {
				run = 0
			} else {
				run++
				if run > limit {
					longRun = true
				}
			}
		}
	}
	// does some BDAT line share a segment with payload octets?
	{
		cutset := map[int]bool{}
		for _, k := range c.Cuts {
			cutset[k] = true
		}
		off := 0
		for _, line := range bytes.SplitAfter(p.body.buf, []byte("\r\n")) {
			end := off + len(line)
			if (bytes.HasPrefix(line, []byte("BDAT")) || bytes.HasPrefix(line, []byte("bdat"))) && end < len(p.body.buf) && !cutset[end] {
				shares = true
			}
			off = end
		}
	}
	v.NonTrivial = len(c.Chunks) >= 2 || p.refusedWith || longRun || shares
	v.Classes = append(v.Classes, "state_"+c.State)
	if c.ShuttingDown {
		v.Classes = append(v.Classes, "during_graceful_shutdown")
	}
	if c.TLS && !stall {
		v.Classes = append(v.Classes, "under_tls")
	}
	if len(c.Chunks) >= 2 {
		v.Classes = append(v.Classes, "multi_chunk")
	}
	if p.refusedWith {
		v.Classes = append(v.Classes, "refused_with_payload")
	}
	if longRun {
		v.Classes = append(v.Classes, "lf_free_run_over_limit")
	}
	if shares {
		v.Classes = append(v.Classes, "cmd_payload_share_segment")
	}
	for _, ch := range c.Chunks {
		if len(ch.Payload) == 0 {
			v.Classes = append(v.Classes, "zero_chunk")
			break
		}
	}

	evs := r.B.Events()[nPre:]
	if len(c.Prior) > 0 {
		v.Classes = append(v.Classes, "after_earlier_chunked_transaction")
		// the earlier delivery is over by the time its last command is answered
		b0, e0 := dataBegins(r.B.Events()[:nPre]), dataEvents(r.B.Events()[:nPre])
		if len(b0) != len(e0) {
			return failf("earlier-data-open", "the earlier transfer was answered but its Data call has not returned; trace %s", traceString(r.B.Events()[:nPre]))
		}
	}
	if cfg.MaxMessageBytes > 0 && c.State != "overlimit" {
		v.Classes = append(v.Classes, "fits_size_limit")
	}
	for _, e := range evs {
		if strings.Contains(e.From, "bait") || strings.Contains(e.To, "bait") {
			return failf("bait-executed", "payload of a BDAT chunk was executed as a command: %s", e)
		}
	}
	if stall {
		v.Classes = append(v.Classes, "stalled_past_read_timeout")
		if pn := r.Log.Panicked(); pn != "" {
			return failf("panic", "server logged a panic: %s", pn)
		}
		return v // only "no payload octet executed" (checked above) is demanded
	}
	rs, err := harness.ParseReplies(rest)
	if err != nil {
		return failf("reply-syntax", "replies do not parse: %v (%s)", err, q(rest))
	}
	if c.ShuttingDown && len(rs) > 0 && rs[len(rs)-1].Code == 421 && len(rs) < len(p.body.exp) {
		// a server that is shutting down may end the connections it still
		// has (421 and goodbye, RFC 5321 3.8); bait was looked for above
		v.Classes = append(v.Classes, "connection_ended_by_the_shutdown")
		return v
	}
	if earlyErr {
		// which BDAT command meets the failure depends on where the backend
		// stopped; framing is what is judged: every marker answered, the
		// closing commands answered in order, nothing else executed
		v.NonTrivial = true
		markers, n252 := 0, 0
		for _, ch := range c.Chunks {
			if ch.Marker {
				markers++
			}
		}
		for _, rp := range rs {
			if rp.Code == 252 {
				n252++
			}
		}
		// chunks after the LAST one are not sent (c05Build stops there)
		sent := 0
		for _, e := range p.body.exp {
			if e.Code == 252 {
				sent++
			}
		}
		if n252 != sent {
			return failf("marker-count", "backend failed after %d octets: %d of %d marker commands were answered; replies %v; stream %s", c.ErrAfter, n252, sent, codes(rs), q(p.body.buf))
		}
		if len(rs) < 3 || rs[len(rs)-3].Code != 250 || rs[len(rs)-2].Code != 250 || rs[len(rs)-1].Code != 221 {
			return failf("closing-commands", "backend failed after %d octets: RSET, MAIL, QUIT behind the transfer answered %v; stream %s", c.ErrAfter, codes(rs), q(p.body.buf))
		}
		if c.Mode == 0 && len(rs) != len(p.body.exp) {
			return failf("reply-count", "backend failed after %d octets: %d replies to %d commands: %v", c.ErrAfter, len(rs), len(p.body.exp), codes(rs))
		}
		mails := 0
		for _, e := range evs {
			if e.CB == "Mail" && e.Begin && e.From == "after@x" {
				mails++
			}
		}
		if mails != 1 {
			return failf("closing-commands", "MAIL behind the transfer reached the backend %d times", mails)
		}
		if pn := r.Log.Panicked(); pn != "" {
			return failf("panic", "server logged a panic: %s", pn)
		}
		return v
	}
	if c.ShuttingDown && len(rs) < len(p.body.exp) {
		// a server that is shutting down may end the connections it still
		// has (421 and goodbye, RFC 5321 3.8): what was answered until then
		// is judged, bait included (above)
		pre := rs
		if n := len(pre); n > 0 && pre[n-1].Code == 421 {
			pre = pre[:n-1]
		}
		if matchReplies(pre, p.body.exp[:len(pre)]) == "" {
			v.Classes = append(v.Classes, "connection_ended_by_the_shutdown")
			return v
		}
	}
	if m := matchReplies(rs, p.body.exp); m != "" {
		return failf("replies", "%s; stream %s", m, q(p.body.buf))
	}
	des := dataEvents(evs)
	begins := dataBegins(evs)
	if !p.expectData {
		if len(begins) != 0 {
			return failf("data-calls", "no chunk was accepted but Data was called; trace %s", traceString(evs))
		}
	} else {
		if len(begins) != 1 || len(des) != 1 {
			return failf("data-calls", "expected exactly one Data call (begin+end), got %d/%d; trace %s", len(begins), len(des), traceString(evs))
		}
		rec := des[0].Data
		if p.expectEOF {
			if !bytes.Equal(rec.Bytes, p.msg) {
				return failf("octets-differ", "backend read %s, concatenation of the chunks is %s", q(rec.Bytes), q(p.msg))
			}
			if !rec.EOF {
				return failf("no-eof", "reader ended with %q after the LAST chunk", rec.ErrStr)
			}
		} else {
			// transfer aborted (bad LAST token leaves it open until QUIT; over
			// limit aborts it): never EOF, and only a prefix may be seen
			if rec.EOF {
				return failf("eof-without-last", "reader reported EOF although no LAST chunk was accepted (read %s)", q(rec.Bytes))
			}
			if !bytes.HasPrefix(p.msg, rec.Bytes) {
				return failf("octets-differ", "backend read %s, not a prefix of the accepted payloads %s", q(rec.Bytes), q(p.msg))
			}
		}
	}
	if pn := r.Log.Panicked(); pn != "" {
		return failf("panic", "server logged a panic: %s", pn)
	}
	return v
}

func c05GenPayload(t *rapid.T, maxLine int, label string) []byte {
	switch rapid.IntRange(0, 7).Draw(t, label+"_k") {
	case 0:
		return nil
	case 1:
		return genBody(t, 8, label)
	case 2:
		return []byte(c05BaitPayload(rapid.IntRange(1, 80).Draw(t, label+"_bn")))
	case 3:
		n := maxLine + rapid.IntRange(-2, 40).Draw(t, label+"_run")
		if n > 2300 {
			n = 2300
		}
		return bytes.Repeat([]byte{'z'}, n)
	case 4:
		return []byte("\r\n.\r\n")
	case 5:
		return rapid.SliceOfN(rapid.Byte(), 1, 40).Draw(t, label+"_raw")
	default:
		return append(genBody(t, 4, label), c05BaitPayload(rapid.IntRange(0, 30).Draw(t, label+"_bn2"))...)
	}
}

func c05Gen(t *rapid.T) c05Case {
	c := c05Case{}
	c.State = rapid.SampledFrom([]string{"valid", "valid", "valid", "nomail", "norcpt", "badlast", "overlimit", "earlyerr", "nogreet", "greetrefused"}).Draw(t, "state")
	c.MaxLine = rapid.SampledFrom([]int{32, 64, 2000}).Draw(t, "maxline")
	if thorough() && c.MaxLine == 2000 && rapid.IntRange(0, 3).Draw(t, "deflim") == 0 {
		c.MaxLine = 0
	}
	c.Mode = rapid.IntRange(0, 2).Draw(t, "mode")
	c.NRcpt = rapid.IntRange(1, 3).Draw(t, "nrcpt")
	n := rapid.IntRange(1, 5).Draw(t, "nchunks")
	ml := c.MaxLine
	if ml == 0 {
		ml = 2000
	}
	for i := 0; i < n; i++ {
		ch := c05Chunk{Payload: c05GenPayload(t, ml, fmt.Sprintf("p%d", i)), Marker: rapid.Bool().Draw(t, "marker"), Lower: rapid.IntRange(0, 5).Draw(t, "lower") == 0}
		if rapid.IntRange(0, 5).Draw(t, "zeros") == 0 {
			ch.Zeros = rapid.IntRange(1, 3).Draw(t, "nzeros")
		}
		if c.State == "nomail" || c.State == "norcpt" || c.State == "overlimit" || c.State == "nogreet" || c.State == "greetrefused" {
			if rapid.Bool().Draw(t, "baitpayload") {
				ch.Payload = c05BaitPayload(len(ch.Payload) + rapid.IntRange(0, 30).Draw(t, "extra"))
			}
			ch.Last = rapid.Bool().Draw(t, "last")
		}
		c.Chunks = append(c.Chunks, ch)
	}
	switch c.State {
	case "earlyerr":
		c.Chunks[n-1].Last = true
		for i := 0; i < n-1; i++ {
			c.Chunks[i].Last = false
		}
		total := 0
		for _, ch := range c.Chunks {
			total += len(ch.Payload)
		}
		c.ErrAfter = rapid.IntRange(0, max(0, total-1)).Draw(t, "err_after")
		if rapid.Bool().Draw(t, "err_at_once") {
			c.ErrAfter = rapid.IntRange(0, 3).Draw(t, "err_after_small")
		}
	case "valid", "badlast":
		c.Chunks[n-1].Last = true
		for i := 0; i < n-1; i++ {
			c.Chunks[i].Last = false
		}
	case "overlimit":
		total := 0
		for _, ch := range c.Chunks {
			total += len(ch.Payload)
		}
		if total == 0 {
			c.Chunks[n-1].Payload = c05BaitPayload(20)
			total = 20
		}
		c.Limit = int64(rapid.IntRange(1, total).Draw(t, "limit")) - 1
		if c.Limit <= 0 {
			c.Limit = 1
			if total <= 1 {
				c.Chunks[n-1].Payload = c05BaitPayload(20)
			}
		}
		seenLast := false
		for i := range c.Chunks {
			if seenLast {
				c.Chunks = c.Chunks[:i]
				break
			}
			seenLast = c.Chunks[i].Last
		}
	}
	if c.State != "nomail" && c.State != "norcpt" && c.State != "nogreet" && c.State != "greetrefused" && rapid.IntRange(0, 3).Draw(t, "prior") == 0 {
		total := 0
		for _, ch := range c.Chunks {
			total += len(ch.Payload)
		}
		bound := total
		if c.State == "overlimit" {
			bound = int(c.Limit)
		} else if rapid.Bool().Draw(t, "fits_limit") {
			c.Limit = int64(total + rapid.IntRange(0, 2).Draw(t, "limit_slack"))
			if c.Limit == 0 {
				c.Limit = 1
			}
			bound = int(c.Limit)
		}
		rem := rapid.IntRange(0, bound).Draw(t, "prior_total")
		for k := rapid.IntRange(1, 3).Draw(t, "prior_chunks"); k > 1; k-- {
			n := rapid.IntRange(0, rem).Draw(t, "prior_chunk")
			c.Prior = append(c.Prior, n)
			rem -= n
		}
		c.Prior = append(c.Prior, rem)
		c.PriorRset = rapid.Bool().Draw(t, "prior_rset")
	}
	p := c05Build(c)
	c.Reads = genReadSizes(t, "reads")
	c.GateStart = rapid.IntRange(0, 2).Draw(t, "gate_start") == 0
	c.ShuttingDown = rapid.IntRange(0, 5).Draw(t, "shutting_down") == 0
	c.Settle = (c.State == "earlyerr" && rapid.Bool().Draw(t, "settle")) || rapid.IntRange(0, 9).Draw(t, "settle_any") == 0
	c.TLS = rapid.IntRange(0, 7).Draw(t, "tls") == 0
	if c.State == "valid" && rapid.IntRange(0, 999).Draw(t, "stall")%100 == 7 {
		// payloads full of bait, stalled somewhere inside
		for i := range c.Chunks {
			c.Chunks[i].Payload = c05BaitPayload(len(c.Chunks[i].Payload) + 30)
		}
		pb := c05Build(c)
		c.StallAt = rapid.IntRange(1, len(pb.body.buf)-1).Draw(t, "stall_at")
		c.GateStart = false
		c.Limit = 0 // the payloads have grown
	}
	// segmentation: interesting positions are the ends of command lines
	var ends []int
	off := 0
	for _, line := range bytes.SplitAfter(p.body.buf, []byte("\r\n")) {
		off += len(line)
		ends = append(ends, off)
	}
	switch rapid.IntRange(0, 4).Draw(t, "segmode") {
	case 0: // everything in one segment
	case 1: // every CRLF ends a segment
		for _, e := range ends {
			if e < len(p.body.buf) {
				c.Cuts = append(c.Cuts, e)
			}
		}
	default:
		c.Cuts = genCuts(t, len(p.body.buf), ends, "cuts")
	}
	return c
}

var c05Sub *subCheck[c05Case]

// ---- no LAST chunk: the reader never reports end-of-file ----

type c05NoLastCase struct {
	Chunks []Octets `json:"chunks"` // payloads of the non-LAST chunks sent (at least one)
	Mode   int      `json:"mode"`   // 0 SMTP, 1 LMTP plain, 2 LMTP per-recipient
	// End: what the client does instead of sending a LAST chunk: "eof" (clean
	// half-close), "eof-with-data" (the half-close reported together with the
	// last octets), "abort", "eof-in-command" (half-close in the middle of
	// the next BDAT line), "quit", "rset", "greet", "mail"
	End       string `json:"end"`
	GateStart bool   `json:"gate_start,omitempty"`
	TLS       bool   `json:"tls,omitempty"`
}

func c05NoLastRun(c c05NoLastCase) Verdict {
	lmtp := c.Mode != 0
	cfg := harness.Config{LMTP: lmtp, EOFWithData: c.End == "eof-with-data"}
	if c.TLS {
		cfg.TLS = "implicit"
	}
	script := harness.Script{LMTPSession: c.Mode == 2, GateStart: c.GateStart,
		DefaultData: &harness.DataPlan{Read: harness.ReadPlan{Limit: -1, Retry: 2}, Honest: true}}
	r := harness.NewRig(cfg, script)
	w, derr := r.Dial()
	if derr != nil {
		w.Finish()
		return Verdict{Inconclusive: "dial: " + derr.Error()}
	}
	if e := preamble(w, lmtp, true, 1); e != "" {
		w.Finish()
		return Verdict{Inconclusive: e}
	}
	var cv conv
	var want []byte
	for _, ch := range c.Chunks {
		cv.cmd(fmt.Sprintf("BDAT %d", len(ch)))
		cv.raw(ch)
		want = append(want, ch...)
	}
	release := func() {
		for i := 0; c.GateStart && i < 64; i++ {
			if st := w.WaitQuiet(); st != harness.QGate {
				break
			}
			r.B.ReleaseArrived()
		}
	}
	switch c.End {
	case "eof", "eof-with-data":
		w.SendFinal(cv.buf)
	case "eof-in-command":
		cv.raw([]byte("BDAT 3 LA"))
		w.SendFinal(cv.buf)
	case "abort":
		w.Send(cv.buf)
		release()
		w.WaitQuiet()
		w.Abort()
	default:
		cv.cmd(map[string]string{"quit": "QUIT", "rset": "RSET", "greet": greetWord(lmtp) + " again", "mail": "MAIL FROM:<next@x>"}[c.End])
		w.Send(cv.buf)
	}
	release()
	_, fin := w.Finish()
	if !fin {
		return finishFail(w)
	}
	v := Verdict{NonTrivial: true, Classes: []string{"nolast_" + c.End}}
	if p := r.Log.Panicked(); p != "" {
		return failf("panic", "server logged a panic: %s", p)
	}
	des := dataEvents(r.B.Events())
	if len(des) > 1 {
		return failf("data-calls", "more than one Data call for one unfinished transfer: %s", traceString(r.B.Events()))
	}
	if len(des) == 0 {
		// the delivery had not started when the transfer was given up: nothing was handed over
		v.Classes = append(v.Classes, "nolast_never_delivered")
		return v
	}
	d := des[0].Data
	if d.EOF {
		return failf("eof-without-last", "no LAST chunk was ever sent (the client ended with %q after %d chunk(s)), yet the reader reported end-of-file after %s", c.End, len(c.Chunks), q(d.Bytes))
	}
	if !bytes.HasPrefix(want, d.Bytes) {
		return failf("payload", "the reader yielded %s, which is not a prefix of the chunk payloads %s", q(d.Bytes), q(want))
	}
	if c.End != "abort" && !bytes.Equal(want, d.Bytes) && !c.GateStart {
		// every chunk was acknowledged or at least complete on the wire
		// before the transfer was given up; what arrived is a prefix either
		// way, and how much of it a failing reader still hands out is the
		// server's business
		v.Classes = append(v.Classes, "nolast_short_prefix")
	}
	return v
}

var c05NoLast *subCheck[c05NoLastCase]

func init() {
	registrars = append(registrars, func() {
		c05Sub = newSub("C05", "rapid", c05Run)
		c05NoLast = newSub("C05", "nolast", c05NoLastRun)
	})
}

func TestC05(t *testing.T) {
	registerAll()
	st.Rule = "cases = (chunk list with payloads over all 256 octets / bait commands / LF-free runs around the line limit, LAST placement, VRFY markers after chunks, session state valid|nomail|norcpt|badlast|overlimit|no greeting yet|greeting refused by the backend, optional earlier chunked transaction (completed or RSET) and a size limit the messages fit, line limit, SMTP/LMTP mode, segmentation of the BDAT part, backend read sizes); plus transfers that never get a LAST chunk (the client hangs up at or inside a command boundary, resets, quits, greets again or starts a new MAIL): the reader never reports end-of-file; non-trivial = >=2 chunks OR a refused BDAT with payload OR an LF-free run longer than the line limit OR a BDAT line sharing its segment with the octets that follow; distinct = hash of the whole case"
	if !regress(t, "C05") {
		return
	}
	c05Sub.rapidCheck(t, pickTier(6000, 40000), c05Gen)
	if t.Failed() {
		return
	}
	c05NoLast.rapidCheck(t, pickTier(800, 8000), func(rt *rapid.T) c05NoLastCase {
		c := c05NoLastCase{Mode: rapid.IntRange(0, 2).Draw(rt, "mode"), GateStart: rapid.IntRange(0, 3).Draw(rt, "gate_start") == 0, TLS: rapid.IntRange(0, 5).Draw(rt, "tls") == 0,
			End: rapid.SampledFrom([]string{"eof", "eof-with-data", "abort", "eof-in-command", "quit", "rset", "greet", "mail"}).Draw(rt, "end")}
		for i, n := 0, rapid.IntRange(1, 3).Draw(rt, "nchunks"); i < n; i++ {
			c.Chunks = append(c.Chunks, Octets(genBody(rt, 4, "chunk")))
		}
		return c
	})
}

func FuzzC05(f *testing.F) {
	registerAll()
	f.Add([]byte("hello\r\n.\r\nMAIL FROM:<bait@x>\r\n"), []byte{3, 0, 200}, uint8(0), uint16(0))
	f.Add(bytes.Repeat([]byte("z"), 300), []byte{255, 45}, uint8(1), uint16(0))
	f.Add([]byte(c05Bait), []byte{10, 10, 10}, uint8(2), uint16(0xaaaa))
	f.Add([]byte(c05Bait), []byte{10, 10, 10}, uint8(3), uint16(1))
	f.Add([]byte(c05Bait), []byte{10, 10, 10}, uint8(4), uint16(0))
	f.Fuzz(func(t *testing.T, payload []byte, sizes []byte, state uint8, cutSeed uint16) {
		if len(payload) > 6000 || len(sizes) > 8 || len(sizes) == 0 {
			return
		}
		c := c05Case{State: []string{"valid", "nomail", "norcpt", "badlast", "overlimit"}[int(state)%5],
			MaxLine: []int{32, 64, 2000}[int(state/5)%3], Mode: int(state/15) % 3, NRcpt: 1 + int(state/45)%3, ShuttingDown: state >= 225}
		rest := payload
		for i, s := range sizes {
			n := int(s)
			if n > len(rest) {
				n = len(rest)
			}
			ch := c05Chunk{Payload: append([]byte(nil), rest[:n]...), Marker: cutSeed&(1<<uint(i)) != 0}
			rest = rest[n:]
			c.Chunks = append(c.Chunks, ch)
		}
		c.Chunks[len(c.Chunks)-1].Last = true
		if c.State == "overlimit" {
			total := len(payload) - len(rest)
			if total < 2 {
				return
			}
			c.Limit = int64(total / 2)
		}
		p := c05Build(c)
		if cutSeed != 0 {
			for k := 1; k < len(p.body.buf) && k < 3000; k++ {
				if (uint(k)*2654435761>>7)%uint(1+cutSeed%13) == 0 {
					c.Cuts = append(c.Cuts, k)
				}
			}
		}
		if v := c05Run(c); v.Fail != "" {
			t.Fatalf("C05: %s\ncase: %s", v.Fail, mustJSONString(c))
		}
	})
}
