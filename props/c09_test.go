package props

import (
	"bufio"
	"bytes"
	"encoding/base64"
	"errors"
	"fmt"
	"io"
	"net"
	"strconv"
	"strings"
	"testing"
	"time"

	"github.com/emersion/go-smtp"
	"pgregory.net/rapid"

	"verif/harness"
)

// C09 - AUTH is unreachable on insecure connections and succeeds at most once.

// ---- server half ----

type c09Act struct {
	Op    string   `json:"op"`             // greet starttls noop auth
	Mech  string   `json:"mech,omitempty"` // auth
	IR    *string  `json:"ir,omitempty"`   // raw initial-response token as sent (nil = none)
	Steps []string `json:"steps,omitempty"`
}

type c09Case struct {
	TLS          string               `json:"tls"` // "", "starttls" (available), "implicit"
	InsecureAuth bool                 `json:"insecure_auth"`
	AuthBackend  bool                 `json:"auth_backend"`
	LMTP         bool                 `json:"lmtp,omitempty"`
	SASL         []harness.SASLScript `json:"sasl"`
	Acts         []c09Act             `json:"acts"`
}

func b64(b []byte) string { return base64.StdEncoding.EncodeToString(b) }

// decodeToken models RFC 4954: "=" is the empty string, else base64.
func decodeToken(tok string, initial bool) ([]byte, bool) {
	if tok == "=" {
		return []byte{}, true
	}
	b, err := base64.StdEncoding.DecodeString(tok)
	if err != nil {
		return nil, false
	}
	return b, true
}

// saslTaken counts the Auth callbacks that handed out a mechanism (each takes
// the next SASL script of the backend).
func saslTaken(evs []harness.Event) int {
	n := 0
	for _, e := range evs {
		if e.CB == "Auth" && !e.Begin && e.Err == nil {
			n++
		}
	}
	return n
}

func c09Run(c c09Case) Verdict {
	cfg := harness.Config{LMTP: c.LMTP, AllowInsecureAuth: c.InsecureAuth, TLS: c.TLS}
	script := harness.Script{AuthSession: c.AuthBackend, Mechs: []string{"PLAIN", "XTEST"}, SASL: c.SASL, LMTPSession: c.LMTP}
	r := harness.NewRig(cfg, script)
	w, err := r.Dial()
	if err != nil {
		w.Finish()
		return Verdict{Inconclusive: "dial: " + err.Error()}
	}
	if st := w.WaitQuiet(); st != harness.QIdle {
		w.Finish()
		return Verdict{Inconclusive: "server not idle after connect: " + st}
	}
	w.Recv()
	fail := func(v Verdict) Verdict { w.Finish(); return v }
	greeted, tls, authed := false, c.TLS == "implicit", false
	authMaybe := false // authenticated before a failed TLS handshake: kept or not
	nSASL := 0
	nev := 0
	v := Verdict{}
	cls := map[string]bool{}
	var wantNext [][]byte // every octet string the mechanisms must have received, in order
	wantNil := []bool{}
	gaveUp := false
	closedNow := func() bool {
		r.Hub.Lock()
		defer r.Hub.Unlock()
		return w.S.ClosedLocked()
	}
	for ai, a := range c.Acts {
		if gaveUp {
			break
		}
		exch := func(line string) ([]harness.Reply, []harness.Event, string) {
			out, st := w.Exchange([]byte(line + "\r\n"))
			rs, perr := harness.ParseReplies(out)
			evs := r.B.Events()
			win := evs[nev:]
			nev = len(evs)
			if perr != nil {
				return rs, win, "reply syntax: " + perr.Error()
			}
			if st != harness.QIdle && st != harness.QClosed {
				return rs, win, "server state " + st
			}
			return rs, win, ""
		}
		allowed := tls || c.InsecureAuth
		switch a.Op {
		case "greet":
			rs, _, e := exch(greetWord(c.LMTP) + " cli")
			if e != "" || len(rs) != 1 || rs[0].Code != 250 {
				return fail(Verdict{Inconclusive: fmt.Sprintf("greeting: %v %s", codes(rs), e)})
			}
			hasAuth := false
			for _, l := range rs[0].Lines[1:] {
				if strings.HasPrefix(l, "AUTH") {
					hasAuth = true
				}
			}
			if hasAuth && !allowed {
				return fail(failf("auth-advertised", "AUTH advertised on an insecure connection (tls=%v insecure allowed=%v): %q", tls, c.InsecureAuth, rs[0].Lines))
			}
			if !hasAuth && allowed && c.AuthBackend {
				return fail(failf("auth-not-advertised", "AUTH not advertised although permitted: %q", rs[0].Lines))
			}
			greeted = true
		case "noop":
			rs, _, e := exch("NOOP")
			if e != "" || len(rs) != 1 || rs[0].Code != 250 {
				return fail(failf("command-mode", "act %d: NOOP answered %v %s: the connection is not in command mode", ai, codes(rs), e))
			}
		case "starttls":
			rs, _, e := exch("STARTTLS")
			if e != "" || len(rs) != 1 {
				return fail(Verdict{Inconclusive: "STARTTLS: " + e})
			}
			if c.TLS == "starttls" && !tls {
				if rs[0].Code != 220 {
					return fail(failf("starttls", "STARTTLS answered %s", rs[0]))
				}
				if err := w.StartTLS(); err != nil {
					return fail(Verdict{Inconclusive: "handshake: " + err.Error()})
				}
				w.WaitQuiet()
				nev = len(r.B.Events())
				tls, greeted, authed, authMaybe = true, false, false, false
				cls["auth_state_across_starttls"] = true
			} else if rs[0].Class() != 5 {
				return fail(failf("starttls", "STARTTLS not available but answered %s", rs[0]))
			}
		case "starttls-fail":
			// STARTTLS accepted, but the client then sends plaintext instead of
			// a handshake: the upgrade fails and the connection stays insecure
			if c.TLS != "starttls" || tls {
				break
			}
			rs, _, e := exch("STARTTLS")
			if e != "" || len(rs) != 1 || rs[0].Code != 220 {
				return fail(failf("starttls", "STARTTLS answered %v %s", codes(rs), e))
			}
			rs, _, e = exch("this-is-not-a-tls-handshake")
			if closedNow() {
				// giving up the connection after a failed handshake (with or
				// without a last negative reply) is a legitimate answer: the
				// conversation is over
				for _, rp := range rs {
					if rp.Class() == 2 || rp.Class() == 3 {
						return fail(failf("starttls", "plaintext instead of a TLS handshake answered %v", codes(rs)))
					}
				}
				cls["failed_handshake_connection_given_up"] = true
				gaveUp = true
				break
			}
			if e != "" || len(rs) != 1 || rs[0].Class() == 2 {
				return fail(failf("starttls", "plaintext instead of a TLS handshake answered %v %s", codes(rs), e))
			}
			cls["failed_handshake"] = true
			// nothing was upgraded; whether the greeting survives is not
			// specified here: greet again before going on
			rs, _, e = exch(greetWord(c.LMTP) + " again")
			if e != "" || len(rs) != 1 || rs[0].Code != 250 {
				return fail(Verdict{Inconclusive: fmt.Sprintf("greeting after a failed handshake: %v %s", codes(rs), e)})
			}
			for _, l := range rs[0].Lines[1:] {
				if strings.HasPrefix(l, "AUTH") && !c.InsecureAuth {
					return fail(failf("auth-advertised", "AUTH advertised in plaintext after a failed TLS handshake: %q", rs[0].Lines))
				}
			}
			greeted = true
			if authed {
				// whether an authentication survives an upgrade that failed
				// is not specified either ("erased by STARTTLS" speaks of
				// one that succeeded): the next attempt tells
				authed, authMaybe = false, true
			}
		case "auth":
			if a.IR != nil && *a.IR == "" {
				a.IR = nil // an empty token cannot be sent: it is "no initial response" ("=" is the empty one)
			}
			line := "AUTH " + a.Mech
			if a.IR != nil {
				line += " " + *a.IR
			}
			rs, win, e := exch(line)
			if e != "" {
				return fail(failf("auth-reply", "act %d (%s): %s", ai, line, e))
			}
			// feed responses while the server asks
			steps := a.Steps
			for len(rs) > 0 && rs[len(rs)-1].Code == 334 {
				resp := "*"
				if len(steps) > 0 {
					resp, steps = steps[0], steps[1:]
				}
				more, win2, e := exch(resp)
				if e != "" {
					return fail(failf("auth-reply", "act %d: response %q: %s", ai, resp, e))
				}
				rs = append(rs, more...)
				win = append(win, win2...)
			}
			nexts := eventsOf(win, "SASLNext", false)
			final := harness.Reply{}
			if len(rs) > 0 {
				final = rs[len(rs)-1]
			}
			refuse := func(why string, code int) *Verdict {
				if len(rs) != 1 || final.Class() == 2 || final.Class() == 3 || (code != 0 && final.Code != code) {
					f := failf("auth-not-refused", "act %d: %s must be refused (%s), got %v", ai, line, why, codes(rs))
					return &f
				}
				if len(nexts) != 0 {
					f := failf("mechanism-reached", "act %d: %s is refused (%s) but the SASL mechanism received %q", ai, line, why, nexts[0].Resp)
					return &f
				}
				return nil
			}
			known := strings.EqualFold(a.Mech, "PLAIN") || strings.EqualFold(a.Mech, "XTEST")
			var irBytes []byte
			irOK := true
			if a.IR != nil {
				irBytes, irOK = decodeToken(*a.IR, true)
			}
			if authMaybe && greeted {
				cls["auth_state_after_failed_handshake_unspecified"] = true
				if len(rs) == 1 && final.Code == 503 {
					authed = true // it was kept
				}
				authMaybe = false
			}
			switch {
			case !greeted:
				cls["auth_before_greeting"] = true
				if bad := refuse("no greeting", 0); bad != nil {
					return fail(*bad)
				}
			case authed:
				cls["second_auth"] = true
				if bad := refuse("already authenticated", 503); bad != nil {
					return fail(*bad)
				}
			case !allowed:
				cls["insecure_not_allowed"] = true
				if bad := refuse("insecure connection", 0); bad != nil {
					return fail(*bad)
				}
				if final.Class() != 5 {
					return fail(failf("auth-not-refused", "AUTH on an insecure connection answered %s, want 5xx", final))
				}
			case !irOK:
				cls["bad_base64_ir"] = true
				if bad := refuse("initial response is not base64", 0); bad != nil {
					return fail(*bad)
				}
			case !c.AuthBackend || !known:
				if bad := refuse("no such mechanism", 0); bad != nil {
					return fail(*bad)
				}
			default:
				// run the model of the exchange
				var sc harness.SASLScript
				// every Auth callback takes the next script - also one made
				// for an attempt that was then refused before the mechanism
				// got anything (whether the mechanism is created before or
				// after the initial response is decoded is the server's choice)
				nSASL = saslTaken(r.B.Events()) - saslTaken(win)
				if nSASL < 0 {
					nSASL = 0
				}
				if nSASL < len(c.SASL) {
					sc = c.SASL[nSASL]
				}
				var wantCodes []int
				var wantChal [][]byte
				var mech [][]byte
				var mechNil []bool
				resp, respNil := irBytes, a.IR == nil
				steps := a.Steps
				outcome := ""
				for i := 0; ; i++ {
					mech = append(mech, resp)
					mechNil = append(mechNil, respNil)
					if i < len(sc.Challenges) {
						wantCodes = append(wantCodes, 334)
						wantChal = append(wantChal, sc.Challenges[i])
						tok := "*"
						if len(steps) > 0 {
							tok, steps = steps[0], steps[1:]
						}
						if tok == "*" {
							wantCodes = append(wantCodes, 501)
							outcome = "cancelled"
							break
						}
						b, ok := decodeToken(tok, false)
						if !ok {
							wantCodes = append(wantCodes, -4) // some non-2xx, non-3xx reply
							outcome = "bad-base64"
							break
						}
						resp, respNil = b, false
						continue
					}
					if sc.Final.OK() {
						wantCodes = append(wantCodes, 235)
						outcome = "success"
					} else {
						if sc.Final.Kind == "plain" {
							// (which negative code an error that is not an
							// SMTPError gets is the server's business)
							wantCodes = append(wantCodes, -4)
						} else {
							wantCodes = append(wantCodes, decisionCode(sc.Final, 454))
						}
						outcome = "failed"
					}
					break
				}
				if n := len(wantCodes); outcome == "success" && len(sc.FinalData) > 0 && len(rs) == n+1 && rs[n-1].Code == 334 {
					// The mechanism finished with data for the client. SMTP's
					// 235 cannot carry it: a server either drops it, or (RFC
					// 4954 section 4) sends it as one more challenge, which
					// the client acknowledges with an empty response. The
					// second way the client's answer still counts: a
					// cancellation or a line that is not base64 must not end
					// in 235.
					cls["final_data_sent_as_challenge"] = true
					extra, last := rs[n-1], rs[n]
					if extra.Text() != b64(sc.FinalData) {
						return fail(failf("challenge", "act %d: the mechanism's final data %q sent as %q", ai, sc.FinalData, extra.Text()))
					}
					tok := "*"
					if len(steps) > 0 {
						tok = steps[0]
					}
					ack, okTok := decodeToken(tok, false)
					switch {
					case tok == "*" || !okTok:
						if last.Class() == 2 || last.Class() == 3 {
							return fail(failf("auth-replies", "act %d: the client answered the last challenge with %q (a cancellation, or not base64), yet the exchange ended in %s", ai, tok, last))
						}
						outcome = "cancelled"
					case len(ack) == 0:
						if last.Code != 235 {
							return fail(failf("auth-replies", "act %d: the client acknowledged the final data with an empty response, the mechanism had succeeded, yet the reply is %s", ai, last))
						}
					default:
						// a non-empty answer to data that asks for none: the server's call
						if last.Code != 235 {
							outcome = "failed"
						}
					}
					rs = append(append([]harness.Reply(nil), rs[:n-1]...), last)
					wantCodes[n-1] = last.Code
				}
				cls["exchange_"+outcome] = true
				if len(sc.Challenges) > 0 {
					cls["with_challenges"] = true
				}
				if len(rs) != len(wantCodes) {
					return fail(failf("auth-replies", "act %d: %s (steps %q): expected replies %v, got %v", ai, line, a.Steps, wantCodes, codes(rs)))
				}
				ci := 0
				for i, wc := range wantCodes {
					switch {
					case wc == -4:
						if rs[i].Class() == 2 || rs[i].Class() == 3 {
							return fail(failf("auth-replies", "act %d: bad base64 answered %s", ai, rs[i]))
						}
					case rs[i].Code != wc:
						return fail(failf("auth-replies", "act %d: %s (steps %q): expected replies %v, got %v", ai, line, a.Steps, wantCodes, codes(rs)))
					case wc == 334:
						if got := rs[i].Text(); got != b64(wantChal[ci]) {
							return fail(failf("challenge", "act %d: challenge %d sent as %q, want base64 of %q", ai, ci, got, wantChal[ci]))
						}
						ci++
					}
				}
				if len(nexts) != len(mech) {
					return fail(failf("mechanism-input", "act %d: mechanism was called %d times, the client sent %d octet strings", ai, len(nexts), len(mech)))
				}
				for i := range mech {
					if !bytes.Equal(nexts[i].Resp, mech[i]) || (i == 0 && nexts[i].RespNil != mechNil[i]) {
						return fail(failf("mechanism-input", "act %d: mechanism call %d received %q (nil=%v), the client sent %q (absent=%v)", ai, i, nexts[i].Resp, nexts[i].RespNil, mech[i], mechNil[i]))
					}
				}
				wantNext = append(wantNext, mech...)
				wantNil = append(wantNil, mechNil...)
				if outcome == "success" {
					authed = true
				}
			}
		}
	}
	_, fin := w.Finish()
	if !fin {
		return finishFail(w)
	}
	if p := r.Log.Panicked(); p != "" {
		return failf("panic", "server logged a panic: %s", p)
	}
	all := eventsOf(r.B.Events(), "SASLNext", false)
	if len(all) != len(wantNext) {
		return failf("mechanism-input", "mechanisms received %d octet strings in total, the model says %d", len(all), len(wantNext))
	}
	for k := range cls {
		v.Classes = append(v.Classes, k)
	}
	v.NonTrivial = cls["with_challenges"] || cls["insecure_not_allowed"] || cls["second_auth"]
	return v
}

func c09GenToken(t *rapid.T, initial bool) string {
	switch rapid.IntRange(0, 9).Draw(t, "tok") {
	case 0:
		return "="
	case 1:
		return "!!notbase64"
	case 2:
		if !initial {
			return "*"
		}
		return "="
	case 3:
		if !initial {
			return "" // empty line: zero-length response
		}
		return b64([]byte{0})
	case 4:
		return "abc" // bad padding
	}
	return b64(rapid.SliceOfN(rapid.Byte(), 0, 12).Draw(t, "octets"))
}

func c09Gen(t *rapid.T) c09Case {
	c := c09Case{TLS: rapid.SampledFrom([]string{"", "starttls", "implicit"}).Draw(t, "tls"), InsecureAuth: rapid.Bool().Draw(t, "insecure"),
		AuthBackend: rapid.IntRange(0, 4).Draw(t, "backend") != 0, LMTP: rapid.IntRange(0, 4).Draw(t, "lmtp") == 0}
	for i := 0; i < 4; i++ {
		sc := harness.SASLScript{}
		for j, n := 0, rapid.IntRange(0, 3).Draw(t, "nchal"); j < n; j++ {
			sc.Challenges = append(sc.Challenges, rapid.SliceOfN(rapid.Byte(), 0, 10).Draw(t, "chal"))
		}
		switch rapid.IntRange(0, 3).Draw(t, "final") {
		case 0:
			sc.Final = harness.Decision{Kind: "smtp", Code: 535, Enh: [3]int{5, 7, 8}, Msg: "Authentication failed"}
		case 1:
			sc.Final = harness.Decision{Kind: "plain", Msg: "backend trouble"}
		default:
			if rapid.IntRange(0, 2).Draw(t, "final_data") == 0 {
				sc.FinalData = rapid.SliceOfN(rapid.Byte(), 1, 10).Draw(t, "final_data_octets")
			}
		}
		c.SASL = append(c.SASL, sc)
	}
	genAuth := func() c09Act {
		a := c09Act{Op: "auth", Mech: rapid.SampledFrom([]string{"PLAIN", "plain", "XTEST", "XTEST", "BOGUS"}).Draw(t, "mech")}
		if rapid.Bool().Draw(t, "has_ir") {
			s := c09GenToken(t, true)
			a.IR = &s
		}
		for j, n := 0, rapid.IntRange(0, 3).Draw(t, "nsteps"); j < n; j++ {
			a.Steps = append(a.Steps, c09GenToken(t, false))
		}
		// usually supply enough answers
		for len(a.Steps) < 3 && rapid.Bool().Draw(t, "pad") {
			a.Steps = append(a.Steps, b64(rapid.SliceOfN(rapid.Byte(), 0, 6).Draw(t, "padoct")))
		}
		return a
	}
	n := rapid.IntRange(1, 8).Draw(t, "nacts")
	greeted := false
	for i := 0; i < n; i++ {
		switch x := rapid.IntRange(0, 9).Draw(t, "act"); {
		case !greeted && x < 7:
			c.Acts = append(c.Acts, c09Act{Op: "greet"})
			greeted = true
		case x < 6:
			c.Acts = append(c.Acts, genAuth())
		case x == 6:
			c.Acts = append(c.Acts, c09Act{Op: "noop"})
		case x == 7 && rapid.IntRange(0, 2).Draw(t, "hsfail") == 0:
			c.Acts = append(c.Acts, c09Act{Op: "starttls-fail"})
			greeted = true
		case x == 7:
			c.Acts = append(c.Acts, c09Act{Op: "starttls"})
			if c.TLS == "starttls" {
				greeted = false
			}
		case x == 8:
			c.Acts = append(c.Acts, c09Act{Op: "greet"})
			greeted = true
		default:
			c.Acts = append(c.Acts, genAuth(), c09Act{Op: "noop"})
		}
	}
	return c
}

// ---- server half: the connection fails in the middle of an exchange ----

type c09FaultCase struct {
	Implicit bool   `json:"implicit_tls"` // else plaintext with AllowInsecureAuth
	LMTP     bool   `json:"lmtp,omitempty"`
	NChal    int    `json:"nchal"` // challenges the mechanism wants answered (>= 1)
	NResp    int    `json:"nresp"` // responses the client sends before the fault (< NChal)
	IR       bool   `json:"ir"`
	Fault    string `json:"fault"` // eof (half-close), abort, stall (silence past the 100 ms read timeout)
}

// c09FaultRun: everything up to the fault is sent in one segment; then the
// client half-closes, resets, or goes silent until the server has reacted to
// its read timeout. The mechanism has not finished, so the server must not
// announce success.
func c09FaultRun(c c09FaultCase) Verdict {
	cfg := harness.Config{LMTP: c.LMTP, AllowInsecureAuth: !c.Implicit}
	if c.Implicit {
		cfg.TLS = "implicit"
	}
	if c.Fault == "stall" {
		cfg.ReadTimeoutMs = 100
	}
	sc := harness.SASLScript{}
	for i := 0; i < c.NChal; i++ {
		sc.Challenges = append(sc.Challenges, []byte(fmt.Sprintf("challenge-%d", i)))
	}
	script := harness.Script{AuthSession: true, Mechs: []string{"XTEST"}, SASL: []harness.SASLScript{sc}, LMTPSession: c.LMTP}
	r := harness.NewRig(cfg, script)
	w, err := r.Dial()
	if err != nil {
		w.Finish()
		return Verdict{Inconclusive: "dial: " + err.Error()}
	}
	var sb strings.Builder
	sb.WriteString(greetWord(c.LMTP) + " cli\r\nAUTH XTEST")
	if c.IR {
		sb.WriteString(" " + b64([]byte("initial")))
	}
	sb.WriteString("\r\n")
	for i := 0; i < c.NResp; i++ {
		sb.WriteString(b64([]byte(fmt.Sprintf("response-%d", i))) + "\r\n")
	}
	w.Send([]byte(sb.String()))
	switch c.Fault {
	case "eof":
		w.WaitQuiet()
		w.CloseWrite()
	case "abort":
		w.WaitQuiet()
		w.Abort()
	case "stall":
		// state-based: until the server has closed the connection
		r.Hub.WaitUntil(func() bool { return w.S.ClosedLocked() }, harness.Watchdog)
	}
	rest, fin := w.Finish()
	if !fin {
		return finishFail(w)
	}
	v := Verdict{NonTrivial: true, Classes: []string{"fault_" + c.Fault, fmt.Sprintf("answered_%d_of_%d", c.NResp, c.NChal)}}
	if p := r.Log.Panicked(); p != "" {
		return failf("panic", "server logged a panic: %s", p)
	}
	out := append(append([]byte(nil), w.Out...), rest...)
	rs, perr := harness.ParseRepliesLenient(w.Out)
	_ = out
	if perr != nil && c.Fault != "abort" {
		return failf("reply-syntax", "replies do not parse: %v (%s)", perr, q(w.Out))
	}
	n334 := 0
	for _, rp := range rs {
		if rp.Code == 235 {
			return failf("success-without-approval", "the connection failed (%s) after %d of %d challenges were answered, yet the server announced 235; replies %v", c.Fault, c.NResp, c.NChal, codes(rs))
		}
		if rp.Code == 334 {
			n334++
		}
	}
	if c.Fault != "abort" && n334 != c.NResp+1 {
		return failf("challenges", "expected %d challenges before the fault, got %d; replies %v", c.NResp+1, n334, codes(rs))
	}
	nexts := eventsOf(r.B.Events(), "SASLNext", false)
	if len(nexts) > c.NResp+1 {
		return failf("mechanism-input", "the client sent %d octet strings, the mechanism received %d", c.NResp+1, len(nexts))
	}
	return v
}

// ---- client half ----

type c09ClientCase struct {
	Mech      string             `json:"mech"`
	IR        *Octets            `json:"ir"`        // nil = no initial response
	StartErr  bool               `json:"start_err"` // Start fails
	Responses []*Octets          `json:"responses"` // response to the i-th challenge (nil pointer = nil slice)
	ErrAt     int                `json:"err_at"`    // Next fails at this step (-1 = never)
	Server    harness.SASLScript `json:"server"`
	// HangUp: the scripted peer closes the connection right after its final
	// reply to the exchange (a server may: 421 / 535 and goodbye). The result
	// of Auth is still that reply.
	HangUp bool `json:"hang_up,omitempty"`
	// Frag > 0: the server's replies reach the client in segments of at most
	// Frag octets (a network may deliver a reply octet by octet)
	Frag int `json:"frag,omitempty"`
}

type scriptedSASLClient struct {
	c          c09ClientCase
	challenges [][]byte
	step       int
}

var errClientMech = errors.New("scripted client mechanism failure")

func (s *scriptedSASLClient) Start() (string, []byte, error) {
	if s.c.StartErr {
		return "", nil, errClientMech
	}
	if s.c.IR == nil {
		return s.c.Mech, nil, nil
	}
	if len(*s.c.IR) == 0 {
		return s.c.Mech, []byte{}, nil
	}
	return s.c.Mech, []byte(*s.c.IR), nil
}

func (s *scriptedSASLClient) Next(challenge []byte) ([]byte, error) {
	s.challenges = append(s.challenges, append([]byte(nil), challenge...))
	i := s.step
	s.step++
	if i == s.c.ErrAt {
		return nil, errClientMech
	}
	if i < len(s.c.Responses) {
		if s.c.Responses[i] == nil {
			return nil, nil
		}
		return []byte(*s.c.Responses[i]), nil
	}
	return []byte("extra"), nil
}

func c09ClientRun(c c09ClientCase) Verdict {
	script := harness.Script{AuthSession: true, Mechs: []string{"XTEST"}, SASL: []harness.SASLScript{c.Server}}
	// (the server's command line limit is raised to what RFC 4954 asks of an AUTH line)
	r := harness.NewRig(harness.Config{AllowInsecureAuth: true, FragmentReplies: c.Frag, MaxLineLength: 12288 + 2}, script)
	mech := &scriptedSASLClient{c: c}
	var authErr, noopErr error
	ok := withClient(r, false, func(cl *smtp.Client, w *harness.Wire) {
		authErr = cl.Auth(mech)
		noopErr = cl.Noop()
	})
	if !ok {
		stacks := harness.BlockedStacks(harness.Stacks())
		_ = stacks
		return failf("client-hang", "Client.Auth / Noop did not return: the exchange is out of step (client mechanism %+v, server script %+v)", c, c.Server)
	}
	v := Verdict{NonTrivial: len(c.Server.Challenges) > 0}
	if len(c.Server.Challenges) > 0 {
		v.Classes = append(v.Classes, "with_challenges")
	}
	nexts := eventsOf(r.B.Events(), "SASLNext", false)
	if c.StartErr {
		v.Classes = append(v.Classes, "start_error")
		if authErr != errClientMech {
			return failf("client-result", "Start failed but Auth returned %v", authErr)
		}
		if len(nexts) != 0 {
			return failf("server-input", "Start failed but the server mechanism was called")
		}
		if noopErr != nil {
			return failf("usable", "connection unusable after a failed Start: %v", noopErr)
		}
		return v
	}
	// model
	var wantServer [][]byte
	var wantClient [][]byte
	var first []byte
	firstNil := c.IR == nil
	if c.IR != nil {
		first = []byte(*c.IR)
	}
	resp := first
	outcome := ""
	for i := 0; ; i++ {
		wantServer = append(wantServer, resp)
		if i < len(c.Server.Challenges) {
			wantClient = append(wantClient, c.Server.Challenges[i])
			if i == c.ErrAt {
				outcome = "client-error"
				break
			}
			if i < len(c.Responses) {
				if c.Responses[i] == nil {
					resp = nil
				} else {
					resp = []byte(*c.Responses[i])
				}
			} else {
				resp = []byte("extra")
			}
			continue
		}
		if c.Server.Final.OK() {
			outcome = "success"
		} else {
			outcome = "failed"
		}
		break
	}
	v.Classes = append(v.Classes, "outcome_"+outcome)
	if c.HangUp && outcome != "client-error" {
		v.Classes = append(v.Classes, "peer_hangs_up_after_final_reply")
	}
	if n := len(wantClient); outcome == "success" && len(c.Server.FinalData) > 0 && len(mech.challenges) == n+1 && bytes.Equal(mech.challenges[n], c.Server.FinalData) {
		// A server that hands the mechanism's final data to the client the
		// RFC 4954 way (one more 334): the client mechanism sees it as a
		// challenge of its own, and what a scripted mechanism with no step
		// left answers, and what becomes of the exchange then, is not this
		// property's business. The octets crossed unaltered.
		for i := 0; i < n; i++ {
			if !bytes.Equal(mech.challenges[i], wantClient[i]) {
				return failf("client-input", "challenge %d reached the client mechanism as %q, the server sent %q", i, mech.challenges[i], wantClient[i])
			}
		}
		v.Classes = append(v.Classes, "final_data_sent_as_challenge")
		return v
	}
	if len(mech.challenges) != len(wantClient) {
		return failf("client-input", "client mechanism received %d challenges, the server sent %d (outcome %s, Auth returned %v)", len(mech.challenges), len(wantClient), outcome, authErr)
	}
	for i := range wantClient {
		if !bytes.Equal(mech.challenges[i], wantClient[i]) {
			return failf("client-input", "challenge %d arrived as %q, the server mechanism produced %q", i, mech.challenges[i], wantClient[i])
		}
	}
	if len(nexts) != len(wantServer) {
		return failf("server-input", "server mechanism was called %d times, want %d (outcome %s, Auth returned %v); got %v", len(nexts), len(wantServer), outcome, authErr, traceString(nexts))
	}
	for i := range wantServer {
		if !bytes.Equal(nexts[i].Resp, wantServer[i]) {
			return failf("server-input", "server mechanism call %d received %q, the client mechanism produced %q", i, nexts[i].Resp, wantServer[i])
		}
	}
	if nexts[0].RespNil != firstNil {
		return failf("server-input", "initial response: server saw nil=%v, client gave nil=%v", nexts[0].RespNil, firstNil)
	}
	switch outcome {
	case "success":
		if authErr != nil {
			return failf("client-result", "server accepted (235) but Auth returned %v", authErr)
		}
	case "failed":
		se, isSMTP := authErr.(*smtp.SMTPError)
		want := decisionCode(c.Server.Final, 454)
		if isSMTP && c.Server.Final.Kind == "plain" && (se.Code/100 == 4 || se.Code/100 == 5) {
			want = se.Code // (the server's choice of a negative code)
		}
		if !isSMTP || se.Code != want {
			return failf("client-result", "server refused with %d but Auth returned %v", want, authErr)
		}
		if c.Server.Final.Kind == "smtp" && (se.Message != c.Server.Final.Msg || se.EnhancedCode != smtp.EnhancedCode(c.Server.Final.Enh)) {
			return failf("client-result", "server's final reply %+v, Auth returned %+v", c.Server.Final, se)
		}
	case "client-error":
		if authErr != errClientMech {
			return failf("client-result", "client mechanism failed but Auth returned %v", authErr)
		}
	}
	if noopErr != nil {
		return failf("usable", "after Auth (%s) the next command fails: %v", outcome, noopErr)
	}
	// the same exchange as a peer that reads the wire strictly sees it
	if bad := c09StrictRun(c, wantServer, firstNil, outcome); bad != nil {
		bad.Classes, bad.NonTrivial = v.Classes, v.NonTrivial
		return *bad
	}
	return v
}

// c09StrictPeer is a reference AUTH server that reads the wire exactly as RFC
// 4954 defines it: "=" stands for the empty string in the initial response
// only, every other response is the base64 of the octets (an empty line for
// none), "*" cancels. It plays the case's server script and records what it
// decoded.
type c09StrictPeer struct {
	hangUp bool
	script harness.SASLScript
	got    [][]byte
	gotNil bool // no initial response
	bad    string
	done   chan struct{}
}

func (p *c09StrictPeer) note(what string) {
	if p.bad == "" {
		p.bad = what
	}
}

func (p *c09StrictPeer) serve(conn net.Conn) {
	defer close(p.done)
	defer conn.Close()
	br := bufio.NewReader(conn)
	io.WriteString(conn, "220 strict ESMTP\r\n")
	readLine := func() (string, bool) {
		l, err := br.ReadString('\n')
		if err != nil || !strings.HasSuffix(l, "\r\n") {
			return "", false
		}
		return strings.TrimSuffix(l, "\r\n"), true
	}
	// The client answers every failed exchange - also one the server ended
	// itself with a negative reply - with a "*" line (inherited from net/smtp
	// and pinned by the stock suite's TestAuthFailed). That line arrives in
	// command mode and is answered 500; C09 does not speak about it, so the
	// peer lets exactly that one line pass.
	afterRefusal := false
	for {
		line, ok := readLine()
		if !ok {
			return
		}
		up := strings.ToUpper(line)
		if line == "*" && afterRefusal {
			afterRefusal = false
			io.WriteString(conn, "500 5.5.1 not in an exchange\r\n")
			continue
		}
		afterRefusal = false
		switch {
		case strings.HasPrefix(up, "EHLO"):
			io.WriteString(conn, "250-strict\r\n250 AUTH XTEST\r\n")
		case strings.HasPrefix(up, "AUTH "):
			f := strings.Split(line, " ")
			if len(f) < 2 || len(f) > 3 || f[1] != "XTEST" {
				p.note("malformed AUTH command " + strconv.Quote(line))
				io.WriteString(conn, "501 5.5.4 malformed AUTH\r\n")
				continue
			}
			var resp []byte
			if len(f) == 2 {
				p.gotNil = true
			} else if f[2] == "=" {
				resp = []byte{}
			} else {
				b, err := base64.StdEncoding.DecodeString(f[2])
				if err != nil || len(b) == 0 {
					p.note("initial response is not base64: " + strconv.Quote(f[2]))
					io.WriteString(conn, "501 5.5.2 cannot decode\r\n")
					continue
				}
				resp = b
			}
			p.got = append(p.got, resp)
			failed := false
			for _, ch := range p.script.Challenges {
				io.WriteString(conn, "334 "+base64.StdEncoding.EncodeToString(ch)+"\r\n")
				l, ok := readLine()
				if !ok {
					return
				}
				if l == "*" {
					io.WriteString(conn, "501 5.0.0 cancelled\r\n")
					failed = true
					break
				}
				b, err := base64.StdEncoding.DecodeString(l)
				if err != nil {
					p.note("response is not base64: " + strconv.Quote(l))
					io.WriteString(conn, "501 5.5.2 cannot decode\r\n")
					failed = true
					break
				}
				p.got = append(p.got, b)
			}
			if failed {
				continue
			}
			if p.script.Final.OK() {
				io.WriteString(conn, "235 2.7.0 ok\r\n")
			} else {
				io.WriteString(conn, "535 5.7.8 no\r\n")
				afterRefusal = true
			}
			if p.hangUp {
				return
			}
		case strings.HasPrefix(up, "QUIT"):
			io.WriteString(conn, "221 2.0.0 bye\r\n")
			return
		case up == "NOOP":
			io.WriteString(conn, "250 2.0.0 ok\r\n")
		default:
			p.note("stray line in command mode: " + strconv.Quote(line))
			io.WriteString(conn, "500 5.5.1 what\r\n")
		}
	}
}

// c09StrictRun conducts the same client exchange against the strict peer.
func c09StrictRun(c c09ClientCase, wantServer [][]byte, firstNil bool, outcome string) *Verdict {
	hub := harness.NewHub()
	clEnd, svEnd := harness.Pair(hub)
	svEnd.SetFragment(c.Frag)
	peer := &c09StrictPeer{script: c.Server, hangUp: c.HangUp, done: make(chan struct{})}
	go peer.serve(svEnd)
	cl := smtp.NewClient(clEnd)
	var authErr, noopErr error
	finished := make(chan struct{})
	go func() {
		defer close(finished)
		authErr = cl.Auth(&scriptedSASLClient{c: c})
		noopErr = cl.Noop()
	}()
	select {
	case <-finished:
	case <-time.After(harness.Watchdog):
		clEnd.Abort()
		<-finished
		return &Verdict{Inconclusive: "client call against the strict peer did not return (watchdog)"}
	}
	cl.Close()
	clEnd.Close()
	<-peer.done
	if peer.bad != "" {
		v := failf("wire-form", "a server reading AUTH strictly by RFC 4954 cannot follow the client: %s (Auth returned %v)", peer.bad, authErr)
		return &v
	}
	if len(peer.got) != len(wantServer) {
		v := failf("wire-form", "strict peer decoded %d octet strings, the client mechanism produced %d (outcome %s, Auth returned %v)", len(peer.got), len(wantServer), outcome, authErr)
		return &v
	}
	for i := range wantServer {
		if !bytes.Equal(peer.got[i], wantServer[i]) {
			v := failf("wire-form", "strict peer decoded %q for step %d, the client mechanism produced %q", peer.got[i], i, wantServer[i])
			return &v
		}
	}
	if peer.gotNil != firstNil {
		v := failf("wire-form", "initial response: strict peer saw none=%v, the mechanism gave none=%v", peer.gotNil, firstNil)
		return &v
	}
	if (outcome == "success") != (authErr == nil) {
		v := failf("client-result", "against the strict peer the exchange ends in %s but Auth returned %v", outcome, authErr)
		return &v
	}
	if outcome == "failed" {
		// the result reported is the server's final reply - also when the
		// server hangs up behind it
		if se, isSMTP := authErr.(*smtp.SMTPError); !isSMTP || se.Code != 535 || se.EnhancedCode != (smtp.EnhancedCode{5, 7, 8}) || se.Message != "no" {
			v := failf("client-result", "the strict peer's final reply is \"535 5.7.8 no\" (hang up afterwards: %v) but Auth returned %T %v", c.HangUp, authErr, authErr)
			return &v
		}
	}
	if c.HangUp && outcome != "client-error" {
		return nil // the connection is gone, as scripted
	}
	if noopErr != nil {
		v := failf("usable", "after Auth (%s) against the strict peer the next command fails: %v", outcome, noopErr)
		return &v
	}
	return nil
}

func c09GenClient(t *rapid.T) c09ClientCase {
	c := c09ClientCase{Mech: "XTEST", ErrAt: -1}
	oct := func(label string) *Octets {
		switch rapid.IntRange(0, 3).Draw(t, label+"_k") {
		case 0:
			return nil
		case 1:
			o := Octets{}
			return &o
		}
		if rapid.IntRange(0, 5).Draw(t, label+"_long") == 0 {
			// a ticket or a token: RFC 4954 allows lines of 12288 octets
			n := rapid.SampledFrom([]int{1400, 1497, 1498, 1499, 1600, 3000, 9000}).Draw(t, label+"_len")
			k := rapid.IntRange(1, 250).Draw(t, label+"_step")
			o := make(Octets, n)
			for i := range o {
				o[i] = byte(i*k + n)
			}
			return &o
		}
		o := Octets(rapid.SliceOfN(rapid.Byte(), 1, 12).Draw(t, label))
		return &o
	}
	c.IR = oct("ir")
	for j, n := 0, rapid.IntRange(0, 3).Draw(t, "nchal"); j < n; j++ {
		c.Server.Challenges = append(c.Server.Challenges, rapid.SliceOfN(rapid.Byte(), 0, 10).Draw(t, "chal"))
		c.Responses = append(c.Responses, oct("resp"))
	}
	switch rapid.IntRange(0, 3).Draw(t, "final") {
	case 0:
		c.Server.Final = harness.Decision{Kind: "smtp", Code: 535, Enh: [3]int{5, 7, 8}, Msg: "Authentication failed"}
	case 1:
		c.Server.Final = harness.Decision{Kind: "plain", Msg: "backend trouble"}
	default:
		if rapid.IntRange(0, 2).Draw(t, "final_data") == 0 {
			c.Server.FinalData = rapid.SliceOfN(rapid.Byte(), 1, 10).Draw(t, "final_data_octets")
		}
	}
	if len(c.Server.Challenges) > 0 && rapid.IntRange(0, 4).Draw(t, "err") == 0 {
		c.ErrAt = rapid.IntRange(0, len(c.Server.Challenges)-1).Draw(t, "errat")
	}
	c.StartErr = rapid.IntRange(0, 15).Draw(t, "starterr") == 0
	c.HangUp = rapid.IntRange(0, 3).Draw(t, "hang_up") == 0
	c.Frag = rapid.SampledFrom([]int{0, 0, 1, 3}).Draw(t, "frag")
	return c
}

var (
	c09Fault  *subCheck[c09FaultCase]
	c09Sub    *subCheck[c09Case]
	c09Client *subCheck[c09ClientCase]
)

func init() {
	registrars = append(registrars, func() {
		c09Sub = newSub("C09", "server", c09Run)
		c09Client = newSub("C09", "client", c09ClientRun)
		c09Fault = newSub("C09", "fault", c09FaultRun)
	})
}

func TestC09(t *testing.T) {
	registerAll()
	st.Rule = "server half: cases = (TLS state none/available/implicit, AllowInsecureAuth, auth-capable backend, scripted server mechanisms with 0-3 arbitrary challenges and success/535/plain-error verdicts, history of greet/AUTH/NOOP/STARTTLS acts with initial response present/absent/'='/bad base64 and responses base64/empty/'='/bad base64/'*'); client half: Client.Auth with scripted client mechanism (initial response nil/empty/octets, responses nil/empty/octets, error at a step) against the real server and against a reference peer that reads the wire strictly by RFC 4954; enumerated: connection fault (half-close, reset, silence past the read timeout) after k of n challenges were answered; non-trivial = exchange with >= 1 challenge OR a not-allowed configuration OR a second AUTH; distinct = hash of the whole case"
	if !regress(t, "C09") {
		return
	}
	c09Sub.rapidCheck(t, pickTier(4000, 80000), c09Gen)
	if t.Failed() {
		return
	}
	c09Client.rapidCheck(t, pickTier(2000, 40000), c09GenClient)
	if t.Failed() {
		return
	}
	// connection faults in the middle of an exchange: small enough to enumerate
	idx := 0
	for _, implicit := range []bool{false, true} {
		for _, lmtp := range []bool{false, true} {
			for nchal := 1; nchal <= 3; nchal++ {
				for nresp := 0; nresp < nchal; nresp++ {
					for _, ir := range []bool{false, true} {
						for _, fault := range []string{"eof", "abort", "stall"} {
							idx++
							if !mine(idx) {
								continue
							}
							if fault == "stall" && ir && !thorough() {
								continue // (each costs two read timeouts of wall-clock time)
							}
							if !c09Fault.one(t, c09FaultCase{Implicit: implicit, LMTP: lmtp, NChal: nchal, NResp: nresp, IR: ir, Fault: fault}) {
								return
							}
						}
					}
				}
			}
		}
	}
}
