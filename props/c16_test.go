package props

import (
	"bytes"
	"fmt"
	"io"
	"strings"
	"testing"
	"time"

	"github.com/emersion/go-smtp"
	"pgregory.net/rapid"

	"verif/harness"
)

// C16 - a message written through the client arrives intact at a go-smtp
// backend.

type c16Case struct {
	Body       Octets           `json:"body"`   // CR occurs only as part of CRLF
	Splits     []int            `json:"splits"` // offsets at which the body is cut into Write calls
	Verdict    harness.Decision `json:"verdict"`
	LMTP       bool             `json:"lmtp"`
	Rcpts      []bool           `json:"rcpts"` // per recipient: accepted at RCPT time?
	CloseTwice bool             `json:"close_twice"`
	// SlowMs > 0: for the DATA command (only) the client's CommandTimeout is
	// SlowMs/2, and the producer pauses SlowMs before writing the body (a slow producer must not
	// be cut off by the timeout of the DATA command, which is over). Wall-clock
	// is only the trigger; on a correct client nothing is armed while it waits.
	SlowMs int `json:"slow_ms,omitempty"`
	// SrvWriteTimeoutMs (with SlowMs, buffered transport only): the server's
	// WriteTimeout, shorter than the producer's pause; it has no ReadTimeout.
	// A deadline for writing replies says nothing about how long the client
	// may take to hand the message over.
	SrvWriteTimeoutMs int `json:"srv_write_timeout_ms,omitempty"`
	// Prior: an earlier message on the same connection, to PriorRcpts
	// recipients, with its own verdict; in LMTP mode sent through Data()
	// (no status callback) when PriorPlainData is set.
	Prior          bool             `json:"prior,omitempty"`
	PriorVerdict   harness.Decision `json:"prior_verdict"`
	PriorRcpts     int              `json:"prior_rcpts,omitempty"`
	PriorPlainData bool             `json:"prior_plain_data,omitempty"`
	// LimitSlack >= 0 with Limited: the server's MaxMessageBytes is the length
	// of the message as it must arrive plus LimitSlack - it fits, so nothing
	// changes (the dots added on the wire do not count).
	Limited    bool `json:"limited,omitempty"`
	LimitSlack int  `json:"limit_slack,omitempty"`
	// StaleClose (with Prior): while the judged message is being written, the
	// writer of the earlier message is closed once more (a deferred Close):
	// an error, and not an octet on the wire.
	StaleClose bool `json:"stale_close,omitempty"`
	// Sender / RcptLocal: the sender and the local part prefix of the
	// recipients ("" = sender@x / r<i>@x); drawn from addresses with
	// characters that mean something to a formatter
	Sender    string `json:"sender,omitempty"`
	RcptLocal string `json:"rcpt_local,omitempty"`
	// Frag > 0: the server's replies reach the client in segments of at most
	// Frag octets (a network may deliver a reply octet by octet)
	Frag int `json:"frag,omitempty"`
	// Sync: the transport buffers nothing (a Write returns when the peer has
	// read it, as on net.Pipe)
	Sync bool `json:"sync,omitempty"`
	// DupRcpt: the last recipient has the same address as the first (a list
	// put together from To / Cc / Bcc names someone twice): the list given is
	// the list delivered to. ViaSendMail (SMTP, every recipient accepted):
	// the whole transaction through Client.SendMail.
	DupRcpt     bool `json:"dup_rcpt,omitempty"`
	ViaSendMail bool `json:"via_sendmail,omitempty"`
}

// c16Normalise is the reference: bare LF becomes CRLF and a final CRLF is
// ensured.
func c16Normalise(b []byte) []byte {
	var out []byte
	for i, c := range b {
		if c == '\n' && (i == 0 || b[i-1] != '\r') {
			out = append(out, '\r')
		}
		out = append(out, c)
	}
	if !bytes.HasSuffix(out, []byte("\r\n")) {
		out = append(out, '\r', '\n')
	}
	return out
}

func c16Run(c c16Case) Verdict {
	sender, rcptLocal := "sender@x", "r"
	if c.Sender != "" {
		sender = c.Sender
	}
	if c.RcptLocal != "" {
		rcptLocal = c.RcptLocal
	}
	script := harness.Script{LMTPSession: c.LMTP}
	for _, acc := range c.Rcpts {
		d := harness.Decision{}
		if !acc {
			d = harness.Decision{Kind: "smtp", Code: 550, Enh: [3]int{5, 1, 1}, Msg: "no such user"}
		}
		script.Rcpt = append(script.Rcpt, d)
	}
	script.Data = []harness.DataPlan{{Read: harness.ReadPlan{Limit: -1}, Result: c.Verdict, Honest: true}}
	cfg := harness.Config{LMTP: c.LMTP, FragmentReplies: c.Frag, Synchronous: c.Sync}
	if c.SlowMs > 0 && !c.Sync {
		cfg.WriteTimeoutMs = c.SrvWriteTimeoutMs
	}
	if c.Limited {
		cfg.MaxMessageBytes = int64(len(c16Normalise(c.Body)) + c.LimitSlack)
	}
	const priorBody = "Subject: earlier\r\n\r\n.dot line\r\n"
	if c.Prior {
		if c.PriorRcpts < 1 {
			c.PriorRcpts = 1
		}
		script.Rcpt = append(make([]harness.Decision, c.PriorRcpts), script.Rcpt...)
		script.Data = append([]harness.DataPlan{{Read: harness.ReadPlan{Limit: -1}, Result: c.PriorVerdict, Honest: true}}, script.Data...)
		if cfg.MaxMessageBytes > 0 && cfg.MaxMessageBytes < int64(len(priorBody)) {
			cfg.MaxMessageBytes = 0
		}
	}
	r := harness.NewRig(cfg, script)
	var priorErr, staleErr error
	var priorWriter io.WriteCloser
	var staleWrote int64
	staleDone := false
	var closeErr, close2Err, noopErr, setupErr, envErr, dataCmdErr error
	var consumed1, consumed2 int64
	var wantRcpts []string
	// settle: the server has come to rest. Over a transport without buffering
	// "rest" includes being parked in a Write nobody reads yet (a reply the
	// client has not asked for): waiting for more would be waiting for the
	// watchdog; what follows shows as a flow-control stall or a desync.
	settle := func(w *harness.Wire) {
		if !c.Sync {
			w.WaitQuiet()
			return
		}
		r.Hub.WaitUntil(func() bool {
			return w.S.BlockedInReadLocked() || w.S.BlockedInWriteLocked() || w.S.ClosedLocked()
		}, harness.Watchdog)
	}
	ok := withClient(r, c.LMTP, func(cl *smtp.Client, w *harness.Wire) {
		if c.Prior {
			if err := cl.Mail("prior@x", nil); err != nil {
				setupErr = err
				return
			}
			for i := 0; i < c.PriorRcpts; i++ {
				if err := cl.Rcpt(fmt.Sprintf("p%d@x", i), nil); err != nil {
					setupErr = err
					return
				}
			}
			var pw io.WriteCloser
			var err error
			if c.LMTP && !c.PriorPlainData {
				pw, err = cl.LMTPData(func(rcpt string, status *smtp.SMTPError) {})
			} else {
				pw, err = cl.Data()
			}
			if err != nil {
				setupErr = err
				return
			}
			io.WriteString(pw, priorBody)
			priorErr = pw.Close()
			priorWriter = pw
		}
		rcptAddr := func(i int) string {
			if c.DupRcpt && i > 0 && i == len(c.Rcpts)-1 {
				i = 0
			}
			return fmt.Sprintf("%s%d@x", rcptLocal, i)
		}
		allAccepted := true
		for _, acc := range c.Rcpts {
			allAccepted = allAccepted && acc
		}
		if c.ViaSendMail && !c.LMTP && allAccepted && c.SlowMs == 0 && !c.StaleClose {
			for i := range c.Rcpts {
				wantRcpts = append(wantRcpts, rcptAddr(i))
			}
			closeErr = cl.SendMail(sender, wantRcpts, bytes.NewReader(c.Body))
			settle(w)
			consumed1 = w.S.Consumed()
			c.CloseTwice = false
			noopErr = cl.Noop()
			return
		}
		if err := cl.Mail(sender, nil); err != nil {
			envErr = fmt.Errorf("Mail(%q): %w", sender, err)
			return
		}
		for i, acc := range c.Rcpts {
			to := rcptAddr(i)
			err := cl.Rcpt(to, nil)
			if acc {
				wantRcpts = append(wantRcpts, to)
				if err != nil {
					envErr = fmt.Errorf("Rcpt(%q): %w", to, err)
					return
				}
			}
		}
		var wc io.WriteCloser
		var err error
		if c.SlowMs > 0 {
			cl.CommandTimeout = time.Duration(c.SlowMs) * time.Millisecond / 2
		}
		if c.LMTP {
			wc, err = cl.LMTPData(func(rcpt string, status *smtp.SMTPError) {})
		} else {
			wc, err = cl.Data()
		}
		if c.SlowMs > 0 {
			cl.CommandTimeout = 5 * time.Minute
		}
		if err != nil {
			// (with the short timeout this may be the machine being busy:
			// the command itself is not what a slow-producer case judges)
			dataCmdErr = err
			return
		}
		if c.SlowMs > 0 {
			time.Sleep(time.Duration(c.SlowMs) * time.Millisecond)
		}
		prev := 0
		for _, s := range c.Splits {
			if s <= prev || s >= len(c.Body) {
				continue
			}
			wc.Write(c.Body[prev:s])
			prev = s
		}
		if c.StaleClose && priorWriter != nil {
			settle(w)
			before := w.S.Consumed()
			staleErr = priorWriter.Close()
			settle(w)
			staleWrote = w.S.Consumed() - before
			staleDone = true
		}
		if _, err := wc.Write(c.Body[prev:]); err != nil {
			setupErr = err
			return
		}
		closeErr = wc.Close()
		settle(w)
		consumed1 = w.S.Consumed()
		if c.CloseTwice {
			close2Err = wc.Close()
			settle(w)
			consumed2 = w.S.Consumed()
		}
		noopErr = cl.Noop()
	})
	if staleDone && staleErr == nil {
		return failf("second-close", "Close of the earlier message's writer, called again while the next message was being written, returned nil (and put %d octets on the wire)", staleWrote)
	}
	if staleDone && staleWrote != 0 {
		return failf("second-close-wrote", "Close of the earlier message's writer, called again while the next message was being written, put %d octets on the wire", staleWrote)
	}
	if !ok && lastClientStall {
		return Verdict{Classes: []string{"unbuffered_transport_flow_stall_unspecified"}}
	}
	if !ok && lastClientStuck {
		return failf("client-hang", "a client call never returns: client and server both wait for each other (recipients %v, LMTP %v, first Close returned %v)", c.Rcpts, c.LMTP, closeErr)
	}
	if !ok {
		return Verdict{Inconclusive: "watchdog in client run"}
	}
	if envErr != nil {
		return failf("envelope-refused", "a well-formed sender / recipient the backend accepts could not be given: %v", envErr)
	}
	if dataCmdErr != nil {
		return Verdict{Inconclusive: "DATA command: " + dataCmdErr.Error()}
	}
	if setupErr != nil && c.SlowMs > 0 {
		return failf("slow-producer", "after pausing %d ms before the body (CommandTimeout %d ms) a client call failed: %v", c.SlowMs, c.SlowMs/2, setupErr)
	}
	if setupErr != nil {
		return Verdict{Inconclusive: "setup: " + setupErr.Error()}
	}
	if p := r.Log.Panicked(); p != "" {
		return failf("panic", "server logged a panic: %s", p)
	}
	want := c16Normalise(c.Body)
	v := Verdict{}
	tricky := bytes.Contains(want, []byte("\r\n.")) || bytes.HasPrefix(want, []byte(".")) || !bytes.Equal(want, c.Body)
	v.NonTrivial = tricky && len(c.Splits) > 0
	if bytes.Contains(want, []byte("\r\n.\r\n")) || bytes.HasPrefix(want, []byte(".\r\n")) {
		v.Classes = append(v.Classes, "embedded_end_marker_lookalike")
	}
	if hasLineStartDot(want) {
		v.Classes = append(v.Classes, "line_start_dot")
	}
	if !bytes.Equal(want, c.Body) {
		v.Classes = append(v.Classes, "needs_normalisation")
	}
	if len(c.Splits) > 0 {
		v.Classes = append(v.Classes, "multiple_writes")
	}
	if c.Sync {
		v.Classes = append(v.Classes, "unbuffered_transport")
	}
	if len(c.Body) > 4096 && maxStretch(c.Body) > 900 {
		v.Classes = append(v.Classes, "long_lines_across_a_flush_of_the_client")
	}
	if c.SlowMs > 0 {
		v.Classes = append(v.Classes, "slow_producer")
	}
	if c.Limited {
		v.Classes = append(v.Classes, fmt.Sprintf("size_limit_slack_%d", c.LimitSlack))
	}
	if c.Sender != "" || c.RcptLocal != "" {
		v.Classes = append(v.Classes, "addresses_with_format_characters")
	}
	if c.StaleClose && c.Prior {
		v.Classes = append(v.Classes, "earlier_writer_closed_again_mid_message")
	}
	evs := r.B.Events()
	des := dataEvents(evs)
	if c.Prior {
		v.Classes = append(v.Classes, "after_earlier_message")
		if len(des) < 1 {
			return failf("data-calls", "the earlier message was not delivered: %s", traceString(evs))
		}
		// the earlier message's verdict (SMTP, or LMTP without callback where
		// every recipient shares it)
		if !c.LMTP || c.PriorPlainData {
			if (priorErr == nil) != c.PriorVerdict.OK() {
				return failf("verdict", "earlier message: backend returned %+v but Close returned %v", c.PriorVerdict, priorErr)
			}
		}
		// keep what belongs to the judged message
		cut := des[0].Seq
		var kept []harness.Event
		for _, e := range evs {
			if e.Seq > cut {
				kept = append(kept, e)
			}
		}
		evs, des = kept, des[1:]
	}
	if len(des) != 1 {
		return failf("data-calls", "expected exactly one delivery, got %d: %s", len(des), traceString(evs))
	}
	rec := des[0].Data
	if !bytes.Equal(rec.Bytes, want) || !rec.EOF {
		return failf("octets-differ", "client wrote %s in writes cut at %v; backend read %s (err %q); expected %s", q(c.Body), c.Splits, q(rec.Bytes), rec.ErrStr, q(want))
	}
	mails := eventsOf(evs, "Mail", true)
	if len(mails) != 1 || mails[0].From != sender {
		return failf("sender", "sender arrived as %v", traceString(mails))
	}
	var gotRcpts []string
	for _, e := range evs {
		if e.CB == "Rcpt" && !e.Begin && e.Err == nil {
			gotRcpts = append(gotRcpts, e.To)
		}
	}
	if strings.Join(gotRcpts, ",") != strings.Join(wantRcpts, ",") {
		return failf("recipients", "accepted recipients %v, client gave %v", gotRcpts, wantRcpts)
	}
	if !c.LMTP {
		switch c.Verdict.Kind {
		case "", "ok":
			if closeErr != nil {
				return failf("verdict", "backend accepted but Close returned %v", closeErr)
			}
		case "smtp":
			se, isSMTP := closeErr.(*smtp.SMTPError)
			if !isSMTP || se.Code != c.Verdict.Code || se.Message != c.Verdict.Msg {
				return failf("verdict", "backend returned %+v but Close returned %v", c.Verdict, closeErr)
			}
		case "plain":
			se, isSMTP := closeErr.(*smtp.SMTPError)
			if !isSMTP || se.Code != 554 || !strings.Contains(se.Message, c.Verdict.Msg) {
				return failf("verdict", "backend returned plain error %q but Close returned %v", c.Verdict.Msg, closeErr)
			}
		}
	}
	if c.CloseTwice {
		v.Classes = append(v.Classes, "close_twice")
		if close2Err == nil {
			return failf("second-close", "second Close returned nil")
		}
		if consumed2 != consumed1 {
			return failf("second-close-wrote", "second Close made the client send %d more octets to the server (first Close returned %v)", consumed2-consumed1, closeErr)
		}
	}
	if noopErr != nil {
		return failf("after-close", "Noop after the message failed: %v (first Close returned %v)", noopErr, closeErr)
	}
	return v
}

func c16Partition(t *rapid.T, n int) []int {
	if n < 2 {
		return nil
	}
	switch rapid.IntRange(0, 3).Draw(t, "part") {
	case 0:
		return nil
	case 1:
		return []int{rapid.IntRange(1, n-1).Draw(t, "split")}
	case 2:
		out := make([]int, 0, n)
		for i := 1; i < n && i < 3000; i++ {
			out = append(out, i)
		}
		return out
	}
	set := map[int]bool{}
	for i, k := 0, rapid.IntRange(1, 6).Draw(t, "nsplits"); i < k; i++ {
		set[rapid.IntRange(1, n-1).Draw(t, "split")] = true
	}
	return sortedKeys(set)
}

func c16GenVerdict(t *rapid.T) harness.Decision {
	switch rapid.IntRange(0, 3).Draw(t, "verdict") {
	case 0:
		return harness.Decision{Kind: "smtp", Code: 554, Enh: [3]int{5, 6, 0}, Msg: "message refused"}
	case 1:
		return flavoured(t, "verdict", harness.Decision{Kind: "plain", Msg: "disk full"})
	}
	return harness.Decision{}
}

// c16GenLongLines: a message of long lines (up to 1998 octets, the most the
// server's default line limit lets through), arranged so that a line ending
// straddles or meets a 4096-octet boundary of the wire stream - that is where
// the client's buffered writer flushes, so the server sees a segment that
// ends with the CR, or with the CRLF, of a long line followed by another.
func c16GenLongLines(t *rapid.T) []byte {
	var body []byte
	line := func(n int) {
		ch := byte('a' + len(body)%26)
		body = append(body, bytes.Repeat([]byte{ch}, n)...)
		body = append(body, '\r', '\n')
	}
	target := 4096 * rapid.IntRange(1, 2).Draw(t, "flush")
	for target-len(body) > 1999 {
		line(rapid.IntRange(200, 1500).Draw(t, "len"))
	}
	rem := target - len(body)
	switch rapid.IntRange(0, 2).Draw(t, "align") {
	case 0: // the CR is the last octet before the boundary, the LF the first after it
		if rem-1 >= 1 {
			line(rem - 1)
		}
	case 1: // the CRLF ends exactly at the boundary
		if rem-2 >= 1 {
			line(rem - 2)
		}
	default:
		line(rapid.IntRange(1, 1998).Draw(t, "unaligned"))
	}
	for i, n := 0, rapid.IntRange(1, 3).Draw(t, "more"); i < n; i++ {
		line(rapid.SampledFrom([]int{998, 1000, 1500, 1997, 1998}).Draw(t, "long"))
	}
	return body
}

func c16Gen(t *rapid.T) c16Case {
	var body []byte
	big := thorough() && rapid.IntRange(0, 9).Draw(t, "big") == 0
	n := rapid.IntRange(0, 14).Draw(t, "parts")
	if big {
		n = rapid.IntRange(200, 1200).Draw(t, "bigparts")
	}
	if rapid.IntRange(0, 11).Draw(t, "long_lines") == 0 {
		body, n = c16GenLongLines(t), 0
	}
	for i := 0; i < n; i++ {
		switch rapid.IntRange(0, 6).Draw(t, "kind") {
		case 0:
			body = append(body, '.')
		case 1:
			body = append(body, '\n')
		case 2:
			body = append(body, '\r', '\n')
		case 3:
			body = append(body, "\r\n.\r\n"...)
		case 4:
			body = append(body, rapid.SliceOfN(rapid.ByteRange(0, 255).Filter(func(b byte) bool { return b != '\r' }), 1, 8).Draw(t, "raw")...)
		default:
			body = append(body, "text"...)
		}
	}
	c := c16Case{Body: body, Splits: c16Partition(t, len(body)), Verdict: c16GenVerdict(t), LMTP: rapid.Bool().Draw(t, "lmtp"), CloseTwice: rapid.Bool().Draw(t, "twice")}
	// a few slow-producer cases (each costs its pause in wall-clock time)
	if rapid.IntRange(0, 2999).Draw(t, "slow")%300 == 25 {
		c.SlowMs = 200
		c.SrvWriteTimeoutMs = rapid.SampledFrom([]int{0, 60, 60}).Draw(t, "srv_write_timeout")
	}
	nr := rapid.IntRange(1, 3).Draw(t, "nrcpt")
	for i := 0; i < nr; i++ {
		c.Rcpts = append(c.Rcpts, i == 0 || rapid.IntRange(0, 3).Draw(t, "acc") != 0)
	}
	c.DupRcpt = rapid.IntRange(0, 3).Draw(t, "dup_rcpt") == 0
	c.ViaSendMail = rapid.IntRange(0, 3).Draw(t, "via_sendmail") == 0
	if rapid.IntRange(0, 3).Draw(t, "prior") == 0 {
		c.Prior, c.PriorVerdict, c.PriorRcpts = true, c16GenVerdict(t), rapid.IntRange(1, 3).Draw(t, "prior_rcpts")
		c.PriorPlainData = rapid.Bool().Draw(t, "prior_plain")
	}
	if rapid.IntRange(0, 2).Draw(t, "limited") == 0 {
		c.Limited, c.LimitSlack = true, rapid.IntRange(0, 2).Draw(t, "slack")
	}
	c.StaleClose = c.Prior && rapid.Bool().Draw(t, "stale_close")
	if rapid.IntRange(0, 3).Draw(t, "odd_addresses") == 0 {
		c.Sender = rapid.SampledFrom([]string{"user%example.net@relay", "a%%b@x", "100%@x", "%s@x", "a%20b@x", "%d%v@x", "u+tag=x@d", "first.last@x", "a!#$&'*/?^_`{|}~z@q"}).Draw(t, "sender")
		c.RcptLocal = rapid.SampledFrom([]string{"r", "r%", "%%r", "x%example.net%", "r+%s=", "r%!"}).Draw(t, "rcpt_local")
	}
	c.Frag = rapid.SampledFrom([]int{0, 0, 0, 1, 5}).Draw(t, "frag")
	c.Sync = rapid.IntRange(0, 5).Draw(t, "sync") == 0
	return c
}

var (
	c16Sub   *subCheck[c16Case]
	c16Words *subCheck[c16Case]
)

func init() {
	registrars = append(registrars, func() {
		c16Sub = newSub("C16", "rapid", c16Run)
		c16Words = newSub("C16", "words", c16Run)
	})
}

func TestC16(t *testing.T) {
	registerAll()
	st.Rule = "cases = (body with CR only inside CRLF, partition into Write calls, server verdict accept/SMTPError/plain error, SMTP/LMTP, 1-3 recipients some refused at RCPT, Close once or twice then Noop, optional earlier message on the connection with its own verdict, optional server size limit that the message just fits); exhaustive part: all words over the tokens {'.', LF, CRLF, 'x'} up to the length bound, each in one write, every 2-split and byte by byte; oracle = LF->CRLF normalisation function; non-trivial = body with a line-start dot / bare LF / end-marker look-alike written in more than one Write; distinct = hash of the whole case"
	if !regress(t, "C16") {
		return
	}
	tokens := [][]byte{{'.'}, {'\n'}, {'\r', '\n'}, {'x'}}
	maxLen := pickTier(6, 8)
	idx := 0
	complete := true
	for l := 0; l <= maxLen && complete; l++ {
		total := 1
		for i := 0; i < l; i++ {
			total *= 4
		}
		for n := 0; n < total && complete; n++ {
			idx++
			if !mine(idx) {
				continue
			}
			var body []byte
			x := n
			for i := 0; i < l; i++ {
				body = append(body, tokens[x%4]...)
				x /= 4
			}
			// one write, byte by byte, and every 2-split (2-splits rotate through the cases in quick)
			variants := [][]int{nil}
			if len(body) >= 2 {
				every := make([]int, 0, len(body))
				for i := 1; i < len(body); i++ {
					every = append(every, i)
				}
				variants = append(variants, every)
				if thorough() {
					for i := 1; i < len(body); i++ {
						variants = append(variants, []int{i})
					}
				} else {
					variants = append(variants, []int{1 + idx%(len(body)-1)})
				}
			}
			for vi, sp := range variants {
				c := c16Case{Body: body, Splits: sp, Rcpts: []bool{true}, LMTP: (idx+vi)%5 == 0, CloseTwice: (idx+vi)%3 == 0}
				if (idx+vi)%4 == 0 {
					c.Verdict = harness.Decision{Kind: "smtp", Code: 554, Enh: [3]int{5, 6, 0}, Msg: "message refused"}
				}
				if (idx+vi)%2 == 1 {
					c.Limited = true // the message fits exactly
				}
				if !c16Words.one(t, c) {
					complete = false
					break
				}
			}
		}
	}
	st.Exhaustive["words"] = complete
	if !complete {
		return
	}
	c16Sub.rapidCheck(t, pickTier(2500, 40000), c16Gen)
}
