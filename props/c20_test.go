package props

import (
	"bytes"
	"context"
	"crypto/tls"
	"errors"
	"fmt"
	"net"
	"strings"
	"sync"
	"testing"
	"time"

	"github.com/emersion/go-smtp"
	"pgregory.net/rapid"

	"verif/harness"
)

// C20 - no data races or deadlocks; Close and Shutdown end serving exactly
// once. The whole file is meant to run under the race detector (the driver
// builds this property's binary with -race); a race report fails the subtest
// the case runs in, which is how it is attributed to a case.

type c20Step struct {
	Conn int    `json:"conn"` // -1 for global events
	Op   string `json:"op"`   // greet envelope chunk last data rset quit release eof abort | close shutdown cancel
	Wait bool   `json:"wait"` // wait for that connection's quiescence before the next step
}

type c20Case struct {
	LMTP    bool      `json:"lmtp"`
	PerRcpt bool      `json:"per_rcpt"`
	NConns  int       `json:"nconns"`
	Gate    string    `json:"gate"`            // "", "pre", "post", "start": deliveries park on a gate
	Early   bool      `json:"early,omitempty"` // deliveries refuse without reading the message
	TLS     bool      `json:"tls,omitempty"`   // STARTTLS is available ("starttls-begin": STARTTLS sent, 220 received, no handshake yet)
	// PanicOnAbort: deliveries panic when their reader fails (a transfer
	// abandoned by RSET, QUIT, a disconnect, Close): the panic is the
	// backend's, ending the connection in good order is the server's
	PanicOnAbort bool      `json:"panic_on_abort,omitempty"`
	Steps        []c20Step `json:"steps"`
}

func c20Run(c c20Case) Verdict {
	plan := harness.DataPlan{Read: harness.ReadPlan{Limit: -1}, Honest: true, GatePre: c.Gate == "pre", GatePost: c.Gate == "post", PanicOnReadErr: c.PanicOnAbort}
	if c.Early {
		plan.Read.Limit = 0
		plan.Result = harness.Decision{Kind: "smtp", Code: 550, Enh: [3]int{5, 7, 1}, Msg: "refused by policy"}
	}
	script := harness.Script{LMTPSession: c.LMTP && c.PerRcpt, DefaultData: &plan, GateStart: c.Gate == "start"}
	switch c.Gate {
	case "newsession":
		script.GateCalls = []string{"NewSession"}
	case "mail":
		script.GateCalls = []string{"Mail"}
	case "rcpt":
		script.GateCalls = []string{"Rcpt"}
	}
	rcfg := harness.Config{LMTP: c.LMTP}
	if c.TLS {
		rcfg.TLS = "starttls"
	}
	r := harness.NewRig(rcfg, script)
	wires := make([]*harness.Wire, c.NConns)
	for i := range wires {
		wires[i], _ = r.Dial()
	}
	for _, w := range wires {
		w.WaitQuiet()
	}
	var (
		mu                  sync.Mutex
		closeErr, shutErr   error
		closeDone, shutDone chan struct{}
		cancel              context.CancelFunc
		cancelled           bool
	)
	g := greetWord(c.LMTP)
	v := Verdict{}
	overlap := false
	for _, s := range c.Steps {
		if s.Conn >= 0 {
			w := wires[s.Conn%c.NConns]
			switch s.Op {
			case "greet":
				w.Send([]byte(g + " cli\r\n"))
			case "envelope":
				w.Send([]byte("MAIL FROM:<s@x>\r\nRCPT TO:<r1@x>\r\nRCPT TO:<r2@x>\r\n"))
			case "chunk":
				w.Send([]byte("BDAT 5\r\nhello"))
			case "last":
				w.Send([]byte("BDAT 5 LAST\r\nworld"))
			case "data":
				w.Send([]byte("DATA\r\n"))
				w.Send([]byte("line one of the body\r\nline two of the body\r\n"))
				w.Send([]byte("line three\r\n.\r\nNOOP\r\n"))
			case "starttls-begin":
				w.Send([]byte("STARTTLS\r\n"))
			case "rset":
				w.Send([]byte("RSET\r\n"))
			case "quit":
				w.Send([]byte("QUIT\r\n"))
			case "eof":
				w.CloseWrite()
			case "abort":
				w.Abort()
			case "release":
				r.B.ReleaseArrived()
			}
			if s.Wait {
				if st := w.WaitQuiet(); st == harness.QWatchdog {
					stacks := harness.BlockedStacks(harness.ServerGoroutines())
					r.B.ReleaseAll()
					for _, w := range wires {
						w.Abort()
					}
					r.ForceClose()
					if len(stacks) > 0 && !r.B.AtGateLocked() {
						return failf("deadlock", "after step %+v the server makes no progress (not reading, not closed, no gate held):\n%s", s, strings.Join(stacks, "\n\n"))
					}
					return Verdict{Inconclusive: fmt.Sprintf("watchdog after step %+v", s)}
				}
			}
			continue
		}
		switch s.Op {
		case "close":
			if closeDone != nil || shutDone != nil {
				continue
			}
			r.Hub.Lock()
			if r.B.InflightLocked() > 0 {
				overlap = true
			}
			r.Hub.Unlock()
			closeDone = make(chan struct{})
			go func() {
				defer close(closeDone)
				err := r.Srv.Close()
				mu.Lock()
				closeErr = err
				mu.Unlock()
			}()
		case "shutdown":
			if closeDone != nil || shutDone != nil {
				continue
			}
			var ctx context.Context
			ctx, cancel = context.WithCancel(context.Background())
			shutDone = make(chan struct{})
			go func() {
				defer close(shutDone)
				err := r.Srv.Shutdown(ctx)
				mu.Lock()
				shutErr = err
				mu.Unlock()
			}()
		case "settle":
			// let a Close/Shutdown that was started get as far as it can
			// before the next step: until it has returned or has closed every
			// connection (Close), bounded; nothing is concluded from the wait
			ch := closeDone
			if ch == nil {
				ch = shutDone
			}
			if ch != nil {
				select {
				case <-ch:
				case <-time.After(30 * time.Millisecond):
					// Close that does not return although no callback is in
					// progress: is it waiting for a lock that somebody holds
					// while waiting for a silent peer?
					r.Hub.Lock()
					quietBackend := r.B.InflightLocked() == 0 && !r.B.AtGateLocked()
					r.Hub.Unlock()
					if ch == closeDone && quietBackend {
						if stack := harness.StuckOnMutex("go-smtp.(*Server).Close"); stack != "" {
							for _, w := range wires {
								w.Abort()
							}
							return failf("close-stuck", "Server.Close does not return although no backend callback is in progress: it waits for a lock whose holder waits for the peer:\n%s", trimTo(stack, 1500))
						}
					}
				}
			}
		case "cancel":
			if cancel != nil {
				cancel()
				cancelled = true
			}
		}
	}
	// wind down: every delivery may complete, every client goes away
	r.B.ReleaseAll()
	for _, w := range wires {
		w.CloseWrite()
	}
	waitCh := func(ch chan struct{}) bool {
		if ch == nil {
			return true
		}
		select {
		case <-ch:
			return true
		case <-time.After(harness.Watchdog):
			return false
		}
	}
	if !waitCh(closeDone) || !waitCh(shutDone) {
		stacks := harness.BlockedStacks(harness.ServerGoroutines())
		for _, w := range wires {
			w.Abort()
		}
		if len(stacks) > 0 {
			return failf("deadlock", "Server.Close / Shutdown did not return although every delivery was released and every client disconnected:\n%s", strings.Join(stacks, "\n\n"))
		}
		return Verdict{Inconclusive: "watchdog waiting for Close/Shutdown"}
	}
	if cancel != nil {
		cancel()
	}
	for _, w := range wires {
		if !w.WaitClosed() {
			stacks := harness.BlockedStacks(harness.ServerGoroutines())
			if len(stacks) > 0 {
				return failf("deadlock", "a connection handler does not finish after its client disconnected:\n%s", strings.Join(stacks, "\n\n"))
			}
			return Verdict{Inconclusive: "watchdog waiting for handlers"}
		}
	}
	fired := closeDone != nil || shutDone != nil
	if fired && !r.L.IsClosed() {
		return failf("still-accepting", "Close / Shutdown has returned but the listener was never closed: the server still accepts connections")
	}
	if !r.Shutdown() {
		return Verdict{Inconclusive: "watchdog in final join"}
	}
	mu.Lock()
	defer mu.Unlock()
	if closeDone != nil && closeErr != nil {
		return failf("close-result", "first Server.Close returned %v", closeErr)
	}
	if shutDone != nil {
		if shutErr != nil && !(cancelled && errors.Is(shutErr, context.Canceled)) {
			return failf("shutdown-result", "Server.Shutdown returned %v (context cancelled: %v)", shutErr, cancelled)
		}
	}
	if fired {
		if err := r.Srv.Close(); err != smtp.ErrServerClosed {
			return failf("second-close", "Close after the server was closed returned %v, want ErrServerClosed", err)
		}
		if err := r.Srv.Shutdown(context.Background()); err != smtp.ErrServerClosed {
			return failf("second-shutdown", "Shutdown after the server was closed returned %v, want ErrServerClosed", err)
		}
	}
	if len(r.Leftover) > 0 {
		return failf("goroutine-left", "goroutine left behind:\n%s", r.Leftover[0])
	}
	evs := r.B.Events()
	if bad := sessionInvariants(evs, nil); bad != nil && bad.Tag != "callback-after-logout" {
		// every session exactly one Logout, every callback finished (a callback
		// that was already past its session lookup when Close landed is outside
		// this property's claims; C08 judges ordering without concurrency)
		return *bad
	}
	created, logouts := 0, 0
	for _, e := range evs {
		if e.CB == "NewSession" && !e.Begin && e.Sess >= 0 {
			created++
		}
		if e.CB == "Logout" && e.Begin {
			logouts++
		}
	}
	if created != logouts {
		return failf("logout-count", "%d sessions created, %d Logout calls; trace %s", created, logouts, traceString(evs))
	}
	begun := 0
	for _, e := range evs {
		if e.Begin {
			begun++
		} else if e.CB != "AuthMechanisms" && e.CB != "SASLNext" {
			begun--
		}
	}
	if begun != 0 {
		return failf("callback-unfinished", "%d callbacks never returned", begun)
	}
	v.NonTrivial = overlap || (c.Gate != "" && fired)
	if overlap {
		v.Classes = append(v.Classes, "close_overlaps_callback")
	}
	if closeDone != nil {
		v.Classes = append(v.Classes, "server_close")
	}
	if shutDone != nil {
		v.Classes = append(v.Classes, "server_shutdown")
	}
	if cancelled {
		v.Classes = append(v.Classes, "context_cancelled")
	}
	if c.Gate != "" {
		v.Classes = append(v.Classes, "gated_deliveries")
	}
	return v
}

func c20Gen(t *rapid.T) c20Case {
	c := c20Case{LMTP: rapid.Bool().Draw(t, "lmtp"), PerRcpt: rapid.Bool().Draw(t, "perrcpt"), NConns: rapid.IntRange(1, 3).Draw(t, "nconns"),
		Gate: rapid.SampledFrom([]string{"", "pre", "post", "post", "start", "newsession", "mail", "rcpt"}).Draw(t, "gate")}
	c.Early = rapid.IntRange(0, 3).Draw(t, "early") == 0
	c.TLS = rapid.IntRange(0, 3).Draw(t, "tls") == 0
	c.PanicOnAbort = !c.Early && rapid.IntRange(0, 3).Draw(t, "panic_on_abort") == 0
	// per-connection programs
	progs := make([][]string, c.NConns)
	for i := range progs {
		p := []string{"greet"}
		if c.TLS && c.Gate != "newsession" && rapid.Bool().Draw(t, "handshake_pending") {
			// the connection is left waiting for a ClientHello
			progs[i] = []string{"greet", "starttls-begin", rapid.SampledFrom([]string{"eof", "abort", "starttls-begin"}).Draw(t, "end")}
			continue
		}
		if c.Gate == "newsession" {
			p = append(p, "release")
		}
		for j, n := 0, rapid.IntRange(1, 3).Draw(t, "ntxn"); j < n; j++ {
			p = append(p, "envelope")
			if c.Gate == "mail" || c.Gate == "rcpt" {
				p = append(p, "release", "release", "release")
			}
			switch rapid.IntRange(0, 4).Draw(t, "kind") {
			case 0:
				p = append(p, "data")
			case 1:
				p = append(p, "chunk", "last")
			case 2:
				p = append(p, "chunk", "rset")
			case 3:
				p = append(p, "chunk", "chunk", "release", "last")
			default:
				p = append(p, "chunk", "release", "rset")
			}
			if rapid.Bool().Draw(t, "rel") {
				p = append(p, "release")
			}
		}
		p = append(p, rapid.SampledFrom([]string{"quit", "eof", "abort", "quit"}).Draw(t, "end"))
		progs[i] = p
	}
	// interleave
	idx := make([]int, c.NConns)
	total := 0
	for _, p := range progs {
		total += len(p)
	}
	globalAt := rapid.IntRange(0, total).Draw(t, "global_at")
	global := rapid.SampledFrom([]string{"close", "close", "shutdown", "shutdown+cancel", "none"}).Draw(t, "global")
	for n := 0; n <= total; n++ {
		if n == globalAt && global != "none" {
			c.Steps = append(c.Steps, c20Step{Conn: -1, Op: strings.Split(global, "+")[0]})
			if c.TLS {
				c.Steps = append(c.Steps, c20Step{Conn: -1, Op: "settle"})
			}
			if global == "shutdown+cancel" {
				// the cancel comes some steps later
				defer func(at int) {}(n)
			}
		}
		if n == total {
			break
		}
		// pick a connection that still has steps
		var live []int
		for i, p := range progs {
			if idx[i] < len(p) {
				live = append(live, i)
			}
		}
		ci := live[rapid.IntRange(0, len(live)-1).Draw(t, "pick")]
		c.Steps = append(c.Steps, c20Step{Conn: ci, Op: progs[ci][idx[ci]], Wait: rapid.IntRange(0, 2).Draw(t, "wait") != 0})
		idx[ci]++
	}
	if global == "shutdown+cancel" {
		pos := rapid.IntRange(0, len(c.Steps)).Draw(t, "cancel_at")
		c.Steps = append(c.Steps[:pos], append([]c20Step{{Conn: -1, Op: "cancel"}}, c.Steps[pos:]...)...)
	}
	return c
}

// ---- connections accepted just before Close / Shutdown ----

type c20LateCase struct {
	LMTP     bool   `json:"lmtp,omitempty"`
	Early    int    `json:"early"`    // connections already being served (0-2)
	Late     int    `json:"late"`     // connections accepted but not yet registered when the server is closed (1-2)
	Via      string `json:"via"`      // close | shutdown
	Greeting bool   `json:"greeting"` // the early connections have greeted (a session exists)
}

// c20LateRun: the goroutine of a freshly accepted connection is held (verif
// hook) before the library registers the connection; Close or Shutdown is
// called; then the goroutine goes on. After Close every connection must be
// ended by the server - the late ones too; Shutdown must return once the
// clients have finished.
func c20LateRun(c c20LateCase) Verdict {
	r := harness.NewRig(harness.Config{LMTP: c.LMTP}, harness.Script{GateAccept: true})
	v := Verdict{NonTrivial: true, Classes: []string{"late_" + c.Via}}
	var early, late []*harness.Wire
	n := 0
	for i := 0; i < c.Early; i++ {
		w, _ := r.Dial()
		// let it register and greet
		name := fmt.Sprintf("accept%d", n)
		n++
		if !r.Hub.WaitUntil(func() bool { return r.B.GateArrivedLocked(name) }, harness.Watchdog) {
			r.B.ReleaseAll()
			w.Finish()
			return Verdict{Inconclusive: "accept hook not reached (early connection)"}
		}
		r.B.Release(name)
		if st := w.WaitQuiet(); st != harness.QIdle {
			r.B.ReleaseAll()
			w.Finish()
			return Verdict{Inconclusive: "early connection not idle: " + st}
		}
		if c.Greeting {
			w.Exchange([]byte(greetWord(c.LMTP) + " cli\r\n"))
		}
		early = append(early, w)
	}
	var lateGates []string
	for i := 0; i < c.Late; i++ {
		w, _ := r.Dial()
		name := fmt.Sprintf("accept%d", n)
		n++
		if !r.Hub.WaitUntil(func() bool { return r.B.GateArrivedLocked(name) }, harness.Watchdog) {
			r.B.ReleaseAll()
			w.Finish()
			return Verdict{Inconclusive: "accept hook not reached (late connection)"}
		}
		lateGates = append(lateGates, name)
		late = append(late, w)
	}
	abortAll := func() {
		r.B.ReleaseAll()
		for _, w := range append(early, late...) {
			w.Abort()
		}
	}
	if c.Via == "close" {
		done := make(chan error, 1)
		go func() { done <- r.Srv.Close() }()
		select {
		case err := <-done:
			if err != nil {
				abortAll()
				return failf("close-result", "Server.Close returned %v", err)
			}
		case <-time.After(harness.Watchdog):
			stacks := harness.BlockedStacks(harness.ServerGoroutines())
			abortAll()
			return failf("deadlock", "Server.Close does not return while a freshly accepted connection has not been registered yet:\n%s", strings.Join(stacks, "\n\n"))
		}
		for _, g := range lateGates {
			r.B.Release(g)
		}
		// every connection is ended by the server, without the clients doing anything
		for i, w := range append(append([]*harness.Wire(nil), early...), late...) {
			if !r.Hub.WaitUntil(func() bool { return w.S.ClosedLocked() }, 2*time.Second) {
				kind := "served before Close"
				if i >= len(early) {
					kind = "accepted just before Close"
				}
				out := w.Recv()
				abortAll()
				r.ForceClose()
				return failf("connection-survives-close", "Server.Close has returned, yet a connection %s is still open and being served (it has received %s)", kind, q(out))
			}
		}
		for _, w := range append(early, late...) {
			w.CloseWrite()
		}
		if !r.Shutdown() {
			return Verdict{Inconclusive: "watchdog in final join"}
		}
	} else {
		ctx, cancel := context.WithTimeout(context.Background(), harness.Watchdog)
		defer cancel()
		done := make(chan error, 1)
		go func() { done <- r.Srv.Shutdown(ctx) }()
		// Shutdown waits for the connections; they finish when their clients do
		for _, g := range lateGates {
			r.B.Release(g)
		}
		for _, w := range append(early, late...) {
			w.WaitQuiet()
			w.Send([]byte("QUIT\r\n"))
		}
		select {
		case err := <-done:
			if err != nil {
				abortAll()
				return failf("shutdown-result", "Server.Shutdown returned %v although every client has finished", err)
			}
		case <-time.After(harness.Watchdog + time.Second):
			abortAll()
			return failf("deadlock", "Server.Shutdown did not return although every client has sent QUIT")
		}
		for _, w := range append(early, late...) {
			w.CloseWrite()
		}
		if !r.Shutdown() {
			return Verdict{Inconclusive: "watchdog in final join"}
		}
	}
	if len(r.Leftover) > 0 {
		return failf("goroutine-left", "goroutine left behind:\n%s", r.Leftover[0])
	}
	if bad := sessionInvariants(r.B.Events(), nil); bad != nil && bad.Tag != "callback-after-logout" {
		return *bad
	}
	return v
}

// ---- Serve called on a server that has been closed already ----

type c20ServeAfterCase struct {
	Via string `json:"via"` // close | shutdown
}

// c20ServeAfterRun: Close (or Shutdown) runs before Serve has registered its
// listener - `go srv.Serve(l)` followed at once by `srv.Close()` can come out
// that way. Serve must return all the same, and not accept connections.
func c20ServeAfterRun(c c20ServeAfterCase) Verdict {
	hub := harness.NewHub()
	b := harness.NewBackend(hub, harness.Script{})
	s := smtp.NewServer(b)
	s.Domain = "srv"
	s.ErrorLog = &harness.LogBuf{}
	l := harness.NewListener(hub)
	var err error
	if c.Via == "close" {
		err = s.Close()
	} else {
		err = s.Shutdown(context.Background())
	}
	if err != nil {
		return failf("close-result", "%s on a server that never served returned %v", c.Via, err)
	}
	res := make(chan error, 1)
	go func() { res <- s.Serve(l) }()
	v := Verdict{NonTrivial: true, Classes: []string{"serve_after_" + c.Via}}
	select {
	case <-res:
	case <-time.After(2 * time.Second):
		stacks := harness.BlockedStacks(harness.ServerGoroutines())
		l.Close()
		<-res
		if len(stacks) > 0 {
			return failf("serve-after-close", "Serve was called after %s had returned and does not return: it waits for connections on a server that is closed:\n%s", c.Via, trimTo(stacks[0], 1200))
		}
		return Verdict{Inconclusive: "Serve did not return, but no parked library goroutine was found"}
	}
	if left := harness.WaitNoServerGoroutines(); len(left) > 0 {
		return failf("goroutine-left", "goroutine left behind:\n%s", left[0])
	}
	return v
}

// ---- Close ends every connection and every Serve, whatever state they are in ----

type c20EndsCase struct {
	Implicit  bool `json:"implicit_tls,omitempty"` // the listeners hand out TLS connections (handshake in the handler)
	Silent    int  `json:"silent"`                 // connections that never send an octet (under TLS: the handshake is pending)
	Greeted   int  `json:"greeted"`                // connections that have greeted and sit idle
	Listeners int  `json:"listeners"`              // 1-2 listeners served by the one server
	// AppClosed = k > 0: the application has closed listener k itself before
	// it calls Server.Close (whose own Close of that listener then reports an
	// error): everything else must be ended all the same.
	AppClosed int `json:"app_closed,omitempty"`
	// Unbuffered: the silent connections are on a transport that buffers
	// nothing, so that (without TLS) their handlers are parked in the Write
	// of the banner, which nobody reads, rather than in a Read.
	Unbuffered bool `json:"unbuffered,omitempty"`
}

// c20EndsRun: the clients do nothing at all to help - they neither disconnect
// nor speak. When Server.Close has returned, every connection has been ended
// by the server, every Serve call has returned, and no goroutine is left.
func c20EndsRun(c c20EndsCase) Verdict {
	cfg := harness.Config{}
	if c.Implicit {
		cfg.TLS = "implicit"
	}
	r := harness.NewRig(cfg, harness.Script{})
	listeners := []*harness.Listener{r.L}
	var serve2 chan error
	if c.Listeners > 1 {
		l2 := harness.NewListener(r.Hub)
		listeners = append(listeners, l2)
		serve2 = make(chan error, 1)
		var nl net.Listener = l2
		if c.Implicit {
			nl = tls.NewListener(l2, harness.ServerTLS())
		}
		go func() { serve2 <- r.Srv.Serve(nl) }()
	}
	// every accept loop is up (a Serve that has not got as far as registering
	// its listener is not "serving" yet: Close would rightly not know it)
	for deadline := time.Now().Add(harness.Watchdog); ; {
		up := true
		for _, l := range listeners {
			up = up && l.Accepting()
		}
		if up {
			break
		}
		if time.Now().After(deadline) {
			r.ForceClose()
			return Verdict{Inconclusive: "an accept loop did not come up"}
		}
		time.Sleep(50 * time.Microsecond)
	}
	var clients, servers []*harness.End
	abortAll := func() {
		for _, e := range clients {
			e.Abort()
		}
	}
	for i := 0; i < c.Silent; i++ {
		var cl, sv *harness.End
		if c.Unbuffered {
			cl, sv = listeners[i%len(listeners)].DialSynchronous()
		} else {
			cl, sv = listeners[i%len(listeners)].Dial()
		}
		clients, servers = append(clients, cl), append(servers, sv)
	}
	for i := 0; i < c.Greeted; i++ {
		w, err := r.Dial()
		if err != nil {
			abortAll()
			w.Abort()
			r.ForceClose()
			return Verdict{Inconclusive: "dial: " + err.Error()}
		}
		w.WaitQuiet()
		w.Exchange([]byte("EHLO cli\r\n"))
		clients, servers = append(clients, w.C), append(servers, w.S)
	}
	// every handler has got as far as it can: it waits for its peer
	if !r.Hub.WaitUntil(func() bool {
		for _, sv := range servers {
			if !sv.BlockedInReadLocked() && !sv.BlockedInWriteLocked() {
				return false
			}
		}
		return true
	}, harness.Watchdog) {
		abortAll()
		r.ForceClose()
		return Verdict{Inconclusive: "a handler never came to wait for its peer"}
	}
	if c.AppClosed > 0 {
		listeners[(c.AppClosed-1)%len(listeners)].Close()
	}
	closed := make(chan error, 1)
	go func() { closed <- r.Srv.Close() }()
	var closeErr error
	select {
	case closeErr = <-closed:
	case <-time.After(harness.Watchdog):
		stacks := harness.BlockedStacks(harness.ServerGoroutines())
		abortAll()
		return failf("deadlock", "Server.Close does not return (%d silent and %d idle connections):\n%s", c.Silent, c.Greeted, strings.Join(stacks, "\n\n"))
	}
	v := Verdict{NonTrivial: true}
	if c.Implicit && c.Silent > 0 {
		v.Classes = append(v.Classes, "tls_handshake_pending")
	}
	if c.Listeners > 1 {
		v.Classes = append(v.Classes, "two_listeners")
	}
	if c.Unbuffered && c.Silent > 0 && !c.Implicit {
		v.Classes = append(v.Classes, "handler_parked_in_write")
	}
	if c.AppClosed > 0 {
		v.Classes = append(v.Classes, "listener_closed_by_the_application_first")
	} else if closeErr != nil {
		abortAll()
		return failf("close-result", "first Server.Close returned %v", closeErr)
	}
	open := -1
	r.Hub.WaitUntil(func() bool {
		open = -1
		for i, sv := range servers {
			if !sv.ClosedLocked() {
				open = i
			}
		}
		return open < 0
	}, 300*time.Millisecond)
	if open >= 0 {
		kind := "idle after its greeting"
		if open < c.Silent {
			kind = "silent"
			if c.Implicit {
				kind = "in its TLS handshake"
			}
		}
		abortAll()
		r.Shutdown()
		return failf("connection-left-open", "Server.Close has returned (%v) but connection %d (%s) has not been closed by the server", closeErr, open, kind)
	}
	for i, l := range listeners {
		if !l.IsClosed() {
			abortAll()
			return failf("still-accepting", "Server.Close has returned (%v) but listener %d was never closed", closeErr, i+1)
		}
	}
	if serve2 != nil {
		select {
		case <-serve2:
		case <-time.After(harness.Watchdog):
			stacks := harness.BlockedStacks(harness.ServerGoroutines())
			abortAll()
			return failf("serve-does-not-return", "Server.Close has returned (%v) but Serve on the second listener has not:\n%s", closeErr, strings.Join(stacks, "\n\n"))
		}
	}
	if err := r.Srv.Close(); err != smtp.ErrServerClosed {
		abortAll()
		return failf("second-close", "Close after the server was closed returned %v, want ErrServerClosed", err)
	}
	if !r.Shutdown() {
		stacks := harness.BlockedStacks(harness.ServerGoroutines())
		abortAll()
		if len(stacks) > 0 {
			return failf("serve-does-not-return", "Server.Close has returned (%v) but Serve or a handler has not finished:\n%s", closeErr, strings.Join(stacks, "\n\n"))
		}
		return Verdict{Inconclusive: "watchdog in final join"}
	}
	abortAll()
	if len(r.Leftover) > 0 {
		return failf("goroutine-left", "goroutine left behind:\n%s", r.Leftover[0])
	}
	return v
}

// ---- Close and Shutdown called at the same moment ----

type c20RacingCase struct {
	Callers []string `json:"callers"` // "close" / "shutdown", all released together
	Conns   int      `json:"conns"`   // idle connections being served (1-2; at least one, so that Serve is known to be running)
}

// c20RacingRun releases several callers of Close / Shutdown at once. Exactly
// one of them ends the server (nil, or the context's error); every other one
// reports ErrServerClosed; nobody panics. Which caller wins is up to the
// scheduler - the oracle does not care - so this part is a stress test: a
// violation observed is definite, a pass says less than elsewhere.
func c20RacingRun(c c20RacingCase) Verdict {
	r := harness.NewRig(harness.Config{}, harness.Script{})
	var wires []*harness.Wire
	for i := 0; i < c.Conns; i++ {
		w, _ := r.Dial()
		w.WaitQuiet()
		wires = append(wires, w)
	}
	type res struct {
		err   error
		panic interface{}
	}
	results := make([]res, len(c.Callers))
	start := make(chan struct{})
	var wg sync.WaitGroup
	ctx, cancel := context.WithTimeout(context.Background(), harness.Watchdog)
	defer cancel()
	for i, kind := range c.Callers {
		wg.Add(1)
		go func(i int, kind string) {
			defer wg.Done()
			defer func() {
				if p := recover(); p != nil {
					results[i].panic = p
				}
			}()
			<-start
			if kind == "close" {
				results[i].err = r.Srv.Close()
			} else {
				results[i].err = r.Srv.Shutdown(ctx)
			}
		}(i, kind)
	}
	close(start)
	// Shutdown waits for the connections: let them go
	for _, w := range wires {
		w.CloseWrite()
	}
	doneCh := make(chan struct{})
	go func() { wg.Wait(); close(doneCh) }()
	select {
	case <-doneCh:
	case <-time.After(harness.Watchdog + 2*time.Second):
		for _, w := range wires {
			w.Abort()
		}
		return failf("deadlock", "concurrent Close / Shutdown calls %v did not all return", c.Callers)
	}
	for _, w := range wires {
		w.WaitClosed()
	}
	r.Shutdown()
	v := Verdict{NonTrivial: len(c.Callers) >= 2, Classes: []string{fmt.Sprintf("racing_callers_%d", len(c.Callers))}}
	winners := 0
	for i, rs := range results {
		if rs.panic != nil {
			return failf("close-panics", "concurrent Close / Shutdown calls %v: caller %d (%s) panicked: %v", c.Callers, i, c.Callers[i], rs.panic)
		}
		if rs.err == smtp.ErrServerClosed {
			continue
		}
		winners++
		if rs.err != nil && !errors.Is(rs.err, context.DeadlineExceeded) {
			return failf("close-result", "concurrent Close / Shutdown calls %v: caller %d (%s) returned %v", c.Callers, i, c.Callers[i], rs.err)
		}
	}
	if winners != 1 {
		return failf("close-winners", "concurrent Close / Shutdown calls %v: %d callers were told they had ended the server, want exactly one; results %+v", c.Callers, winners, results)
	}
	if len(r.Leftover) > 0 {
		return failf("goroutine-left", "goroutine left behind:\n%s", r.Leftover[0])
	}
	return v
}

// ---- Accept fault sequences ----

type c20AcceptCase struct {
	Seq string `json:"seq"` // letters T (temporary error), P (permanent error), C (connection)
	// Seq2 (optional, letters T and C): what a second listener of the same
	// Server hands out at the same time (one Serve call each, as for ports 25
	// and 465); the log sink does no locking of its own
	Seq2 string `json:"seq2,omitempty"`
}

type unsyncLog struct{}

func (unsyncLog) Printf(format string, v ...interface{}) {}
func (unsyncLog) Println(v ...interface{})               {}

type tempErr struct{}

func (tempErr) Error() string   { return "scripted temporary accept error" }
func (tempErr) Timeout() bool   { return false }
func (tempErr) Temporary() bool { return true }

var errPermanent = errors.New("scripted permanent accept error")

type scriptedListener struct {
	hub    *harness.Hub
	seq    string
	pos    int
	mu     sync.Mutex
	conns  []*harness.End
	closed chan struct{}
	once   sync.Once
}

func (l *scriptedListener) Accept() (net.Conn, error) {
	l.mu.Lock()
	if l.pos < len(l.seq) {
		ch := l.seq[l.pos]
		l.pos++
		l.mu.Unlock()
		switch ch {
		case 'T':
			return nil, tempErr{}
		case 'P':
			return nil, errPermanent
		default:
			cl, sv := harness.Pair(l.hub)
			l.mu.Lock()
			l.conns = append(l.conns, cl)
			l.mu.Unlock()
			return sv, nil
		}
	}
	l.mu.Unlock()
	<-l.closed
	return nil, net.ErrClosed
}

func (l *scriptedListener) Close() error {
	l.once.Do(func() { close(l.closed) })
	return nil
}
func (l *scriptedListener) Addr() net.Addr { return &net.TCPAddr{IP: net.IPv4(127, 0, 0, 1)} }

func c20AcceptRun(c c20AcceptCase) Verdict {
	hub := harness.NewHub()
	b := harness.NewBackend(hub, harness.Script{})
	s := smtp.NewServer(b)
	s.Domain = "srv"
	s.ErrorLog = &harness.LogBuf{}
	l := &scriptedListener{hub: hub, seq: c.Seq, closed: make(chan struct{})}
	serveRes := make(chan error, 1)
	var l2 *scriptedListener
	serveRes2 := make(chan error, 1)
	if c.Seq2 != "" {
		s.ErrorLog = unsyncLog{}
		l2 = &scriptedListener{hub: hub, seq: c.Seq2, closed: make(chan struct{})}
		go func() { serveRes2 <- s.Serve(l2) }()
	}
	go func() { serveRes <- s.Serve(l) }()
	wantConns := 0
	hasP := false
	for _, ch := range c.Seq {
		if ch == 'P' {
			hasP = true
			break
		}
		if ch == 'C' {
			wantConns++
		}
	}
	v := Verdict{NonTrivial: strings.Contains(c.Seq, "T") || hasP, Classes: []string{"len_" + fmt.Sprint(len(c.Seq))}}
	// every connection accepted before the first permanent error is served
	deadline := time.Now().Add(harness.Watchdog)
	for {
		l.mu.Lock()
		n := len(l.conns)
		done := l.pos >= len(c.Seq) || (hasP && l.pos > strings.Index(c.Seq, "P"))
		l.mu.Unlock()
		if n >= wantConns && done {
			break
		}
		if time.Now().After(deadline) {
			s.Close()
			return failf("accept-stalled", "sequence %q: Serve stopped accepting after %d of %d connections", c.Seq, n, wantConns)
		}
		time.Sleep(time.Millisecond)
	}
	l.mu.Lock()
	conns := append([]*harness.End(nil), l.conns...)
	l.mu.Unlock()
	conns = conns[:wantConns]
	if l2 != nil {
		want2 := strings.Count(c.Seq2, "C")
		for {
			l2.mu.Lock()
			n, done := len(l2.conns), l2.pos >= len(c.Seq2)
			l2.mu.Unlock()
			if n >= want2 && done {
				break
			}
			if time.Now().After(deadline) {
				s.Close()
				return failf("accept-stalled", "second listener, sequence %q: Serve stopped accepting after %d of %d connections", c.Seq2, n, want2)
			}
			time.Sleep(time.Millisecond)
		}
		l2.mu.Lock()
		conns = append(conns, l2.conns...)
		l2.mu.Unlock()
		wantConns = len(conns)
	}
	for i, cl := range conns[:wantConns] {
		cl.Write([]byte("QUIT\r\n"))
		var got []byte
		ok := hub.WaitUntil(func() bool {
			// the greeting and the answer to QUIT, whatever their wording
			in := cl.PeekInLocked()
			return bytes.HasPrefix(in, []byte("220 ")) && bytes.Contains(in, []byte("\r\n221 ")) && bytes.HasSuffix(in, []byte("\r\n"))
		}, harness.Watchdog)
		got = cl.TakeAll()
		if !ok || !strings.HasPrefix(string(got), "220 ") || !strings.Contains(string(got), "221 ") {
			s.Close()
			return failf("not-served", "sequence %q: connection %d accepted but not served: %q", c.Seq, i, got)
		}
		cl.Close()
	}
	if hasP {
		select {
		case err := <-serveRes:
			if err != errPermanent {
				return failf("serve-result", "sequence %q: Serve returned %v, want the permanent accept error", c.Seq, err)
			}
		case <-time.After(harness.Watchdog):
			s.Close()
			return failf("serve-result", "sequence %q: Serve did not return after a permanent accept error", c.Seq)
		}
		s.Close()
	} else {
		select {
		case err := <-serveRes:
			return failf("serve-result", "sequence %q (no permanent error): Serve returned early with %v", c.Seq, err)
		default:
		}
		if err := s.Close(); err != nil {
			return failf("close-result", "Close returned %v", err)
		}
		select {
		case err := <-serveRes:
			if err != nil {
				return failf("serve-result", "sequence %q: Serve returned %v after Close, want nil", c.Seq, err)
			}
		case <-time.After(harness.Watchdog):
			return failf("serve-result", "sequence %q: Serve did not return after Close", c.Seq)
		}
	}
	if l2 != nil {
		select {
		case err := <-serveRes2:
			if err != nil {
				return failf("serve-result", "second listener, sequence %q: Serve returned %v after Close, want nil", c.Seq2, err)
			}
		case <-time.After(harness.Watchdog):
			return failf("serve-result", "second listener: Serve did not return after Close")
		}
	}
	if left := harness.WaitNoServerGoroutines(); len(left) > 0 {
		return failf("goroutine-left", "goroutine left behind:\n%s", left[0])
	}
	return v
}

var (
	c20Sub    *subCheck[c20Case]
	c20Accept *subCheck[c20AcceptCase]
	c20Late   *subCheck[c20LateCase]
	c20Racing *subCheck[c20RacingCase]
	c20Ends   *subCheck[c20EndsCase]
	c20After  *subCheck[c20ServeAfterCase]
)

func init() {
	registrars = append(registrars, func() {
		c20Sub = newSub("C20", "schedules", c20Run)
		c20Accept = newSub("C20", "accept", c20AcceptRun)
		c20Late = newSub("C20", "late", c20LateRun)
		c20Racing = newSub("C20", "racing", c20RacingRun)
		c20Ends = newSub("C20", "ends", c20EndsRun)
		c20After = newSub("C20", "serve-after", c20ServeAfterRun)
	})
}

// raceSubtest runs fn as a subtest so that a race-detector report (which
// fails the subtest it happens in) is attributed to this case. It returns
// false after reporting a violation.
func raceSubtest[C any](t *testing.T, s *subCheck[C], name string, c C) bool {
	var v Verdict
	ok := t.Run(name, func(st *testing.T) {
		v = s.eval(c)
		if v.Fail != "" {
			st.Errorf("%s", v.Fail)
		}
	})
	if ok {
		return true
	}
	if v.Fail == "" {
		// the subtest failed although the oracle was satisfied: the race
		// detector (or a panic) failed it
		v = failf("data-race", "the race detector reported a data race while this case ran (report: see the WARNING: DATA RACE block in the log)")
		cj := mustJSON(c)
		path := writeReplay(s.pid, s.sub, cj, v)
		violation(s.pid, path, v.Fail)
		return false
	}
	path := writeReplay(s.pid, s.sub, s.lastFail, v)
	violation(s.pid, path, v.Fail)
	s.lastFail = nil
	return false
}

func TestC20(t *testing.T) {
	registerAll()
	st.Rule = "cases = (1-3 connections with generated programs of greet/envelope/BDAT chunks/LAST/DATA/RSET/QUIT/disconnect, deliveries parked on harness gates, an interleaving of the programs chosen by the generator, Server.Close or Shutdown(+context cancel) fired asynchronously at a generated point, optional waiting for quiescence between steps), each executed under the race detector as its own subtest; and connections accepted but not yet registered when Close / Shutdown is called (verif hook); and all Accept outcome sequences over {temporary error, permanent error, connection} up to the length bound; non-trivial = Close/Shutdown overlapping a callback in flight or gated deliveries with Close/Shutdown, or an Accept sequence with an error; distinct = hash of the whole case"
	if !regress(t, "C20") {
		return
	}
	// connections accepted just before Close / Shutdown: a small finite product
	lateIdx := 0
	for _, lmtp := range []bool{false, true} {
		for early := 0; early <= 2; early++ {
			for late := 1; late <= 2; late++ {
				for _, via := range []string{"close", "shutdown"} {
					for _, gr := range []bool{false, true} {
						lateIdx++
						if !mine(lateIdx) || (early == 0 && gr) {
							continue
						}
						if !raceSubtest(t, c20Late, fmt.Sprintf("late_%d", lateIdx), c20LateCase{LMTP: lmtp, Early: early, Late: late, Via: via, Greeting: gr}) {
							return
						}
					}
				}
			}
		}
	}
	for i, via := range []string{"close", "shutdown"} {
		if mine(i) && !raceSubtest(t, c20After, "serve_after_"+via, c20ServeAfterCase{Via: via}) {
			return
		}
	}
	// several callers of Close / Shutdown released at once (stress)
	for i, n := 0, pickTier(150, 600); i < n; i++ {
		if !mine(i) {
			continue
		}
		k := 2 + (i+seedBase)%7
		var callers []string
		for j := 0; j < k; j++ {
			if (i/7+j+seedBase)%3 == 0 {
				callers = append(callers, "shutdown")
			} else {
				callers = append(callers, "close")
			}
		}
		if !raceSubtest(t, c20Racing, fmt.Sprintf("racing_%d", i), c20RacingCase{Callers: callers, Conns: 1 + i%2}) {
			return
		}
	}
	// Close ends everything, whatever the connections are doing (small complete enumeration)
	endsIdx := 0
	for _, implicit := range []bool{false, true} {
		for silent := 0; silent <= 2; silent++ {
			for greeted := 0; greeted <= 1; greeted++ {
				for nl := 1; nl <= 2; nl++ {
					for app := 0; app <= nl; app++ {
						endsIdx++
						if silent+greeted == 0 || !mine(endsIdx) {
							continue
						}
						if !raceSubtest(t, c20Ends, fmt.Sprintf("ends_%d", endsIdx), c20EndsCase{Implicit: implicit, Silent: silent, Greeted: greeted, Listeners: nl, AppClosed: app, Unbuffered: endsIdx%2 == 0}) {
							return
						}
					}
				}
			}
		}
	}
	// Accept fault sequences, exhaustive
	maxLen := pickTier(4, 5)
	idx := 0
	complete := true
	var seqs []string
	var rec func(cur string)
	rec = func(cur string) {
		if len(cur) > 0 {
			seqs = append(seqs, cur)
		}
		if len(cur) == maxLen {
			return
		}
		for _, ch := range "TPC" {
			rec(cur + string(ch))
		}
	}
	rec("")
	for _, sq := range seqs {
		idx++
		if !mine(idx) {
			continue
		}
		if !raceSubtest(t, c20Accept, "accept_"+sq, c20AcceptCase{Seq: sq}) {
			complete = false
			break
		}
	}
	// two listeners of one Server with Accept trouble at the same time
	for _, pair := range [][2]string{{"TTC", "TTC"}, {"TCT", "CTT"}, {"TTTC", "TC"}, {"CTTC", "TTT"}, {"TT", "TTTT"}} {
		idx++
		if !mine(idx) || !complete {
			continue
		}
		if !raceSubtest(t, c20Accept, "accept2_"+pair[0]+"_"+pair[1], c20AcceptCase{Seq: pair[0], Seq2: pair[1]}) {
			complete = false
		}
	}
	st.Exhaustive["accept"] = complete
	if !complete {
		return
	}
	// schedules: drawn with rapid's generators (deterministic per seed), one subtest each
	n := pickTier(800, 8000)
	gen := rapid.Custom(c20Gen)
	for i := 0; i < n; i++ {
		c := gen.Example(seedBase*1000003 + shard*100003 + i)
		if !raceSubtest(t, c20Sub, fmt.Sprintf("sched_%d", i), c) {
			return
		}
	}
}
