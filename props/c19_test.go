package props

import (
	"bytes"
	"fmt"
	"strings"
	"testing"

	"pgregory.net/rapid"

	"verif/harness"
)

// C19 - hostile input is bounded: over-long lines and error floods end the
// connection.

// ---- (a) line lengths around the limit, at every position ----

type c19LineCase struct {
	L        int    `json:"l"`        // MaxLineLength
	Total    int    `json:"total"`    // total length of the probe line, CRLF included
	Kind     string `json:"kind"`     // noop | mail | rcpt | junk
	Position string `json:"position"` // first greeted txn between-chunks after-last
	Pipeline bool   `json:"pipeline"` // prefix, probe and follow-up in one go (else prefix lock-step first)
	Cut      int    `json:"cut"`      // >0: the probe line is split into two segments at this offset
	BareLF   bool   `json:"bare_lf,omitempty"`
	Debug    bool   `json:"debug,omitempty"` // the server has a Debug writer attached
}

func c19Probe(c c19LineCase) []byte {
	eol := "\r\n"
	if c.BareLF {
		eol = "\n"
	}
	head := "NOOP"
	switch c.Kind {
	case "mail":
		head = "MAIL FROM:<long@x>"
	case "rcpt":
		head = "RCPT TO:<long@x>"
	case "junk":
		head = "aaaa"
	}
	pad := c.Total - len(head) - len(eol)
	if pad < 0 {
		pad = 0
	}
	fill := " "
	if c.Kind == "junk" {
		fill = "a"
	}
	return []byte(head + strings.Repeat(fill, pad) + eol)
}

func c19LineRun(c c19LineCase) Verdict {
	cfg := harness.Config{MaxLineLength: c.L, Debug: c.Debug}
	script := harness.Script{}
	if c.Position == "after-failed-chunk" {
		script.Data = []harness.DataPlan{{Read: harness.ReadPlan{Limit: 0}, Result: harness.Decision{Kind: "smtp", Code: 452, Enh: [3]int{4, 3, 1}, Msg: "no space"}}}
	}
	r := harness.NewRig(cfg, script)
	w, _ := r.Dial()
	if st := w.WaitQuiet(); st != harness.QIdle {
		w.Finish()
		return Verdict{Inconclusive: "server not idle after connect: " + st}
	}
	var pre conv
	switch c.Position {
	case "first":
	case "greeted":
		pre.cmd("EHLO cli", expect{Code: 250})
	case "txn":
		pre.cmd("EHLO cli", expect{Code: 250})
		pre.cmd("MAIL FROM:<s@x>", expect{Code: 250})
		pre.cmd("RCPT TO:<r@x>", expect{Code: 250})
	case "between-chunks":
		pre.cmd("EHLO cli", expect{Code: 250})
		pre.cmd("MAIL FROM:<s@x>", expect{Code: 250})
		pre.cmd("RCPT TO:<r@x>", expect{Code: 250})
		pre.cmd("BDAT 3", expect{Code: 250})
		pre.raw([]byte("abc"))
	case "after-last":
		pre.cmd("EHLO cli", expect{Code: 250})
		pre.cmd("MAIL FROM:<s@x>", expect{Code: 250})
		pre.cmd("RCPT TO:<r@x>", expect{Code: 250})
		pre.cmd("BDAT 3 LAST", expect{Code: 250})
		pre.raw([]byte("abc"))
	case "after-failed-chunk":
		// the backend refuses the delivery without reading: the chunk fails
		pre.cmd("EHLO cli", expect{Code: 250})
		pre.cmd("MAIL FROM:<s@x>", expect{Code: 250})
		pre.cmd("RCPT TO:<r@x>", expect{Code: 250})
		pre.cmd("BDAT 3", expect{Code: 452})
		pre.raw([]byte("abc"))
	}
	probe := c19Probe(c)
	total := len(probe)
	follow := []byte("MAIL FROM:<after@x>\r\nQUIT\r\n")
	if c.Position == "txn" || c.Position == "between-chunks" {
		follow = []byte("VRFY after\r\nQUIT\r\n")
	}
	sendProbe := func() {
		if c.Cut > 0 && c.Cut < len(probe) {
			w.Send(probe[:c.Cut])
			w.Send(append(append([]byte(nil), probe[c.Cut:]...), follow...))
		} else {
			w.Send(append(append([]byte(nil), probe...), follow...))
		}
	}
	if c.Pipeline {
		if c.Cut > 0 && c.Cut < len(probe) {
			w.Send(append(append([]byte(nil), pre.buf...), probe[:c.Cut]...))
			w.Send(append(append([]byte(nil), probe[c.Cut:]...), follow...))
		} else {
			w.Send(append(append(append([]byte(nil), pre.buf...), probe...), follow...))
		}
	} else {
		if len(pre.buf) > 0 {
			if _, st := w.Exchange(pre.buf); st != harness.QIdle {
				w.Finish()
				return Verdict{Inconclusive: "server not idle after prefix: " + st}
			}
		}
		sendProbe()
	}
	_, fin := w.Finish()
	if !fin {
		return finishFail(w)
	}
	v := Verdict{}
	d := total - c.L
	v.NonTrivial = d >= -3 && d <= 3
	v.Classes = append(v.Classes, "pos_"+c.Position, "kind_"+c.Kind)
	if c.Cut > 0 {
		v.Classes = append(v.Classes, "probe_in_two_segments")
	}
	if p := r.Log.Panicked(); p != "" {
		return failf("panic", "server logged a panic: %s", p)
	}
	rs, err := harness.ParseReplies(w.Out)
	if err != nil {
		return failf("reply-syntax", "replies do not parse: %v (%s)", err, q(w.Out))
	}
	if len(rs) < 1+len(pre.exp) {
		return failf("replies", "prefix not answered: %v", codes(rs))
	}
	rs = rs[1:]
	if m := matchReplies(rs[:len(pre.exp)], pre.exp); m != "" {
		return Verdict{Inconclusive: "prefix: " + m}
	}
	tail := rs[len(pre.exp):]
	evs := r.B.Events()
	reached := false
	after := false
	for _, e := range evs {
		if e.From == "long@x" || e.To == "long@x" {
			reached = true
		}
		if e.From == "after@x" {
			after = true
		}
	}
	tooLong := func(r harness.Reply) bool { return r.Code == 500 && strings.Contains(r.Text(), "oo long") }
	switch {
	case total <= c.L:
		v.Classes = append(v.Classes, "within_limit")
		if len(tail) == 0 {
			return failf("no-reply", "line of %d octets (limit %d) got no reply", total, c.L)
		}
		if tooLong(tail[0]) {
			return failf("refused-within-limit", "line of %d octets (CRLF included) refused for its length with limit %d: %s", total, c.L, tail[0])
		}
		if len(tail) != 3 || tail[2].Code != 221 {
			return failf("conversation-broken", "line of %d octets within limit %d: expected probe reply, follow-up reply and 221, got %v", total, c.L, codes(tail))
		}
	case total == c.L+1:
		v.Classes = append(v.Classes, "unspecified_limit_plus_1")
		if len(tail) == 0 {
			return failf("no-reply", "line of %d octets (limit %d) got no reply", total, c.L)
		}
	default:
		v.Classes = append(v.Classes, "over_limit")
		if reached {
			return failf("long-line-executed", "line of %d octets (limit %d) reached the backend; trace %s", total, c.L, traceString(evs))
		}
		if len(tail) != 1 || !tooLong(tail[0]) {
			return failf("long-line-not-refused", "line of %d octets (limit %d, position %s): expected a single 500 too-long reply and close, got %v", total, c.L, c.Position, tail)
		}
		if after {
			return failf("executed-after-close", "command after the over-long line was executed")
		}
	}
	return v
}

func c19GenLine(t *rapid.T) c19LineCase {
	c := c19LineCase{L: rapid.SampledFrom([]int{32, 64, 2000}).Draw(t, "l")}
	c.Position = rapid.SampledFrom([]string{"first", "greeted", "txn", "between-chunks", "after-last", "after-failed-chunk"}).Draw(t, "pos")
	switch c.Position {
	case "first":
		c.Kind = rapid.SampledFrom([]string{"noop", "junk"}).Draw(t, "kind")
	case "greeted", "after-last", "after-failed-chunk":
		c.Kind = rapid.SampledFrom([]string{"noop", "mail", "junk"}).Draw(t, "kind")
	case "txn":
		c.Kind = rapid.SampledFrom([]string{"noop", "rcpt", "junk"}).Draw(t, "kind")
	default:
		c.Kind = rapid.SampledFrom([]string{"noop", "junk"}).Draw(t, "kind")
	}
	delta := rapid.SampledFrom([]int{-3, -2, -1, 0, 1, 2, 3, 4, c.L, 2 * c.L}).Draw(t, "delta")
	c.Total = c.L + delta
	c.Pipeline = rapid.Bool().Draw(t, "pipeline")
	if rapid.Bool().Draw(t, "split") {
		c.Cut = rapid.IntRange(1, c.Total-1).Draw(t, "cut")
	}
	c.BareLF = rapid.IntRange(0, 5).Draw(t, "barelf") == 0
	c.Debug = rapid.IntRange(0, 3).Draw(t, "debug") == 0
	return c
}

// ---- (b) endless lines: bounded buffering ----

type c19EndlessCase struct {
	L        int    `json:"l"`
	Position string `json:"position"` // first greeted between-chunks after-last
	Seg      int    `json:"seg"`      // segment size
	Octet    byte   `json:"octet"`
	// Debug: the server has a Debug writer attached (a second reader path)
	Debug bool `json:"debug,omitempty"`
}

func c19EndlessRun(c c19EndlessCase) Verdict {
	escript := harness.Script{}
	if c.Position == "after-failed-chunk" {
		escript.Data = []harness.DataPlan{{Read: harness.ReadPlan{Limit: 0}, Result: harness.Decision{Kind: "smtp", Code: 452, Enh: [3]int{4, 3, 1}, Msg: "no space"}}}
	}
	ecfg := harness.Config{MaxLineLength: c.L, Debug: c.Debug}
	if c.Position == "auth-response" {
		ecfg.AllowInsecureAuth = true
		escript.AuthSession, escript.Mechs = true, []string{"PLAIN"}
	}
	r := harness.NewRig(ecfg, escript)
	w, _ := r.Dial()
	if st := w.WaitQuiet(); st != harness.QIdle {
		w.Finish()
		return Verdict{Inconclusive: "server not idle after connect: " + st}
	}
	var pre []byte
	switch c.Position {
	case "after-failed-chunk":
		pre = []byte("EHLO cli\r\nMAIL FROM:<s@x>\r\nRCPT TO:<r@x>\r\nBDAT 3\r\nabc")
	case "greeted":
		pre = []byte("EHLO cli\r\n")
	case "between-chunks":
		pre = []byte("EHLO cli\r\nMAIL FROM:<s@x>\r\nRCPT TO:<r@x>\r\nBDAT 3\r\nabc")
	case "after-last":
		pre = []byte("EHLO cli\r\nMAIL FROM:<s@x>\r\nRCPT TO:<r@x>\r\nBDAT 3 LAST\r\nabc")
	case "auth-response":
		// the server has sent a 334 and waits for the client's response line
		pre = []byte("EHLO cli\r\nAUTH PLAIN\r\n")
	case "data-body":
		// inside a message: its lines are limited like command lines
		pre = []byte("EHLO cli\r\nMAIL FROM:<s@x>\r\nRCPT TO:<r@x>\r\nDATA\r\n")
	}
	if len(pre) > 0 {
		if _, st := w.Exchange(pre); st != harness.QIdle {
			w.Finish()
			return Verdict{Inconclusive: "server not idle after prefix: " + st}
		}
	}
	base := w.S.Consumed()
	const total = 1 << 20
	seg := bytes.Repeat([]byte{c.Octet}, c.Seg)
	for sent := 0; sent < total; sent += c.Seg {
		w.Send(seg)
	}
	if st := w.WaitQuiet(); st != harness.QClosed {
		// not closed although a megabyte without LF arrived
		consumedNow := w.S.Consumed() - base
		w.Finish()
		if st == harness.QIdle && c.Position == "data-body" {
			// Inside a message the line limit is the server's choice (C19
			// speaks of command lines); what matters is that the octets are
			// not *held*: they must have gone on to the backend.
			delivered := int64(0)
			for _, e := range dataEvents(r.B.Events()) {
				delivered += int64(len(e.Data.Bytes))
			}
			if held := consumedNow - delivered; held > int64(c.L+2*4096+64) {
				return failf("unbounded-buffering", "server took %d octets of an endless message line off the network and handed only %d to the backend: it holds %d", consumedNow, delivered, held)
			}
			if p := r.Log.Panicked(); p != "" {
				return failf("panic", "server logged a panic: %s", p)
			}
			return Verdict{NonTrivial: true, Classes: []string{"endless_data-body_streamed"}}
		}
		if st == harness.QIdle {
			return failf("endless-line-buffered", "server consumed %d octets of an endless line (limit %d) and is still waiting for more", w.S.Consumed()-base, c.L)
		}
		return Verdict{Inconclusive: "watchdog on endless line"}
	}
	consumed := w.S.Consumed() - base
	_, fin := w.Finish()
	if !fin {
		return finishFail(w)
	}
	v := Verdict{NonTrivial: true, Classes: []string{"endless_" + c.Position}}
	if c.Debug {
		v.Classes = append(v.Classes, "debug_writer_attached")
	}
	if p := r.Log.Panicked(); p != "" {
		return failf("panic", "server logged a panic: %s", p)
	}
	bound := int64(c.L + 2*4096 + 64)
	if consumed > bound {
		return failf("unbounded-buffering", "server consumed %d octets of an endless line before giving up (limit %d, bound %d)", consumed, c.L, bound)
	}
	rs, _ := harness.ParseReplies(w.Out)
	if len(rs) == 0 || rs[len(rs)-1].Code != 500 {
		return failf("long-line-not-refused", "endless line: last reply is not 500: %v", codes(rs))
	}
	for _, e := range r.B.Events() {
		if e.CB == "Mail" || (e.CB == "Rcpt" && e.To != "r@x") {
			if e.From != "s@x" && e.CB == "Mail" {
				return failf("long-line-executed", "endless line reached the backend: %s", e)
			}
		}
	}
	return v
}

// ---- (c) all short strings over a hostile byte alphabet ----

type c19WordCase struct {
	Word    Octets `json:"word"`
	Greeted bool   `json:"greeted"`
}

// (0xFF and 0xE9 are not UTF-8: case folding and other string functions
// replace them by a three-octet U+FFFD, which changes lengths)
var c19Alpha = []byte{0, '\r', '\n', ' ', 'A', 'a', ':', '<', 0xff, 0xe9}

func c19WordRun(c c19WordCase) Verdict {
	r := harness.NewRig(harness.Config{}, harness.Script{})
	w, _ := r.Dial()
	if st := w.WaitQuiet(); st != harness.QIdle {
		w.Finish()
		return Verdict{Inconclusive: "server not idle after connect: " + st}
	}
	in := []byte{}
	if c.Greeted {
		in = append(in, "EHLO cli\r\n"...)
	}
	in = append(in, c.Word...)
	w.Send(in)
	_, fin := w.Finish()
	if !fin {
		if w.Deadlock != "" {
			return failf("deadlock", "input %s deadlocks the server:\n%s", q(c.Word), trimTo(w.Deadlock, 2500))
		}
		return Verdict{Inconclusive: "watchdog while finishing (server hung on " + q(c.Word) + ")"}
	}
	hostile := bytes.ContainsAny(c.Word, "\x00\r")
	v := Verdict{NonTrivial: hostile || bytes.Count(c.Word, []byte("\n")) >= 3}
	if hostile {
		v.Classes = append(v.Classes, "has_nul_or_cr")
	}
	if p := r.Log.Panicked(); p != "" {
		return failf("panic", "input %s: server logged a panic: %s", q(c.Word), p)
	}
	// every line over this alphabet is unrecognised or malformed
	// (an unterminated tail is not a line: the connection ended first, D33)
	nlines := bytes.Count(c.Word, []byte("\n"))
	out := w.Out
	lines := bytes.Split(bytes.TrimSuffix(out, []byte("\r\n")), []byte("\r\n"))
	skip := 1
	if c.Greeted {
		// banner + multi-line EHLO reply
		for skip < len(lines) && !(bytes.HasPrefix(lines[skip], []byte("250 "))) {
			skip++
		}
		skip++
	}
	if skip > len(lines) {
		return failf("replies", "greeting not answered: %s", q(out))
	}
	rest := lines[skip:]
	want := nlines
	closed := false
	if nlines > 3 {
		want = 5 // four error replies and the closing notice
		closed = true
	}
	if len(rest) != want {
		return failf("error-threshold", "input %s (%d bad lines): expected %d reply lines after the greeting, got %d: %s", q(c.Word), nlines, want, len(rest), q(out))
	}
	for _, l := range rest {
		if len(l) < 4 || l[0] != '5' {
			return failf("error-threshold", "input %s: reply %q is not 5xx", q(c.Word), l)
		}
	}
	if closed {
		// (five 5xx lines: the four refusals and the closing notice, whatever
		// its wording; nothing of a fifth bad line is answered)
		v.Classes = append(v.Classes, "crossed_error_threshold")
	}
	return v
}

// ---- (d) mixes of valid and invalid commands around the threshold ----

type c19MixCase struct {
	Lines    []string `json:"lines"`
	Pipeline bool     `json:"pipeline"`
	// OpenTransfer: the lines come while a chunked transfer is open (EHLO,
	// MAIL, RCPT and a non-LAST chunk went before): errors count as anywhere
	OpenTransfer bool `json:"open_transfer,omitempty"`
}

const c19OpenTransfer = "EHLO a\r\nMAIL FROM:<a@b>\r\nRCPT TO:<c@d>\r\nBDAT 2\r\nhi"

var (
	c19Valid   = []string{"NOOP", "RSET", "VRFY x", "EHLO a", "noop", "HELP", "EXPN x"}
	c19Refused = []string{"DATA", "RCPT TO:<a@b>", "BDAT 0 LAST", "MAIL FROM:<a@b> FOO=bar", "MAIL FROM:a b", "AUTH", "EHLO"}
	c19Errors  = []string{"XXXX", "", "AB", "FOO bar", "NOOPX", "Q", "MAILFROM:<a@b>", "\x01\x02\x03\x04"}
)

func c19MixRun(c c19MixCase) Verdict {
	cfg := harness.Config{}
	upgrades := contains(c.Lines, "STARTTLS")
	if upgrades {
		// the upgrade is part of the connection: what was counted before it
		// still counts after it (lock-step only, a handshake has to follow)
		cfg.TLS = "starttls"
		c.Pipeline = false
	}
	r := harness.NewRig(cfg, harness.Script{})
	w, _ := r.Dial()
	if st := w.WaitQuiet(); st != harness.QIdle {
		w.Finish()
		return Verdict{Inconclusive: "server not idle after connect: " + st}
	}
	w.Recv()
	var outs [][]byte
	open := c.OpenTransfer && !upgrades
	if open && !c.Pipeline {
		if o, st := w.Exchange([]byte(c19OpenTransfer)); st != harness.QIdle {
			w.Finish()
			return Verdict{Inconclusive: fmt.Sprintf("opening the transfer: %s %s", st, q(o))}
		}
	}
	if c.Pipeline {
		var sb strings.Builder
		if open {
			sb.WriteString(c19OpenTransfer)
		}
		for _, l := range c.Lines {
			sb.WriteString(l + "\r\n")
		}
		w.Send([]byte(sb.String()))
	} else {
		for _, l := range c.Lines {
			o, st := w.Exchange([]byte(l + "\r\n"))
			outs = append(outs, o)
			if st == harness.QClosed {
				break
			}
			if l == "STARTTLS" && bytes.HasPrefix(o, []byte("220 ")) {
				if err := w.StartTLS(); err != nil {
					w.Finish()
					return Verdict{Inconclusive: "handshake: " + err.Error()}
				}
				w.WaitQuiet()
			}
			if st != harness.QIdle {
				w.Finish()
				return Verdict{Inconclusive: "lock-step: " + st}
			}
		}
	}
	_, fin := w.Finish()
	if !fin {
		return finishFail(w)
	}
	if p := r.Log.Panicked(); p != "" {
		return failf("panic", "server logged a panic: %s", p)
	}
	// model: errors accumulate, never reset; the 4th closes
	nerr := 0
	wantReplies := 0
	if open {
		wantReplies = 4
	}
	closedAt := -1
	for i, l := range c.Lines {
		wantReplies++
		if contains(c19Errors, l) {
			nerr++
			if nerr > 3 {
				wantReplies++
				closedAt = i
				break
			}
		}
	}
	v := Verdict{NonTrivial: nerr >= 3, Classes: []string{fmt.Sprintf("errors_%d", min(nerr, 4))}}
	if upgrades {
		v.Classes = append(v.Classes, "errors_around_starttls")
	}
	if open {
		v.Classes = append(v.Classes, "errors_during_open_chunked_transfer")
	}
	// count reply *lines* leniently (the EHLO reply is multi-line; control
	// octets may be echoed): a reply ends at a line whose 4th octet is SP
	out := w.Out
	nrep := 0
	for _, l := range bytes.Split(bytes.TrimSuffix(out, []byte("\r\n")), []byte("\r\n")) {
		if len(l) >= 4 && l[3] == ' ' && l[0] >= '2' && l[0] <= '5' {
			nrep++
		}
	}
	nrep-- // banner
	if nrep != wantReplies {
		return failf("error-threshold", "lines %q: expected %d replies (errors %d, closed at %d), got %d: %s", c.Lines, wantReplies, nerr, closedAt, nrep, q(out))
	}
	// (the reply count says it all: with the threshold crossed there is one
	// more reply - the closing notice, whatever its wording - and then
	// nothing; below the threshold every line has exactly its own reply)
	if closedAt >= 0 {
		ls := bytes.Split(bytes.TrimSuffix(out, []byte("\r\n")), []byte("\r\n"))
		if last := ls[len(ls)-1]; len(last) < 4 || last[0] != '5' {
			return failf("error-threshold", "lines %q: the 4th error was not followed by a negative closing notice: %s", c.Lines, q(out))
		}
	}
	return v
}

// ---- (e) random binary blobs ----

type c19BlobCase struct {
	Blob Octets `json:"blob"`
	Cuts []int  `json:"cuts,omitempty"`
	LMTP bool   `json:"lmtp,omitempty"`
	L    int    `json:"l"`
	Auth bool   `json:"auth,omitempty"` // AUTH is available (auth-capable backend, insecure authentication allowed)
}

func c19BlobRun(c c19BlobCase) Verdict {
	r := harness.NewRig(harness.Config{LMTP: c.LMTP, MaxLineLength: c.L, MaxMessageBytes: 200, MaxRecipients: 2, AllowInsecureAuth: c.Auth},
		harness.Script{LMTPSession: c.LMTP, AuthSession: c.Auth, Mechs: []string{"PLAIN"}})
	w, _ := r.Dial()
	if st := w.WaitQuiet(); st != harness.QIdle {
		w.Finish()
		return Verdict{Inconclusive: "server not idle after connect: " + st}
	}
	w.SendCuts(c.Blob, c.Cuts)
	_, fin := w.Finish()
	if !fin {
		if w.Deadlock != "" {
			return failf("deadlock", "input %s deadlocks the server:\n%s", q(c.Blob), trimTo(w.Deadlock, 2500))
		}
		return Verdict{Inconclusive: "watchdog while finishing"}
	}
	v := Verdict{NonTrivial: bytes.ContainsAny(c.Blob, "\x00\r"), Classes: nil}
	if p := r.Log.Panicked(); p != "" {
		return failf("panic", "input %s: server logged a panic: %s", q(c.Blob), p)
	}
	if len(r.Leftover) > 0 {
		return failf("goroutine-left", "goroutine left after input %s:\n%s", q(c.Blob), r.Leftover[0])
	}
	// no LF-terminated line of >= L+2 octets may reach the backend as MAIL/RCPT
	return v
}

var c19Fragments = []string{
	"EHLO a\r\n", "LHLO a\r\n", "HELO a\r\n", "MAIL FROM:<a@b>\r\n", "RCPT TO:<c@d>\r\n", "DATA\r\n", ".\r\n", "BDAT 5\r\n", "BDAT 3 LAST\r\n",
	"BDAT 0 LAST\r\n", "RSET\r\n", "QUIT\r\n", "AUTH PLAIN\r\n", "AUTH PLAIN =\r\n", "*\r\n", "STARTTLS\r\n", "NOOP\r\n", "BDAT 99999999999\r\n",
	"MAIL FROM:<a@b> SIZE=999999999999999999999\r\n", "MAIL FROM:<> BODY=BINARYMIME\r\n", "RCPT TO:<\"a b\"@c> NOTIFY=NEVER ORCPT=rfc822;a+2Bb\r\n",
	"\r\n", "\n", "\r", "\x00", " ", "BDAT", "MAIL", "mail from:", "<", ">", ":", "=", "+", "XXXX\r\n",
}

func c19GenBlob(t *rapid.T) c19BlobCase {
	var b []byte
	for i, n := 0, rapid.IntRange(1, 25).Draw(t, "parts"); i < n; i++ {
		switch rapid.IntRange(0, 3).Draw(t, "kind") {
		case 0, 1:
			b = append(b, rapid.SampledFrom(c19Fragments).Draw(t, "frag")...)
		case 2:
			b = append(b, rapid.SliceOfN(rapid.Byte(), 1, 10).Draw(t, "raw")...)
		default:
			b = append(b, rapid.SampledFrom(c19Alpha).Draw(t, "a"))
		}
	}
	return c19BlobCase{Blob: b, Cuts: genCuts(t, len(b), interestingPositions(b, "\r\n"), "cuts"), LMTP: rapid.Bool().Draw(t, "lmtp"), L: rapid.SampledFrom([]int{0, 32, 64}).Draw(t, "l"), Auth: rapid.Bool().Draw(t, "auth")}
}

var (
	c19Line    *subCheck[c19LineCase]
	c19Endless *subCheck[c19EndlessCase]
	c19Word    *subCheck[c19WordCase]
	c19Mix     *subCheck[c19MixCase]
	c19Blob    *subCheck[c19BlobCase]
)

func init() {
	registrars = append(registrars, func() {
		c19Line = newSub("C19", "linelen", c19LineRun)
		c19Endless = newSub("C19", "endless", c19EndlessRun)
		c19Word = newSub("C19", "words", c19WordRun)
		c19Mix = newSub("C19", "mix", c19MixRun)
		c19Blob = newSub("C19", "blob", c19BlobRun)
	})
}

func TestC19(t *testing.T) {
	registerAll()
	st.Rule = "cases = probe lines of total length L-3..L+4, 2L, 3L at five conversation positions, lock-step and pipelined, whole or in two segments; endless (1 MiB, no LF) lines with octets consumed measured on the in-memory network, with and without a Debug writer attached to the server; all strings up to the length bound over {NUL,CR,LF,SP,'A','a',':','<',0xFF,0xE9} and the next two lengths over {0xFF,SP,'A',LF} as raw input; mixes of valid, state-refused and malformed commands around the error threshold, optionally with a STARTTLS upgrade in between; every verb with an argument that is blank in one sense or another (Unicode, C and ASCII white space, NUL) in four conversation states; random blobs of command fragments and raw octets; non-trivial = probe within 3 of L OR input with NUL/CR OR >= 3 errors OR endless line; distinct = hash of the whole case"
	if !regress(t, "C19") {
		return
	}
	// endless lines: small finite set
	idx := 0
	for _, l := range []int{64, 2000} {
		for _, pos := range []string{"first", "greeted", "between-chunks", "after-last", "after-failed-chunk", "auth-response", "data-body"} {
			for _, seg := range []int{4096, 65536} {
				idx++
				if !mine(idx) {
					continue
				}
				if !c19Endless.one(t, c19EndlessCase{L: l, Position: pos, Seg: seg, Octet: 'a'}) {
					return
				}
				if !c19Endless.one(t, c19EndlessCase{L: l, Position: pos, Seg: seg, Octet: 'a', Debug: true}) {
					return
				}
			}
		}
	}
	c19Line.rapidCheck(t, pickTier(3000, 20000), c19GenLine)
	if t.Failed() {
		return
	}
	// exhaustive short words
	maxLen := pickTier(4, 5)
	complete := true
	for l := 0; l <= maxLen && complete; l++ {
		total := 1
		for i := 0; i < l; i++ {
			total *= len(c19Alpha)
		}
		for n := 0; n < total && complete; n++ {
			idx++
			if !mine(idx) {
				continue
			}
			word := make([]byte, l)
			x := n
			for i := 0; i < l; i++ {
				word[i] = c19Alpha[x%len(c19Alpha)]
				x /= len(c19Alpha)
			}
			if !c19Word.one(t, c19WordCase{Word: word, Greeted: idx%2 == 0}) {
				complete = false
			}
		}
	}
	// and the longer words over the four octets that matter for lengths: a
	// line whose case-folded form is longer than the line itself
	hi := []byte{0xff, ' ', 'A', '\n'}
	for l := maxLen + 1; l <= maxLen+2 && complete; l++ {
		total := 1
		for i := 0; i < l; i++ {
			total *= len(hi)
		}
		for n := 0; n < total && complete; n++ {
			idx++
			if !mine(idx) {
				continue
			}
			word := make([]byte, l)
			x := n
			for i := 0; i < l; i++ {
				word[i] = hi[x%len(hi)]
				x /= len(hi)
			}
			if !c19Word.one(t, c19WordCase{Word: word, Greeted: idx%2 == 0}) {
				complete = false
			}
		}
	}
	st.Exhaustive["words"] = complete
	if !complete {
		return
	}
	c19Mix.rapidCheck(t, pickTier(1500, 10000), func(rt *rapid.T) c19MixCase {
		var lines []string
		for i, n := 0, rapid.IntRange(1, 10).Draw(rt, "n"); i < n; i++ {
			switch rapid.IntRange(0, 3).Draw(rt, "k") {
			case 0:
				lines = append(lines, rapid.SampledFrom(c19Valid).Draw(rt, "valid"))
			case 1:
				lines = append(lines, rapid.SampledFrom(c19Refused).Draw(rt, "refused"))
			default:
				lines = append(lines, rapid.SampledFrom(c19Errors).Draw(rt, "error"))
			}
		}
		if rapid.IntRange(0, 3).Draw(rt, "starttls") == 0 {
			at := rapid.IntRange(0, len(lines)).Draw(rt, "starttls_at")
			lines = append(lines[:at], append([]string{"STARTTLS"}, lines[at:]...)...)
		}
		return c19MixCase{Lines: lines, Pipeline: rapid.Bool().Draw(rt, "pipeline"), OpenTransfer: rapid.IntRange(0, 2).Draw(rt, "open_transfer") == 0}
	})
	if t.Failed() {
		return
	}
	// every verb with an argument that is blank in some sense: white space as
	// Unicode, the C library or a field splitter sees it, in four conversation states
	blanks := []string{"", " ", "\t", "\x0b", "\x0c", "\r", "\x1c", "\x1f", "\x85", "\xa0", "\xc2\x85", "\xc2\xa0", "\xe2\x80\x83", "\xe3\x80\x80", " \x0b ", "\x0b LAST", "1 \x0b", "\x00"}
	verbs := []string{"BDAT", "AUTH", "MAIL", "RCPT", "MAIL FROM:", "RCPT TO:", "VRFY", "EHLO", "HELO", "LHLO", "DATA", "STARTTLS", "NOOP", "RSET", "QUIT", "HELP", "EXPN"}
	preludes := []string{"", "EHLO a\r\n", "EHLO a\r\nMAIL FROM:<a@b>\r\nRCPT TO:<c@d>\r\n", "EHLO a\r\nMAIL FROM:<a@b>\r\nRCPT TO:<c@d>\r\nBDAT 2\r\nhi"}
	for _, pre := range preludes {
		for _, vb := range verbs {
			for _, bl := range blanks {
				idx++
				if !mine(idx) {
					continue
				}
				blob := pre + vb + " " + bl + "\r\nNOOP\r\nQUIT\r\n"
				if !c19Blob.one(t, c19BlobCase{Blob: Octets(blob), L: 0, Auth: true}) {
					return
				}
			}
		}
	}
	c19Blob.rapidCheck(t, pickTier(3000, 30000), c19GenBlob)
}

func FuzzC19(f *testing.F) {
	registerAll()
	for _, s := range c19Fragments {
		f.Add([]byte(s), uint8(0))
	}
	f.Add([]byte("EHLO a\r\nMAIL FROM:<a@b>\r\nRCPT TO:<c@d>\r\nBDAT 1\r\nx"+strings.Repeat("N", 300)+"\r\n"), uint8(1))
	f.Add([]byte("EHLO a\r\nMAIL FROM:<a@b>\r\nRCPT TO:<c@d>\r\nDATA\r\nhi\r\n.\r\nQUIT\r\nEHLO b\r\n"), uint8(2))
	f.Add([]byte("LHLO a\r\nMAIL FROM:<a@b>\r\nRCPT TO:<c@d>\r\nRCPT TO:<c@d>\r\nBDAT 2 LAST\r\nhiXXXX\r\n\r\n\r\n\r\nMAIL FROM:<z@z>\r\n"), uint8(3))
	f.Fuzz(func(t *testing.T, input []byte, cfg uint8) {
		if len(input) > 20000 {
			return
		}
		c := c19BlobCase{Blob: input, LMTP: cfg&1 != 0, L: []int{0, 32, 64, 2000}[int(cfg>>1)%4]}
		if cfg&8 != 0 {
			for k := 1; k < len(input) && k < 600; k++ {
				c.Cuts = append(c.Cuts, k)
			}
		}
		if v := c19BlobRun(c); v.Fail != "" {
			t.Fatalf("C19: %s", v.Fail)
		}
	})
}
