package props

import (
	"bufio"
	"encoding/binary"
	"encoding/json"
	"flag"
	"fmt"
	"hash/fnv"
	"os"
	"path/filepath"
	"sort"
	"strconv"
	"strings"
	"sync"
	"syscall"
	"testing"
	"time"
	"unicode/utf8"

	"pgregory.net/rapid"

	"verif/harness"
)

var certDir string

var inconclusiveCount, watchdogCount int

// Octets is a byte string that serialises to JSON as a string in which every
// octet is the code point of the same value (Latin-1), so that replay files and
// evidence samples stay readable and round-trip exactly.
type Octets []byte

func (o Octets) MarshalJSON() ([]byte, error) {
	rs := make([]rune, len(o))
	for i, b := range o {
		rs[i] = rune(b)
	}
	return json.Marshal(string(rs))
}

func (o *Octets) UnmarshalJSON(b []byte) error {
	var s string
	if err := json.Unmarshal(b, &s); err != nil {
		return err
	}
	out := make([]byte, 0, len(s))
	for _, r := range s {
		if r > 255 {
			return fmt.Errorf("octet string contains rune %U", r)
		}
		out = append(out, byte(r))
	}
	*o = out
	return nil
}

func (o Octets) String() string { return strconv.Quote(string(o)) }

// Verdict is the outcome of running one case against the oracle.
type Verdict struct {
	Fail         string   // non-empty: the property is violated; human-readable reason
	Tag          string   // short machine-readable class of the failure (used by known-finding matchers)
	Inconclusive string   // non-empty: harness trouble (watchdog); never a violation
	NonTrivial   bool     // case is non-trivial by the property's stated rule
	Classes      []string // labels for the distribution counters
}

func failf(tag, format string, a ...interface{}) Verdict {
	return Verdict{Fail: fmt.Sprintf(format, a...), Tag: tag}
}

// ---- environment ----

var (
	tier     = envOr("VERIF_TIER", "quick")
	root     = envOr("VERIF_ROOT", "/verif")
	shard    = envInt("VERIF_SHARD", 0)
	nshards  = envInt("VERIF_NSHARDS", 1)
	seedBase = envInt("VERIF_SEED", 1)
)

func envOr(k, d string) string {
	if v := os.Getenv(k); v != "" {
		return v
	}
	return d
}

func envInt(k string, d int) int {
	if v := os.Getenv(k); v != "" {
		if n, err := strconv.Atoi(v); err == nil {
			return n
		}
	}
	return d
}

func thorough() bool { return tier == "thorough" }

// pickTier returns q in the quick tier and t in the thorough tier.
func pickTier(q, t int) int {
	if thorough() {
		return t
	}
	return q
}

// ---- statistics ----

type stats struct {
	mu          sync.Mutex
	Property    string            `json:"property"`
	Evaluations int               `json:"evaluations"`
	Classes     map[string]int    `json:"classes"`
	Samples     []json.RawMessage `json:"samples"`
	KnownHits   map[string]int    `json:"known_hits"`
	Excluded    map[string]int    `json:"excluded"`
	Exhaustive  map[string]bool   `json:"exhaustive"`
	Subs        map[string]int    `json:"subs"`
	Inconcl     []string          `json:"inconclusive"`
	Violations  int               `json:"violations"`
	Rule        string            `json:"rule"`
	Notes       []string          `json:"notes"`
	FuzzExecs   int64             `json:"fuzz_execs"`
	hashes      map[uint64]struct{}
	sampleBySub map[string]int
	anyCase     json.RawMessage // used as a sample when nothing else qualified
}

var st = &stats{
	Classes: map[string]int{}, KnownHits: map[string]int{}, Excluded: map[string]int{},
	Exhaustive: map[string]bool{}, Subs: map[string]int{}, hashes: map[uint64]struct{}{},
	sampleBySub: map[string]int{},
}

func hashJSON(sub string, b []byte) uint64 {
	h := fnv.New64a()
	h.Write([]byte(sub))
	h.Write([]byte{0})
	h.Write(b)
	return h.Sum64()
}

func (s *stats) note(format string, a ...interface{}) {
	s.mu.Lock()
	s.Notes = append(s.Notes, fmt.Sprintf(format, a...))
	s.mu.Unlock()
}

func (s *stats) excluded(what string) {
	s.mu.Lock()
	s.Excluded[what]++
	s.mu.Unlock()
}

const samplesPerSub = 3

func (s *stats) count(pid, sub string, caseJSON []byte, v Verdict) {
	s.mu.Lock()
	defer s.mu.Unlock()
	s.Property = pid
	s.Evaluations++
	s.Subs[sub]++
	for _, c := range v.Classes {
		s.Classes[c]++
	}
	if s.anyCase == nil && len(caseJSON) < 6000 {
		s.anyCase, _ = json.Marshal(map[string]json.RawMessage{"sub": mustJSON(sub), "case": caseJSON})
	}
	if v.Fail != "" && s.sampleBySub[sub+"/violating"] < samplesPerSub && len(caseJSON) < 6000 {
		s.sampleBySub[sub+"/violating"]++
		smp, _ := json.Marshal(map[string]json.RawMessage{"sub": mustJSON(sub), "violating": mustJSON(true), "case": caseJSON})
		s.Samples = append(s.Samples, smp)
	}
	if v.NonTrivial {
		s.Classes["nontrivial"]++
		h := hashJSON(sub, caseJSON)
		if _, ok := s.hashes[h]; !ok {
			s.hashes[h] = struct{}{}
			if s.sampleBySub[sub] < samplesPerSub && len(caseJSON) < 6000 {
				s.sampleBySub[sub]++
				smp, _ := json.Marshal(map[string]json.RawMessage{"sub": mustJSON(sub), "case": caseJSON})
				s.Samples = append(s.Samples, smp)
			}
		}
	}
}

func mustJSON(v interface{}) json.RawMessage {
	b, err := json.Marshal(v)
	if err != nil {
		panic(err)
	}
	return b
}

func (s *stats) flush() {
	path := os.Getenv("VERIF_STATS")
	if path == "" || s.Property == "" {
		return
	}
	s.mu.Lock()
	defer s.mu.Unlock()
	if len(s.Samples) == 0 && s.anyCase != nil {
		s.Samples = append(s.Samples, s.anyCase)
	}
	b, _ := json.Marshal(s)
	os.WriteFile(path, b, 0o644)
	hb := make([]byte, 0, 8*len(s.hashes))
	keys := make([]uint64, 0, len(s.hashes))
	for h := range s.hashes {
		keys = append(keys, h)
	}
	sort.Slice(keys, func(i, j int) bool { return keys[i] < keys[j] })
	for _, h := range keys {
		hb = binary.LittleEndian.AppendUint64(hb, h)
	}
	os.WriteFile(path+".hashes", hb, 0o644)
}

func TestMain(m *testing.M) {
	flag.Parse()
	// package-level SendMail / DialStartTLS use the system roots: make them
	// trust the throw-away certificate (must happen before first use)
	if dir, err := os.MkdirTemp("", "verif-ca-"); err == nil {
		harness.ExportCertFile(dir)
		defer os.RemoveAll(dir)
		certDir = dir
	}
	code := m.Run()
	if certDir != "" {
		os.RemoveAll(certDir)
	}
	st.flush()
	os.Exit(code)
}

// ---- known findings ----

type knownFinding struct {
	Property string
	ID       string
	Match    string
	Witness  string
	What     string
}

var (
	kfOnce  sync.Once
	kfOpen  []knownFinding
	kfShown = map[string]bool{}
	kfMu    sync.Mutex
)

func loadKnown() {
	kfOnce.Do(func() {
		f, err := os.Open(filepath.Join(root, "KNOWN_FINDINGS.txt"))
		if err != nil {
			return
		}
		defer f.Close()
		sc := bufio.NewScanner(f)
		for sc.Scan() {
			line := strings.TrimSpace(sc.Text())
			if !strings.HasPrefix(line, "open:") {
				continue
			}
			kf := knownFinding{}
			fields := strings.Fields(strings.TrimPrefix(line, "open:"))
			var rest []string
			for _, fl := range fields {
				switch {
				case strings.HasPrefix(fl, "property=") && kf.Property == "":
					kf.Property = strings.TrimPrefix(fl, "property=")
				case strings.HasPrefix(fl, "id=") && kf.ID == "":
					kf.ID = strings.TrimPrefix(fl, "id=")
				case strings.HasPrefix(fl, "match=") && kf.Match == "":
					kf.Match = strings.TrimPrefix(fl, "match=")
				case strings.HasPrefix(fl, "witness=") && kf.Witness == "":
					kf.Witness = strings.TrimPrefix(fl, "witness=")
				default:
					rest = append(rest, fl)
				}
			}
			kf.What = strings.Join(rest, " ")
			kfOpen = append(kfOpen, kf)
		}
	})
}

// matchers are coded next to the oracles and registered by name; a matcher is
// consulted only when KNOWN_FINDINGS.txt lists an open finding that names it.
var matchers = map[string]func(caseJSON []byte, v Verdict) bool{}

// knownFor returns the open finding (if any) that the failing case matches.
func knownFor(pid string, caseJSON []byte, v Verdict) *knownFinding {
	loadKnown()
	for i := range kfOpen {
		kf := &kfOpen[i]
		if kf.Property != pid {
			continue
		}
		m := matchers[kf.Match]
		if m != nil && m(caseJSON, v) {
			return kf
		}
	}
	return nil
}

// knownOpen reports whether an open finding with this matcher name is listed
// for the property (generators use it to exclude a known failure by
// construction and count the excluded draws).
func knownOpen(pid, match string) bool {
	loadKnown()
	for _, kf := range kfOpen {
		if kf.Property == pid && kf.Match == match {
			return true
		}
	}
	return false
}

func reportKnown(kf *knownFinding) {
	kfMu.Lock()
	defer kfMu.Unlock()
	st.mu.Lock()
	st.KnownHits[kf.ID]++
	st.mu.Unlock()
	if !kfShown[kf.ID] {
		kfShown[kf.ID] = true
		fmt.Fprintf(os.Stdout, "KNOWN-FINDING: property=%s %s [%s]\n", kf.Property, kf.What, kf.ID)
	}
}

// ---- replay files ----

type replayFile struct {
	Property string          `json:"property"`
	Sub      string          `json:"sub"`
	Failure  string          `json:"failure"`
	Tag      string          `json:"tag,omitempty"`
	Case     json.RawMessage `json:"case"`
}

var replayers = map[string]func(json.RawMessage) Verdict{}

func writeReplay(pid, sub string, caseJSON []byte, v Verdict) string {
	h := hashJSON(sub, caseJSON)
	dir := filepath.Join(root, "replays")
	os.MkdirAll(dir, 0o755)
	path := filepath.Join(dir, fmt.Sprintf("%s-%s-%08x.json", pid, sub, uint32(h)))
	b, _ := json.MarshalIndent(replayFile{Property: pid, Sub: sub, Failure: v.Fail, Tag: v.Tag, Case: caseJSON}, "", " ")
	os.WriteFile(path, b, 0o644)
	return path
}

func violation(pid, path, why string) {
	st.mu.Lock()
	st.Violations++
	st.mu.Unlock()
	fmt.Fprintf(os.Stdout, "VIOLATION property=%s replay=%s\n", pid, path)
	fmt.Fprintf(os.Stdout, "  reason: %s\n", why)
}

// crumb leaves the case that is about to run where the driver finds it if the
// test process dies: a panic on a goroutine of the library that nothing
// recovers kills the process, and with it the verdict. The driver turns such a
// death into a violation and this file into its replay (DESIGN.md 2.7).
//
// The file is a shared memory mapping (a store per case, no system call): the
// kernel keeps the pages when the process dies. Layout: length of the JSON as
// a little-endian uint32, then the JSON of a replay file.
var (
	crumbPath = os.Getenv("VERIF_CRUMB")
	crumbMem  []byte
	crumbOnce sync.Once
)

const crumbSize = 1 << 20

func crumb(pid, sub string, caseJSON []byte) {
	if crumbPath == "" {
		return
	}
	crumbOnce.Do(func() {
		f, err := os.OpenFile(crumbPath, os.O_RDWR|os.O_CREATE|os.O_TRUNC, 0o644)
		if err != nil {
			return
		}
		defer f.Close()
		if f.Truncate(crumbSize) != nil {
			return
		}
		m, err := syscall.Mmap(int(f.Fd()), 0, crumbSize, syscall.PROT_READ|syscall.PROT_WRITE, syscall.MAP_SHARED)
		if err == nil {
			crumbMem = m
		}
	})
	if crumbMem == nil {
		return
	}
	binary.LittleEndian.PutUint32(crumbMem, 0)
	const head = `{"property":"`
	n := 4
	put := func(s string) bool {
		if n+len(s) > len(crumbMem) {
			return false
		}
		n += copy(crumbMem[n:], s)
		return true
	}
	if !put(head) || !put(pid) || !put(`","sub":"`) || !put(sub) || !put(`","failure":"the test process died while this case was running","tag":"crash","case":`) {
		return
	}
	if n+len(caseJSON)+1 > len(crumbMem) {
		return
	}
	n += copy(crumbMem[n:], caseJSON)
	crumbMem[n] = '}'
	n++
	binary.LittleEndian.PutUint32(crumbMem, uint32(n-4))
}

// sub-check registration + generic runner ----------------------------------

// subCheck binds a case type to its oracle.
type subCheck[C any] struct {
	pid, sub string
	run      func(C) Verdict
	lastFail []byte
	lastV    Verdict
}

func newSub[C any](pid, sub string, run0 func(C) Verdict) *subCheck[C] {
	// every case runs under unrelated server settings derived from the case
	// itself (harness.SetAmbient): long timeouts, a Debug writer
	run := func(c C) Verdict {
		if cj, err := json.Marshal(c); err == nil {
			harness.SetAmbient(int(hashJSON("ambient", cj) % 8))
		}
		v := run0(c)
		harness.SetAmbient(0)
		return v
	}
	s := &subCheck[C]{pid: pid, sub: sub, run: run}
	replayers[pid+"/"+sub] = func(raw json.RawMessage) Verdict {
		var c C
		if err := json.Unmarshal(raw, &c); err != nil {
			return Verdict{Inconclusive: "cannot decode replay case: " + err.Error()}
		}
		return run(c)
	}
	return s
}

// eval runs one case, updates the statistics and classifies a failure as known
// finding or violation. It returns the (possibly cleared) verdict: Fail is
// non-empty only for an unlisted violation.
func (s *subCheck[C]) eval(c C) Verdict {
	cj, err := json.Marshal(c)
	if err != nil {
		panic(err)
	}
	crumb(s.pid, s.sub, cj)
	v := s.run(c)
	if v.Inconclusive != "" {
		st.mu.Lock()
		if len(st.Inconcl) < 20 {
			st.Inconcl = append(st.Inconcl, s.sub+": "+v.Inconclusive)
		}
		st.mu.Unlock()
		fmt.Fprintf(os.Stdout, "INCONCLUSIVE property=%s sub=%s %s\n", s.pid, s.sub, v.Inconclusive)
		inconclusiveCount++
		if strings.Contains(v.Inconclusive, "watchdog") {
			watchdogCount++
		}
		if watchdogCount >= 6 || inconclusiveCount >= 300 {
			// watchdogs cost 20 s each: a run that keeps hitting them will not
			// finish; give up (exit 2 in the driver), never a verdict. Cases
			// that end early without having waited (a wall-clock trigger that
			// fired too soon on a busy machine) are cheap: skipped, counted,
			// and only a flood of them ends the run.
			fmt.Fprintf(os.Stdout, "INCONCLUSIVE property=%s giving up after %d inconclusive cases\n", s.pid, inconclusiveCount)
			st.count(s.pid, s.sub, cj, v)
			st.flush()
			os.Exit(3)
		}
	}
	st.count(s.pid, s.sub, cj, v)
	if v.Fail != "" {
		if kf := knownFor(s.pid, cj, v); kf != nil {
			reportKnown(kf)
			v.Fail = ""
			return v
		}
		s.lastFail, s.lastV = cj, v
	}
	return v
}

// rapidCheck drives the sub-check with rapid; on failure the shrunk case is
// written as a replay file and reported.
func (s *subCheck[C]) rapidCheck(t *testing.T, checks int, gen func(*rapid.T) C) {
	t.Helper()
	flagSetChecks(checks)
	defer s.flushRapid()
	rapid.Check(t, func(rt *rapid.T) {
		c := gen(rt)
		v := s.eval(c)
		if v.Fail != "" {
			rt.Fatalf("%s/%s: %s", s.pid, s.sub, v.Fail)
		}
	})
}

func flagSetChecks(n int) { flag.Set("rapid.checks", strconv.Itoa(n)) }

// flushRapid reports the last (i.e. shrunk) failing case recorded by eval
// during a rapid run, if any.
func (s *subCheck[C]) flushRapid() {
	if s.lastFail != nil {
		path := writeReplay(s.pid, s.sub, s.lastFail, s.lastV)
		violation(s.pid, path, s.lastV.Fail)
		s.lastFail = nil
	}
}

// one evaluates a single enumerated case; it returns false after reporting a
// violation (enumerators stop at the first unlisted violation).
func (s *subCheck[C]) one(t *testing.T, c C) bool {
	v := s.eval(c)
	if v.Fail != "" {
		path := writeReplay(s.pid, s.sub, s.lastFail, v)
		violation(s.pid, path, v.Fail)
		s.lastFail = nil
		t.Errorf("%s/%s: %s", s.pid, s.sub, v.Fail)
		return false
	}
	return true
}

// mine reports whether enumerated case number i belongs to this shard.
func mine(i int) bool { return nshards <= 1 || i%nshards == shard }

// regress re-runs the witnesses of fixed findings (replays/fixed/<pid>-*.json)
// as plain regression checks before any generated search.
func regress(t *testing.T, pid string) bool {
	if os.Getenv("VERIF_NO_REGRESS") != "" {
		// sensitivity runs: make the generated search find the defect itself
		return true
	}
	files, _ := filepath.Glob(filepath.Join(root, "replays", "fixed", pid+"-*.json"))
	sort.Strings(files)
	ok := true
	for _, f := range files {
		v, err := replayPath(f)
		if err != nil {
			t.Errorf("regression file %s: %v", f, err)
			ok = false
			continue
		}
		st.mu.Lock()
		st.Classes["regression_replays"]++
		st.mu.Unlock()
		if v.Fail != "" {
			violation(pid, f, "fixed finding is back: "+v.Fail)
			t.Errorf("%s: %s", f, v.Fail)
			ok = false
		}
	}
	return ok
}

func replayPath(path string) (Verdict, error) {
	b, err := os.ReadFile(path)
	if err != nil {
		return Verdict{}, err
	}
	var rf replayFile
	if err := json.Unmarshal(b, &rf); err != nil {
		return Verdict{}, err
	}
	r := replayers[rf.Property+"/"+rf.Sub]
	if r == nil {
		return Verdict{}, fmt.Errorf("no replayer for %s/%s", rf.Property, rf.Sub)
	}
	v := r(rf.Case)
	if v.Fail != "" {
		if kf := knownFor(rf.Property, rf.Case, v); kf != nil {
			reportKnown(kf)
			v.Fail = ""
		}
	}
	return v, nil
}

// TestReplay re-runs one saved case without rapid (VERIF_REPLAY=<file>).
func TestReplay(t *testing.T) {
	path := os.Getenv("VERIF_REPLAY")
	if path == "" {
		t.Skip("VERIF_REPLAY not set")
	}
	registerAll()
	v, err := replayPath(path)
	if err != nil {
		t.Fatalf("replay: %v", err)
	}
	if v.Inconclusive != "" {
		fmt.Fprintf(os.Stdout, "INCONCLUSIVE replay %s\n", v.Inconclusive)
	}
	if v.Fail != "" {
		var rf replayFile
		b, _ := os.ReadFile(path)
		json.Unmarshal(b, &rf)
		violation(rf.Property, path, v.Fail)
		t.Fatalf("%s", v.Fail)
	}
	fmt.Fprintf(os.Stdout, "REPLAY-OK %s\n", path)
}

// registerAll instantiates every sub-check so that replayers are known. Each
// property file appends its constructor here.
var registrars []func()

func registerAll() {
	for _, f := range registrars {
		f()
	}
}

// ---- small helpers shared by property files ----

func validUTF8(b []byte) bool { return utf8.Valid(b) }

func contains(ss []string, s string) bool {
	for _, x := range ss {
		if x == s {
			return true
		}
	}
	return false
}

var startTime = time.Now()
