package props

import (
	"bytes"
	"fmt"
	"testing"

	"pgregory.net/rapid"

	"verif/harness"
	"verif/ref"
)

// C07 - an incomplete message is never presented to the backend as complete.
// The conversation corpus built here is shared with C08.

type convMsg struct {
	Body   Octets `json:"body"`             // DATA: wire octets before the end marker (no true end marker inside); BDAT: the message
	Chunks []int  `json:"chunks,omitempty"` // nil = DATA; else chunk sizes summing to len(Body), LAST on the final one
}

type convSpec struct {
	// Limit: 0 = no MaxMessageBytes; 1 = exactly the length of the longest
	// message of the conversation (every message fits, the longest exactly);
	// 2 = that length + 1
	Limit int       `json:"limit,omitempty"`
	Mode  int       `json:"mode"` // 0 SMTP, 1 LMTP plain, 2 LMTP per-recipient
	NRcpt int       `json:"nrcpt"`
	Msgs  []convMsg `json:"msgs"`
	// LineLimit: Server.MaxLineLength: 0 the library's default, -1 none at
	// all, else the value (every command line of a conversation is short)
	LineLimit int `json:"line_limit,omitempty"`
	// Unrelated: bit 0 a Debug writer, bit 1 a (long) WriteTimeout
	Unrelated int `json:"unrelated,omitempty"`
}

// convBuilt is the client octet stream of a conversation with everything the
// oracles need to know about it.
type convBuilt struct {
	stream     []byte
	exp        []expect  // reply to every command, in order (greeting banner excluded)
	cmdSpans   []cmdSpan // every command line of the stream
	msgStart   []int     // offset where message k's first octet (DATA body / first BDAT line) begins
	completeAt []int     // offset just after message k's end marker / last octet of its LAST chunk
	finalIdx   []int     // index in exp of message k's first final reply
	finalFrom  []int     // offset after the command line whose processing ends with the final reply (DATA / BDAT .. LAST)
	nfinal     int
	want       [][]byte // what the backend must read for message k
	boundaries []int    // offsets between chunks (after a non-LAST chunk's payload) for message k=0
}

func buildConv(s convSpec) convBuilt {
	var b convBuilt
	lmtp := s.Mode != 0
	var cvReal conv
	cv := &spanConv{conv: &cvReal, b: &b}
	cv.cmd(greetWord(lmtp)+" cli", expect{Code: 250, What: "greeting"})
	b.nfinal = 1
	if lmtp {
		b.nfinal = s.NRcpt
	}
	for k, m := range s.Msgs {
		cv.cmd(fmt.Sprintf("MAIL FROM:<s%d@x>", k), expect{Code: 250, What: "MAIL"})
		for i := 0; i < s.NRcpt; i++ {
			cv.cmd(fmt.Sprintf("RCPT TO:<r%d@x>", i), expect{Code: 250, What: "RCPT"})
		}
		var finals []expect
		for i := 0; i < b.nfinal; i++ {
			finals = append(finals, expect{Code: 250, What: "final"})
		}
		if m.Chunks == nil {
			cv.cmd("DATA", expect{Code: 354, What: "DATA"})
			b.msgStart = append(b.msgStart, len(cv.buf))
			b.finalIdx = append(b.finalIdx, len(cv.exp))
			b.finalFrom = append(b.finalFrom, len(cv.buf))
			full := append(append([]byte(nil), m.Body...), ref.Terminator(m.Body)...)
			cv.raw(full, finals...)
			want, _, _ := ref.Unstuff(full)
			b.want = append(b.want, want)
		} else {
			b.msgStart = append(b.msgStart, len(cv.buf))
			off := 0
			for i, n := range m.Chunks {
				if i == len(m.Chunks)-1 {
					b.finalIdx = append(b.finalIdx, len(cv.exp))
					cv.cmd(fmt.Sprintf("BDAT %d LAST", n), finals...)
					b.finalFrom = append(b.finalFrom, len(cv.buf))
				} else {
					cv.cmd(fmt.Sprintf("BDAT %d", n), expect{Code: 250, What: "chunk"})
				}
				cv.raw(m.Body[off : off+n])
				off += n
				if k == 0 && i < len(m.Chunks)-1 {
					b.boundaries = append(b.boundaries, len(cv.buf))
				}
			}
			b.want = append(b.want, append([]byte{}, m.Body...))
		}
		b.completeAt = append(b.completeAt, len(cv.buf))
	}
	cv.cmd("QUIT", expect{Code: 221, What: "QUIT"})
	b.stream, b.exp = cvReal.buf, cvReal.exp
	return b
}

// spanConv records where each command line of a conversation lies in the
// stream and how many replies are due before it.
type spanConv struct {
	*conv
	b *convBuilt
}

func (sc *spanConv) cmd(line string, exp ...expect) {
	start, before := len(sc.conv.buf), len(sc.conv.exp)
	sc.conv.cmd(line, exp...)
	sc.b.cmdSpans = append(sc.b.cmdSpans, cmdSpan{start, len(sc.conv.buf), before})
}

type cmdSpan struct {
	start, end int // [start, end) in the stream, CRLF included
	expBefore  int // replies due for everything in front of this command
}

func genConvMsg(t *rapid.T, label string, maxPieces int) convMsg {
	var body []byte
	n := rapid.IntRange(0, maxPieces).Draw(t, label+"_pieces")
	for i := 0; i < n; i++ {
		switch rapid.IntRange(0, 4).Draw(t, label+"_kind") {
		case 0:
			body = append(body, rapid.SampledFrom(c02Looks).Draw(t, label+"_look")...)
		case 1:
			body = append(body, rapid.StringMatching(`[a-z.]{0,6}\r\n`).Draw(t, label+"_line")...)
		case 2:
			body = append(body, ".."...)
		case 3:
			body = append(body, rapid.SliceOfN(rapid.Byte(), 1, 4).Draw(t, label+"_raw")...)
		default:
			body = append(body, "x"...)
		}
	}
	m := convMsg{}
	if rapid.Bool().Draw(t, label+"_bdat") {
		m.Body = body
		k := rapid.IntRange(1, 3).Draw(t, label+"_k")
		rem := len(body)
		for i := 0; i < k-1; i++ {
			c := rapid.IntRange(0, rem).Draw(t, label+"_chunk")
			m.Chunks = append(m.Chunks, c)
			rem -= c
		}
		m.Chunks = append(m.Chunks, rem)
	} else {
		m.Body = c02Defuse(body)
	}
	return m
}

func genConvSpec(t *rapid.T) convSpec {
	s := convSpec{Mode: rapid.IntRange(0, 2).Draw(t, "mode"), NRcpt: rapid.IntRange(1, 3).Draw(t, "nrcpt"), Limit: rapid.SampledFrom([]int{0, 0, 1, 1, 2}).Draw(t, "limit")}
	for i, n := 0, rapid.IntRange(1, 2).Draw(t, "nmsgs"); i < n; i++ {
		s.Msgs = append(s.Msgs, genConvMsg(t, fmt.Sprintf("m%d", i), 5))
	}
	s.LineLimit = rapid.SampledFrom([]int{0, 0, -1, -1, 1000}).Draw(t, "line_limit")
	s.Unrelated = rapid.IntRange(0, 3).Draw(t, "unrelated")
	return s
}

// ---- cut points ----

type c07Case struct {
	Conv convSpec `json:"conv"`
	Cut  int      `json:"cut"` // number of octets of the client stream that arrive
	// Fault: "eof" (clean half-close), "eof-with-data" (clean half-close that
	// the server's connection reports together with the last octets: one
	// Read returns n > 0 and io.EOF, as crypto/tls does when the close alert
	// arrives with the last record) or "abort" (reset after the server
	// consumed the prefix)
	Fault string `json:"fault"`
	// LogoutErr: the backend's Logout reports an error (a legal return value
	// that changes nothing: there is nobody to tell)
	LogoutErr bool `json:"logout_err,omitempty"`
}

type cutObs struct {
	r        *harness.Rig
	evs      []harness.Event
	replies  []harness.Reply // without the banner
	rawOut   []byte
	perr     error
	incon    string
	deadlock string
}

// runCut plays the first cut octets of the conversation and then loses the
// connection.
func runCut(b convBuilt, s convSpec, cut int, fault string, cfg harness.Config, script harness.Script) cutObs {
	cfg.LMTP = s.Mode != 0
	if s.Limit != 0 {
		longest := 0
		for _, wm := range b.want {
			if len(wm) > longest {
				longest = len(wm)
			}
		}
		if longest > 0 {
			cfg.MaxMessageBytes = int64(longest + s.Limit - 1)
		}
	}
	cfg.EOFWithData = fault == "eof-with-data"
	if cfg.MaxLineLength == 0 {
		cfg.MaxLineLength = s.LineLimit
	}
	cfg.Debug = cfg.Debug || s.Unrelated&1 != 0
	if s.Unrelated&2 != 0 && cfg.WriteTimeoutMs == 0 {
		cfg.WriteTimeoutMs = 60000
	}
	script.LMTPSession = s.Mode == 2
	if script.DefaultData == nil {
		script.DefaultData = &harness.DataPlan{Read: harness.ReadPlan{Limit: -1, Retry: 3}, Honest: true}
	}
	r := harness.NewRig(cfg, script)
	w, _ := r.Dial()
	o := cutObs{r: r}
	if st := w.WaitQuiet(); st != harness.QIdle {
		w.Finish()
		o.incon = "server not idle after connect: " + st
		return o
	}
	if fault == "eof-with-data" {
		w.SendFinal(b.stream[:cut])
	} else {
		w.Send(b.stream[:cut])
	}
	if fault == "abort" {
		if st := w.WaitQuiet(); st == harness.QWatchdog {
			o.incon = "watchdog before abort"
		}
		w.Recv()
		w.Abort()
	}
	rest, fin := w.Finish()
	if !fin {
		o.incon = "watchdog while finishing"
		o.deadlock = w.Deadlock
		return o
	}
	o.rawOut = w.Out
	_ = rest
	rs, err := harness.ParseReplies(w.Out)
	o.perr = err
	if len(rs) > 0 {
		rs = rs[1:] // banner
	}
	o.replies = rs
	o.evs = r.B.Events()
	return o
}

func c07Run(c c07Case) Verdict {
	b := buildConv(c.Conv)
	if c.Cut > len(b.stream) {
		c.Cut = len(b.stream)
	}
	o := runCut(b, c.Conv, c.Cut, c.Fault, harness.Config{}, harness.Script{})
	if o.deadlock != "" {
		return failf("deadlock", "stream cut at %d (%s): the server is deadlocked:\n%s", c.Cut, c.Fault, trimTo(o.deadlock, 2500))
	}
	if o.incon != "" {
		return Verdict{Inconclusive: o.incon}
	}
	v := Verdict{}
	for k := range c.Conv.Msgs {
		if c.Cut > b.msgStart[k] && c.Cut < b.completeAt[k] {
			v.NonTrivial = true
			v.Classes = append(v.Classes, "cut_inside_message")
			if c.Conv.Msgs[k].Chunks == nil && c.Cut > b.completeAt[k]-5 {
				v.Classes = append(v.Classes, "cut_inside_end_marker")
			}
			if ch := c.Conv.Msgs[k].Chunks; ch != nil && c.Cut > b.completeAt[k]-ch[len(ch)-1] {
				v.Classes = append(v.Classes, "cut_inside_last_chunk")
			}
		}
	}
	v.Classes = append(v.Classes, "fault_"+c.Fault)
	if c.Conv.Limit == 1 {
		v.Classes = append(v.Classes, "size_limit_exactly_met")
	}
	if p := o.r.Log.Panicked(); p != "" {
		return failf("panic", "server logged a panic: %s", p)
	}
	des := dataEvents(o.evs)
	begins := dataBegins(o.evs)
	if len(des) != len(begins) {
		return failf("data-unfinished", "a Data call never returned; trace %s", traceString(o.evs))
	}
	if len(des) > len(c.Conv.Msgs) {
		return failf("data-calls", "more Data calls than messages; trace %s", traceString(o.evs))
	}
	for k, e := range des {
		rec := e.Data
		complete := c.Cut >= b.completeAt[k]
		if ch := c.Conv.Msgs[k].Chunks; ch != nil && ch[len(ch)-1] == 0 && c.Cut >= b.completeAt[k]-2 && !complete {
			// "BDAT 0 LAST" arrived without (all of) its CRLF: every octet of
			// the message has been delivered, but the LAST chunk's command
			// has not been received in full - judged like any other cut
			// (it used to be executed: D33)
			v.Classes = append(v.Classes, "unterminated_zero_last")
		}
		if rec.EOF {
			if !complete {
				return failf("eof-incomplete", "message %d: reader reported EOF after %s although the stream was cut at %d, before the message was complete at %d (stream %s)",
					k, q(rec.Bytes), c.Cut, b.completeAt[k], q(b.stream[:c.Cut]))
			}
			if !bytes.Equal(rec.Bytes, b.want[k]) {
				return failf("octets-differ", "message %d: EOF after %s, full message is %s", k, q(rec.Bytes), q(b.want[k]))
			}
		} else {
			if rec.Err == nil {
				return failf("no-terminal-error", "message %d: reader ended without EOF or error", k)
			}
			// a backend that asks again (a buffered reader, a lenient parser
			// that goes on after an error) is told the same thing: never
			// end-of-file, never more octets
			for _, rr := range rec.AfterErr {
				if rr.Err == "EOF" || rr.Err == "" || rr.N != 0 {
					return failf("eof-after-failure", "message %d: the reader failed with %q (stream cut at %d, message complete at %d), but a later Read returned (%d, %q): an incomplete message ends in end-of-file after all", k, rec.ErrStr, c.Cut, b.completeAt[k], rr.N, rr.Err)
				}
			}
			if complete && c.Fault != "abort" {
				return failf("complete-not-delivered", "message %d was complete at %d (cut %d) but the reader failed with %q", k, b.completeAt[k], c.Cut, rec.ErrStr)
			}
		}
	}
	if c.Fault != "abort" {
		if o.perr != nil {
			return failf("reply-syntax", "replies do not parse: %v (%s)", o.perr, q(o.rawOut))
		}
		for k := range c.Conv.Msgs {
			if c.Cut >= b.completeAt[k] || c.Cut < b.finalFrom[k] {
				// complete; or the command line that leads to the final reply
				// did not arrive whole (a truncated line may be answered as a
				// different command, which is not a final reply)
				continue
			}
			for i := 0; i < b.nfinal; i++ {
				if idx := b.finalIdx[k] + i; idx < len(o.replies) && o.replies[idx].Class() == 2 {
					return failf("positive-final-incomplete", "message %d cut at %d (complete at %d) got a positive final reply %s; replies %v",
						k, c.Cut, b.completeAt[k], o.replies[idx], codes(o.replies))
				}
			}
		}
		// complete conversation: exact replies
		if c.Cut == len(b.stream) {
			if m := matchReplies(o.replies, b.exp); m != "" {
				return failf("replies", "complete conversation: %s", m)
			}
		}
	}
	return v
}

// ---- abandoning actions between chunks ----

type c07AbandonCase struct {
	Conv     convSpec `json:"conv"`     // first message must be BDAT with >= 2 chunks, or DATA for the timeout action
	Boundary int      `json:"boundary"` // index of the chunk boundary at which the client abandons
	// Action: RSET QUIT EHLO EOF TIMEOUT DATA-TIMEOUT, or OVERLIMIT: the next
	// chunk is refused with 552 for exceeding MaxMessageBytes (which discards
	// the transaction), then a small LAST chunk that would fit is sent
	Action string `json:"action"`
}

func c07AbandonRun(c c07AbandonCase) Verdict {
	b := buildConv(c.Conv)
	lmtp := c.Conv.Mode != 0
	var at int
	if c.Action == "DATA-TIMEOUT" {
		if c.Conv.Msgs[0].Chunks != nil {
			return Verdict{Inconclusive: "generator: DATA-TIMEOUT needs a DATA message"}
		}
		at = b.msgStart[0] + c.Boundary%(b.completeAt[0]-b.msgStart[0])
	} else {
		if len(b.boundaries) == 0 {
			return Verdict{Inconclusive: "generator: no chunk boundary"}
		}
		at = b.boundaries[c.Boundary%len(b.boundaries)]
	}
	cfg := harness.Config{LMTP: lmtp}
	if c.Action == "TIMEOUT" || c.Action == "DATA-TIMEOUT" {
		cfg.ReadTimeoutMs = 100
	}
	if c.Action == "OVERLIMIT" {
		cfg.MaxMessageBytes = int64(len(c.Conv.Msgs[0].Body)) + 2
	}
	script := harness.Script{LMTPSession: c.Conv.Mode == 2, DefaultData: &harness.DataPlan{Read: harness.ReadPlan{Limit: -1, Retry: 3}, Honest: true}}
	r := harness.NewRig(cfg, script)
	w, _ := r.Dial()
	stream := append([]byte(nil), b.stream[:at]...)
	closes := false
	switch c.Action {
	case "RSET":
		stream = append(stream, "RSET\r\nNOOP\r\n"...)
	case "QUIT":
		stream = append(stream, "QUIT\r\n"...)
		closes = true
	case "EHLO":
		stream = append(stream, (greetWord(lmtp) + " again\r\nNOOP\r\n")...)
	case "EOF":
	case "OVERLIMIT":
		big := int(cfg.MaxMessageBytes) + 1
		stream = append(stream, fmt.Sprintf("BDAT %d\r\n", big)...)
		stream = append(stream, bytes.Repeat([]byte("o"), big)...)
		stream = append(stream, "BDAT 2 LAST\r\nokNOOP\r\n"...)
	case "TIMEOUT", "DATA-TIMEOUT":
		closes = true
	}
	w.Send(stream)
	if c.Action == "TIMEOUT" || c.Action == "DATA-TIMEOUT" {
		// the idle timeout is only a trigger: wait (state-based) for the close
		if !w.WaitClosed() {
			w.Finish()
			return Verdict{Inconclusive: "server did not close after the idle timeout (watchdog)"}
		}
	}
	_ = closes
	_, fin := w.Finish()
	if !fin {
		return finishFail(w)
	}
	v := Verdict{NonTrivial: true, Classes: []string{"abandon_" + c.Action}}
	if p := r.Log.Panicked(); p != "" {
		return failf("panic", "server logged a panic: %s", p)
	}
	evs := r.B.Events()
	des := dataEvents(evs)
	if len(des) != len(dataBegins(evs)) {
		return failf("data-unfinished", "a Data call never returned; trace %s", traceString(evs))
	}
	if len(des) != 1 {
		return failf("data-calls", "expected one Data call for the abandoned transfer, got %d; trace %s", len(des), traceString(evs))
	}
	rec := des[0].Data
	if rec.EOF {
		return failf("eof-abandoned", "transfer abandoned by %s after %d octets, but the reader reported EOF (read %s)", c.Action, at, q(rec.Bytes))
	}
	if rec.Err == nil {
		return failf("no-terminal-error", "reader ended without error")
	}
	rs, err := harness.ParseReplies(w.Out)
	if err != nil {
		return failf("reply-syntax", "replies do not parse: %v", err)
	}
	if len(rs) > 0 {
		rs = rs[1:]
	}
	for i := 0; i < b.nfinal; i++ {
		if idx := b.finalIdx[0] + i; c.Conv.Msgs[0].Chunks == nil && idx < len(rs) && rs[idx].Class() == 2 {
			return failf("positive-final-incomplete", "abandoned DATA got a positive final reply: %v", codes(rs))
		}
	}
	if c.Action == "OVERLIMIT" {
		n := len(rs)
		if n < 3 || rs[n-3].Code != 552 || rs[n-2].Class() != 5 || rs[n-1].Code != 250 {
			return failf("overlimit-then-last", "over-limit chunk, fitting LAST chunk, NOOP answered %v: want 552, a refusal (the transaction is gone), 250", codes(rs))
		}
	}
	if c.Conv.Msgs[0].Chunks != nil {
		// replies: those of the prefix, then the action's own; none may be a
		// positive *final* reply, i.e. the count of 250s for BDAT lines equals
		// the number of non-LAST chunks sent
		sentCmds := bytes.Count(b.stream[:at], []byte("\r\nBDAT")) + 0
		_ = sentCmds
	}
	return v
}

// ---- a chunk announced larger than anything that will ever arrive ----

type c07HugeCase struct {
	Mode  int    `json:"mode"`
	First int    `json:"first"` // octets delivered in an earlier, complete chunk
	Size  string `json:"size"`  // the announced size of the judged chunk, decimal, far beyond Sent
	Last  bool   `json:"last"`
	Sent  int    `json:"sent"`  // octets of the chunk that arrive before the client disconnects
	Fault string `json:"fault"` // eof, eof-with-data, abort
}

// c07HugeRun: the client announces a chunk of an enormous size (around 2^31,
// 2^32, 2^63, 2^64, or longer than any machine integer), sends a few octets
// of it and disconnects. Whatever the server makes of the number, the chunk
// has not arrived in full: no end-of-file for the backend and no positive
// reply.
func c07HugeRun(c c07HugeCase) Verdict {
	lmtp := c.Mode != 0
	cfg := harness.Config{LMTP: lmtp, EOFWithData: c.Fault == "eof-with-data"}
	script := harness.Script{LMTPSession: c.Mode == 2, DefaultData: &harness.DataPlan{Read: harness.ReadPlan{Limit: -1, Retry: 3}, Honest: true}}
	r := harness.NewRig(cfg, script)
	w, _ := r.Dial()
	if e := preamble(w, lmtp, true, 1); e != "" {
		w.Finish()
		return Verdict{Inconclusive: e}
	}
	if c.First > 0 {
		var cv conv
		cv.cmd(fmt.Sprintf("BDAT %d", c.First))
		cv.raw(bytes.Repeat([]byte("f"), c.First))
		out, st := w.Exchange(cv.buf)
		rs, err := harness.ParseReplies(out)
		if st != harness.QIdle || err != nil || len(rs) != 1 || rs[0].Code != 250 {
			w.Finish()
			return Verdict{Inconclusive: fmt.Sprintf("first chunk not accepted: %s %v %v", st, err, codes(rs))}
		}
	}
	line := "BDAT " + c.Size
	if c.Last {
		line += " LAST"
	}
	var cv conv
	cv.cmd(line)
	cv.raw(bytes.Repeat([]byte("Hello\r\n"), c.Sent/7+1)[:c.Sent])
	switch c.Fault {
	case "eof-with-data":
		w.SendFinal(cv.buf)
	case "abort":
		w.Send(cv.buf)
		if st := w.WaitQuiet(); st == harness.QWatchdog {
			w.Finish()
			return Verdict{Inconclusive: "watchdog before abort"}
		}
		w.Recv()
		w.Abort()
	default:
		w.Send(cv.buf)
	}
	rest, fin := w.Finish()
	if !fin {
		return finishFail(w)
	}
	v := Verdict{NonTrivial: true, Classes: []string{"fault_" + c.Fault}}
	if c.First > 0 {
		v.Classes = append(v.Classes, "after_complete_chunk")
	}
	if len(c.Size) >= 19 {
		v.Classes = append(v.Classes, "size_around_or_beyond_2^63")
	}
	if p := r.Log.Panicked(); p != "" {
		return failf("panic", "server logged a panic: %s", p)
	}
	for _, e := range dataEvents(r.B.Events()) {
		if e.Data.EOF {
			return failf("eof-incomplete", "%q, of which %d octets arrived before the client disconnected (%s): the backend's reader reported end-of-file after %s",
				line, c.Sent, c.Fault, q(e.Data.Bytes))
		}
	}
	if c.Fault != "abort" {
		rs, err := harness.ParseRepliesLenient(rest)
		if err != nil {
			return failf("reply-syntax", "replies do not parse: %v (%s)", err, q(rest))
		}
		for _, rp := range rs {
			if rp.Class() == 2 {
				return failf("positive-final-incomplete", "%q, of which %d octets arrived before the client disconnected, was answered %s", line, c.Sent, rp)
			}
		}
	}
	return v
}

var (
	c07Huge    *subCheck[c07HugeCase]
	c07Cuts    *subCheck[c07Case]
	c07Abandon *subCheck[c07AbandonCase]
)

func init() {
	registrars = append(registrars, func() {
		c07Cuts = newSub("C07", "cuts", c07Run)
		c07Abandon = newSub("C07", "abandon", c07AbandonRun)
		c07Huge = newSub("C07", "huge", c07HugeRun)
	})
}

func TestC07(t *testing.T) {
	registerAll()
	st.Rule = "cases = (conversation of 1-2 DATA/BDAT messages in SMTP/LMTP mode, cut offset, fault mode eof|eof reported together with the last octets|abort): every cut offset of every generated conversation is run; plus chunks announced with enormous sizes (around 2^31, 2^32, 2^63, 2^64 and beyond) of which a few octets arrive; plus abandoning actions (RSET, QUIT, new greeting, EOF, idle timeout, an over-limit chunk followed by a fitting LAST chunk) at chunk boundaries; non-trivial = the cut or action falls strictly inside a message (after its first octet, before completion); distinct = hash of (conversation, cut, fault)"
	if !regress(t, "C07") {
		return
	}
	c07Cuts.lastFail = nil
	convs := pickTier(60, 400)
	doneConvs := 0
	flagSetChecks(convs)
	func() {
		defer c07Cuts.flushRapid()
		rapid.Check(t, func(rt *rapid.T) {
			spec := genConvSpec(rt)
			b := buildConv(spec)
			fault := rapid.SampledFrom([]string{"eof", "abort", "eof-with-data"}).Draw(rt, "fault")
			for cut := 0; cut <= len(b.stream); cut++ {
				v := c07Cuts.eval(c07Case{Conv: spec, Cut: cut, Fault: fault})
				if v.Fail != "" {
					rt.Fatalf("C07/cuts: %s", v.Fail)
				}
			}
			doneConvs++
		})
	}()
	st.note("cut offsets are exhaustive per conversation; %d conversations drawn (incl. shrink reruns)", doneConvs)
	if t.Failed() {
		return
	}
	// enormous announced chunk sizes, cut short
	idx := 0
	for _, first := range []int{0, 5} {
		for _, sz := range c06HugeSizes(first) {
			for _, last := range []bool{true, false} {
				for _, sent := range []int{0, 7} {
					for _, fault := range []string{"eof", "eof-with-data", "abort"} {
						idx++
						if !mine(idx) {
							continue
						}
						if !c07Huge.one(t, c07HugeCase{Mode: idx % 3, First: first, Size: sz, Last: last, Sent: sent, Fault: fault}) {
							return
						}
					}
				}
			}
		}
	}
	c07Abandon.rapidCheck(t, pickTier(400, 8000), func(rt *rapid.T) c07AbandonCase {
		action := rapid.SampledFrom([]string{"RSET", "QUIT", "EHLO", "EOF", "EOF", "RSET", "OVERLIMIT", "OVERLIMIT", "RSET", "QUIT", "EHLO", "EOF", "EOF", "RSET", "OVERLIMIT", "OVERLIMIT", "EHLO", "QUIT", "TIMEOUT", "DATA-TIMEOUT"}).Draw(rt, "action")
		spec := convSpec{Mode: rapid.IntRange(0, 2).Draw(rt, "mode"), NRcpt: rapid.IntRange(1, 3).Draw(rt, "nrcpt")}
		m := genConvMsg(rt, "m0", 5)
		if action == "DATA-TIMEOUT" {
			m.Body, m.Chunks = c02Defuse(m.Body), nil
		} else {
			// force >= 2 chunks
			n := len(m.Body)
			k := rapid.IntRange(2, 3).Draw(rt, "k")
			m.Chunks = nil
			rem := n
			for i := 0; i < k-1; i++ {
				cz := rapid.IntRange(0, rem).Draw(rt, "cz")
				m.Chunks = append(m.Chunks, cz)
				rem -= cz
			}
			m.Chunks = append(m.Chunks, rem)
		}
		spec.Msgs = []convMsg{m}
		return c07AbandonCase{Conv: spec, Boundary: rapid.IntRange(0, 200).Draw(rt, "boundary"), Action: action}
	})
}
