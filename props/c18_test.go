package props

import (
	"fmt"
	"io"
	"strings"
	"testing"

	"github.com/emersion/go-smtp"
	"pgregory.net/rapid"

	"verif/harness"
)

// C18 - LMTP client reports each recipient's own status, transaction after
// transaction.

type c18Rcpt struct {
	Accept  bool `json:"accept"`  // accepted at RCPT time
	Deliver bool `json:"deliver"` // positive status after DATA
}

type c18Txn struct {
	Rcpts    []c18Rcpt `json:"rcpts"`
	Callback bool      `json:"callback"` // LMTPData with callback, else Data
	Reset    bool      `json:"reset"`    // Client.Reset after the transaction
}

type c18Case struct {
	Txns []c18Txn `json:"txns"`
}

type c18Status struct {
	rcpt string
	err  *smtp.SMTPError
}

func c18Run(c c18Case) Verdict {
	script := harness.Script{LMTPSession: true}
	for ti, tx := range c.Txns {
		plan := harness.DataPlan{Read: harness.ReadPlan{Limit: -1}}
		for ri, rc := range tx.Rcpts {
			addr := fmt.Sprintf("t%dr%d@x", ti, ri)
			if !rc.Accept {
				script.Rcpt = append(script.Rcpt, harness.Decision{Kind: "smtp", Code: 550, Enh: [3]int{5, 1, 1}, Msg: "no such user " + addr})
				continue
			}
			script.Rcpt = append(script.Rcpt, harness.Decision{})
			d := harness.Decision{}
			if !rc.Deliver {
				d = harness.Decision{Kind: "smtp", Code: 552, Enh: [3]int{5, 2, 2}, Msg: "verdict-for-" + addr}
			}
			plan.Status = append(plan.Status, harness.StatusCall{Rcpt: addr, D: d, AfterRead: true})
		}
		if len(plan.Status) > 0 {
			// a transaction without accepted recipients never reaches DATA
			script.Data = append(script.Data, plan)
		}
	}
	r := harness.NewRig(harness.Config{LMTP: true}, script)
	nc, w := r.DialConn()
	cl := smtp.NewClientLMTP(nc)
	type txnObs struct {
		statuses []c18Status
		closeErr error
		reached  bool
	}
	obs := make([]txnObs, len(c.Txns))
	var setupErr error
	done := make(chan struct{})
	go func() {
		defer func() {
			// the waiter evaluates "done" under the hub lock: change it under
			// the lock too, or the wake-up can slip between its check and its wait
			r.Hub.Lock()
			close(done)
			r.Hub.Unlock()
			r.Hub.Broadcast()
		}()
		for ti, tx := range c.Txns {
			if err := cl.Mail(fmt.Sprintf("s%d@x", ti), nil); err != nil {
				setupErr = fmt.Errorf("txn %d Mail: %w", ti, err)
				return
			}
			any := false
			for ri, rc := range tx.Rcpts {
				err := cl.Rcpt(fmt.Sprintf("t%dr%d@x", ti, ri), nil)
				if rc.Accept && err != nil {
					setupErr = fmt.Errorf("txn %d Rcpt %d: %w", ti, ri, err)
					return
				}
				any = any || rc.Accept
			}
			if !any {
				// nothing to deliver: abandon the transaction
				if err := cl.Reset(); err != nil {
					setupErr = fmt.Errorf("txn %d Reset: %w", ti, err)
					return
				}
				obs[ti].reached = true
				continue
			}
			var wc io.WriteCloser
			var err error
			if tx.Callback {
				t := ti
				wc, err = cl.LMTPData(func(rcpt string, status *smtp.SMTPError) {
					obs[t].statuses = append(obs[t].statuses, c18Status{rcpt, status})
				})
			} else {
				wc, err = cl.Data()
			}
			if err != nil {
				setupErr = fmt.Errorf("txn %d DATA: %w", ti, err)
				return
			}
			fmt.Fprintf(wc, "Subject: t%d\r\n\r\nbody\r\n", ti)
			obs[ti].closeErr = wc.Close()
			obs[ti].reached = true
			if tx.Reset {
				if err := cl.Reset(); err != nil {
					setupErr = fmt.Errorf("txn %d Reset: %w", ti, err)
					return
				}
			}
		}
		if err := cl.Noop(); err != nil {
			setupErr = fmt.Errorf("final Noop: %w", err)
		}
	}()
	finished := false
	stuck := false
	ok := r.Hub.WaitUntil(func() bool {
		select {
		case <-done:
			finished = true
			return true
		default:
		}
		// both ends wait for each other with nothing in flight: nobody will
		// ever write again (only the client's 12-minute timeout would end it)
		if w.S.BlockedInReadLocked() && w.C.BlockedInReadLocked() {
			stuck = true
			return true
		}
		return false
	}, harness.Watchdog)
	if !finished {
		w.Abort()
		<-done
	}
	cl.Close()
	w.C.Close()
	r.B.ReleaseAll()
	w.WaitClosed()
	r.Shutdown()
	v := Verdict{}
	multi := len(c.Txns) >= 2
	refusedAtRcpt, mixed := false, false
	for _, tx := range c.Txns {
		pos, neg := 0, 0
		for _, rc := range tx.Rcpts {
			if !rc.Accept {
				refusedAtRcpt = true
			} else if rc.Deliver {
				pos++
			} else {
				neg++
			}
		}
		if pos > 0 && neg > 0 {
			mixed = true
		}
	}
	v.NonTrivial = multi || refusedAtRcpt || mixed
	if multi {
		v.Classes = append(v.Classes, "several_transactions")
	}
	if refusedAtRcpt {
		v.Classes = append(v.Classes, "recipient_refused_at_rcpt")
	}
	if mixed {
		v.Classes = append(v.Classes, "mixed_verdicts")
	}
	if stuck {
		// which transaction?
		at := 0
		for ti := range obs {
			if !obs[ti].reached {
				at = ti
				break
			}
		}
		return failf("close-hangs", "transaction %d: Close waits for replies that will never come (server idle, client blocked reading); statuses seen so far: %v", at, obs[at].statuses)
	}
	if !ok {
		return Verdict{Inconclusive: "watchdog in client run"}
	}
	if setupErr != nil {
		return failf("client-call", "a client call failed unexpectedly: %v", setupErr)
	}
	for ti, tx := range c.Txns {
		var want []c18Status
		anyNeg := false
		for ri, rc := range tx.Rcpts {
			if !rc.Accept {
				continue
			}
			addr := fmt.Sprintf("t%dr%d@x", ti, ri)
			if rc.Deliver {
				want = append(want, c18Status{addr, nil})
			} else {
				anyNeg = true
				want = append(want, c18Status{addr, &smtp.SMTPError{Code: 552, EnhancedCode: smtp.EnhancedCode{5, 2, 2}, Message: "verdict-for-" + addr}})
			}
		}
		if len(want) == 0 {
			continue
		}
		got := obs[ti].statuses
		if tx.Callback {
			if len(got) != len(want) {
				return failf("callback-count", "transaction %d: callback fired %d times (%s), expected %d (%s)", ti, len(got), fmtStatuses(got), len(want), fmtStatuses(want))
			}
			for i := range want {
				g, wv := got[i], want[i]
				if g.rcpt != wv.rcpt {
					return failf("callback-recipient", "transaction %d: callback %d reports recipient %q, expected %q (all: %s)", ti, i, g.rcpt, wv.rcpt, fmtStatuses(got))
				}
				if (g.err == nil) != (wv.err == nil) {
					return failf("callback-status", "transaction %d: recipient %q reported as %v, expected %v", ti, g.rcpt, g.err, wv.err)
				}
				if g.err != nil && (g.err.Code != wv.err.Code || !strings.Contains(g.err.Message, wv.err.Message)) {
					return failf("callback-status", "transaction %d: recipient %q reported with %v, its own status is %v", ti, g.rcpt, g.err, wv.err)
				}
			}
			if obs[ti].closeErr != nil {
				return failf("close-result", "transaction %d: Close returned %v although all replies were read", ti, obs[ti].closeErr)
			}
		} else {
			if anyNeg && obs[ti].closeErr == nil {
				return failf("refusal-lost", "transaction %d: a recipient was refused after DATA but Close (no callback) returned nil", ti)
			}
			if !anyNeg && obs[ti].closeErr != nil {
				return failf("close-result", "transaction %d: all recipients delivered but Close returned %v", ti, obs[ti].closeErr)
			}
		}
	}
	return v
}

func fmtStatuses(ss []c18Status) string {
	var parts []string
	for _, s := range ss {
		if s.err == nil {
			parts = append(parts, s.rcpt+":ok")
		} else {
			parts = append(parts, fmt.Sprintf("%s:%d %q", s.rcpt, s.err.Code, s.err.Message))
		}
	}
	return "[" + strings.Join(parts, ", ") + "]"
}

var c18Sub *subCheck[c18Case]

func init() {
	registrars = append(registrars, func() { c18Sub = newSub("C18", "rapid", c18Run) })
}

func TestC18(t *testing.T) {
	registerAll()
	st.Rule = "cases = 1-3 consecutive LMTP transactions on one go-smtp client connection against a go-smtp LMTP server, each with 1-3 recipients (some refused at RCPT), a per-recipient verdict vector, LMTPData with callback or Data without, optional Reset in between; oracle = the scripted verdicts; hang detection is state-based (both ends blocked reading with nothing in flight); non-trivial = >= 2 transactions OR a recipient refused at RCPT OR a mixed verdict vector; distinct = hash of the whole case"
	if !regress(t, "C18") {
		return
	}
	c18Sub.rapidCheck(t, pickTier(3000, 25000), func(rt *rapid.T) c18Case {
		c := c18Case{}
		for i, n := 0, rapid.IntRange(1, 3).Draw(rt, "ntxn"); i < n; i++ {
			tx := c18Txn{Callback: rapid.Bool().Draw(rt, "callback"), Reset: rapid.IntRange(0, 3).Draw(rt, "reset") == 0}
			for j, m := 0, rapid.IntRange(1, 3).Draw(rt, "nrcpt"); j < m; j++ {
				tx.Rcpts = append(tx.Rcpts, c18Rcpt{Accept: rapid.IntRange(0, 3).Draw(rt, "accept") != 0, Deliver: rapid.Bool().Draw(rt, "deliver")})
			}
			c.Txns = append(c.Txns, tx)
		}
		return c
	})
}
