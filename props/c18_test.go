package props

import (
	"bufio"
	"fmt"
	"io"
	"net"
	"strings"
	"testing"
	"time"

	"github.com/emersion/go-smtp"
	"pgregory.net/rapid"

	"verif/harness"
)

// C18 - LMTP client reports each recipient's own status, transaction after
// transaction.

type c18Rcpt struct {
	Accept  bool `json:"accept"`  // accepted at RCPT time
	Deliver bool `json:"deliver"` // positive status after DATA
	// Code: reply code of a negative status (0 = 552); any 4xx/5xx is a
	// recipient's own verdict, 421 included
	Code int `json:"code,omitempty"`
	// FailedMailAfter: after this recipient the client calls Mail again and
	// the call fails locally (SMTPUTF8 requested, not offered): nothing is
	// sent, the transaction and its recipients stand
	FailedMailAfter bool `json:"failed_mail_after,omitempty"`
}

func (rc c18Rcpt) code() int {
	if rc.Code >= 400 && rc.Code <= 599 {
		return rc.Code
	}
	return 552
}

type c18Txn struct {
	Rcpts    []c18Rcpt `json:"rcpts"`
	Callback bool      `json:"callback"` // LMTPData with callback, else Data
	// NilCallback (without Callback): the writer comes from LMTPData(nil)
	// instead of Data() - another way of supplying no callback
	NilCallback bool `json:"nil_callback,omitempty"`
	// Dup: the last recipient has the same address as the first
	Dup bool `json:"dup,omitempty"`
	Reset    bool      `json:"reset"`    // Client.Reset after the transaction
	// SlowAt > 0: the delivery to the SlowAt-th accepted recipient (1-based)
	// is slow: its status is held back until the client waits for it, then
	// for SlowMs more. While Close runs the client's CommandTimeout is a
	// fraction of that (the replies after the end of the message are covered
	// by SubmissionTimeout, which stays at its 12 minutes). Wall-clock time is
	// only the trigger: a correct client has no short timer armed.
	SlowAt int `json:"slow_at,omitempty"`
}

const c18SlowMs = 200

type c18Case struct {
	Txns []c18Txn `json:"txns"`
	// Sync: the transport buffers nothing (net.Pipe semantics)
	Sync bool `json:"sync,omitempty"`
	// Frag > 0: the server's replies reach the client in segments of at most
	// Frag octets (a network may deliver a reply octet by octet)
	Frag int `json:"frag,omitempty"`
}

type c18Status struct {
	rcpt string
	err  *smtp.SMTPError
}

// c18Addr is the address of the ri-th recipient of transaction ti: with Dup
// the last recipient repeats the first one's address (RFC 2033: one reply per
// successful RCPT, also for a repeated address; each occurrence has a verdict
// of its own).
func c18Addr(tx c18Txn, ti, ri int) string {
	if tx.Dup && ri > 0 && ri == len(tx.Rcpts)-1 {
		ri = 0
	}
	return fmt.Sprintf("t%dr%d@x", ti, ri)
}

func c18Run(c c18Case) Verdict {
	script := harness.Script{LMTPSession: true}
	for ti, tx := range c.Txns {
		plan := harness.DataPlan{Read: harness.ReadPlan{Limit: -1}}
		for ri, rc := range tx.Rcpts {
			addr := c18Addr(tx, ti, ri)
			if !rc.Accept {
				script.Rcpt = append(script.Rcpt, harness.Decision{Kind: "smtp", Code: 550, Enh: [3]int{5, 1, 1}, Msg: "no such user " + addr})
				continue
			}
			script.Rcpt = append(script.Rcpt, harness.Decision{})
			d := harness.Decision{}
			if !rc.Deliver {
				d = harness.Decision{Kind: "smtp", Code: rc.code(), Enh: [3]int{rc.code() / 100, 2, 2}, Msg: fmt.Sprintf("verdict-%d-for-%s", ri, addr)}
			}
			plan.Status = append(plan.Status, harness.StatusCall{Rcpt: addr, D: d, AfterRead: true, Gate: tx.SlowAt == len(plan.Status)+1})
		}
		if len(plan.Status) > 0 {
			// a transaction without accepted recipients never reaches DATA
			script.Data = append(script.Data, plan)
		}
	}
	r := harness.NewRig(harness.Config{LMTP: true, FragmentReplies: c.Frag, Synchronous: c.Sync}, script)
	nc, w := r.DialConn()
	cl := smtp.NewClientLMTP(nc)
	type txnObs struct {
		statuses []c18Status
		closeErr error
		reached  bool
	}
	obs := make([]txnObs, len(c.Txns))
	var setupErr error
	done := make(chan struct{})
	go func() {
		defer func() {
			// the waiter evaluates "done" under the hub lock: change it under
			// the lock too, or the wake-up can slip between its check and its wait
			r.Hub.Lock()
			close(done)
			r.Hub.Unlock()
			r.Hub.Broadcast()
		}()
		for ti, tx := range c.Txns {
			if err := cl.Mail(fmt.Sprintf("s%d@x", ti), nil); err != nil {
				setupErr = fmt.Errorf("txn %d Mail: %w", ti, err)
				return
			}
			any := false
			for ri, rc := range tx.Rcpts {
				err := cl.Rcpt(c18Addr(tx, ti, ri), nil)
				if rc.Accept && err != nil {
					setupErr = fmt.Errorf("txn %d Rcpt %d: %w", ti, ri, err)
					return
				}
				any = any || rc.Accept
				if rc.FailedMailAfter {
					if err := cl.Mail("again@x", &smtp.MailOptions{UTF8: true}); err == nil {
						setupErr = fmt.Errorf("txn %d: Mail with SMTPUTF8 succeeded although the server does not offer it", ti)
						return
					}
				}
			}
			if !any {
				// nothing to deliver: abandon the transaction
				if err := cl.Reset(); err != nil {
					setupErr = fmt.Errorf("txn %d Reset: %w", ti, err)
					return
				}
				obs[ti].reached = true
				continue
			}
			var wc io.WriteCloser
			var err error
			if tx.Callback {
				t := ti
				wc, err = cl.LMTPData(func(rcpt string, status *smtp.SMTPError) {
					obs[t].statuses = append(obs[t].statuses, c18Status{rcpt, status})
				})
			} else {
				if tx.NilCallback {
					wc, err = cl.LMTPData(nil)
				} else {
					wc, err = cl.Data()
				}
			}
			if err != nil {
				setupErr = fmt.Errorf("txn %d DATA: %w", ti, err)
				return
			}
			fmt.Fprintf(wc, "Subject: t%d\r\n\r\nbody\r\n", ti)
			if tx.SlowAt > 0 {
				cl.CommandTimeout = c18SlowMs * time.Millisecond / 4
			}
			obs[ti].closeErr = wc.Close()
			cl.CommandTimeout = 5 * time.Minute
			obs[ti].reached = true
			if tx.Reset {
				if err := cl.Reset(); err != nil {
					setupErr = fmt.Errorf("txn %d Reset: %w", ti, err)
					return
				}
			}
		}
		if err := cl.Noop(); err != nil {
			setupErr = fmt.Errorf("final Noop: %w", err)
		}
	}()
	finished := false
	stuck := false
	slowed := 0
	var ok bool
	stall := false
	for {
		atGate := false
		bothWrite := false
		ok = r.Hub.WaitUntil(func() bool {
			select {
			case <-done:
				finished = true
				return true
			default:
			}
			// unbuffered transport: each end waits for the other to read?
			if bothWrite = w.S.BlockedInWriteLocked() && w.C.BlockedInWriteLocked(); bothWrite {
				return true
			}
			// both ends wait for each other with nothing in flight: nobody will
			// ever write again (only the client's 12-minute timeout would end it)
			if w.S.BlockedInReadLocked() && w.C.BlockedInReadLocked() {
				stuck = true
				return true
			}
			// a slow delivery is being waited for by the client
			if r.B.AtGateLocked() && w.C.BlockedInReadLocked() {
				atGate = true
				return true
			}
			return false
		}, harness.Watchdog)
		if ok && bothWrite && !finished && !stuck {
			if stall = w.FlowStallNow(); stall {
				break
			}
			time.Sleep(200 * time.Microsecond)
			continue
		}
		if !ok || !atGate || finished || stuck {
			break
		}
		time.Sleep(c18SlowMs * time.Millisecond)
		slowed++
		r.B.ReleaseArrived()
	}
	if !finished {
		w.Abort()
		<-done
	}
	cl.Close()
	w.C.Close()
	r.B.ReleaseAll()
	w.WaitClosed()
	r.Shutdown()
	if stall {
		// (harness.Wire.FlowStallNow: unspecified)
		return Verdict{Classes: []string{"unbuffered_transport_flow_stall_unspecified"}}
	}
	v := Verdict{}
	multi := len(c.Txns) >= 2
	refusedAtRcpt, mixed := false, false
	for _, tx := range c.Txns {
		pos, neg := 0, 0
		for _, rc := range tx.Rcpts {
			if !rc.Accept {
				refusedAtRcpt = true
			} else if rc.Deliver {
				pos++
			} else {
				neg++
			}
		}
		if pos > 0 && neg > 0 {
			mixed = true
		}
	}
	v.NonTrivial = multi || refusedAtRcpt || mixed
	if multi {
		v.Classes = append(v.Classes, "several_transactions")
	}
	if slowed > 0 {
		v.Classes = append(v.Classes, "slow_delivery_to_a_recipient")
	}
	for _, tx := range c.Txns {
		for _, rc := range tx.Rcpts {
			if rc.FailedMailAfter {
				v.Classes = append(v.Classes, "failed_mail_inside_transaction")
			}
			if rc.Accept && !rc.Deliver && rc.code() == 421 {
				v.Classes = append(v.Classes, "recipient_verdict_421")
			}
		}
	}
	if refusedAtRcpt {
		v.Classes = append(v.Classes, "recipient_refused_at_rcpt")
	}
	if mixed {
		v.Classes = append(v.Classes, "mixed_verdicts")
	}
	if stuck {
		// which transaction?
		at := 0
		for ti := range obs {
			if !obs[ti].reached {
				at = ti
				break
			}
		}
		return failf("close-hangs", "transaction %d: Close waits for replies that will never come (server idle, client blocked reading); statuses seen so far: %v", at, obs[at].statuses)
	}
	if !ok {
		return Verdict{Inconclusive: "watchdog in client run"}
	}
	if setupErr != nil {
		return failf("client-call", "a client call failed unexpectedly: %v", setupErr)
	}
	for ti, tx := range c.Txns {
		var want []c18Status
		anyNeg := false
		for ri, rc := range tx.Rcpts {
			if !rc.Accept {
				continue
			}
			addr := c18Addr(tx, ti, ri)
			if rc.Deliver {
				want = append(want, c18Status{addr, nil})
			} else {
				anyNeg = true
				want = append(want, c18Status{addr, &smtp.SMTPError{Code: rc.code(), EnhancedCode: smtp.EnhancedCode{rc.code() / 100, 2, 2}, Message: fmt.Sprintf("verdict-%d-for-%s", ri, addr)}})
			}
		}
		if len(want) == 0 {
			continue
		}
		got := obs[ti].statuses
		if tx.Callback {
			if len(got) != len(want) {
				return failf("callback-count", "transaction %d: callback fired %d times (%s), expected %d (%s)", ti, len(got), fmtStatuses(got), len(want), fmtStatuses(want))
			}
			for i := range want {
				g, wv := got[i], want[i]
				if g.rcpt != wv.rcpt {
					return failf("callback-recipient", "transaction %d: callback %d reports recipient %q, expected %q (all: %s)", ti, i, g.rcpt, wv.rcpt, fmtStatuses(got))
				}
				if (g.err == nil) != (wv.err == nil) {
					return failf("callback-status", "transaction %d: recipient %q reported as %v, expected %v", ti, g.rcpt, g.err, wv.err)
				}
				if g.err != nil && (g.err.Code != wv.err.Code || !strings.Contains(g.err.Message, wv.err.Message)) {
					return failf("callback-status", "transaction %d: recipient %q reported with %v, its own status is %v", ti, g.rcpt, g.err, wv.err)
				}
			}
			if obs[ti].closeErr != nil {
				return failf("close-result", "transaction %d: Close returned %v although all replies were read", ti, obs[ti].closeErr)
			}
		} else {
			if anyNeg && obs[ti].closeErr == nil {
				return failf("refusal-lost", "transaction %d: a recipient was refused after DATA but Close (no callback) returned nil", ti)
			}
			if !anyNeg && obs[ti].closeErr != nil {
				return failf("close-result", "transaction %d: all recipients delivered but Close returned %v", ti, obs[ti].closeErr)
			}
		}
	}
	return v
}

func fmtStatuses(ss []c18Status) string {
	var parts []string
	for _, s := range ss {
		if s.err == nil {
			parts = append(parts, s.rcpt+":ok")
		} else {
			parts = append(parts, fmt.Sprintf("%s:%d %q", s.rcpt, s.err.Code, s.err.Message))
		}
	}
	return "[" + strings.Join(parts, ", ") + "]"
}

// ---- a scripted LMTP peer: positive RCPT replies other than 250 ----

type c18PeerRcpt struct {
	Code    int  `json:"code"`    // reply to RCPT: 250, 251 (will forward), 550, 452
	Deliver bool `json:"deliver"` // positive status after DATA
	// Multi: the peer's replies for this recipient (to RCPT and after DATA)
	// have two lines; a reply is a reply however many lines it has
	Multi bool `json:"multi,omitempty"`
}

type c18PeerCase struct {
	Txns     [][]c18PeerRcpt `json:"txns"`
	Callback bool            `json:"callback"`
	NilCallback bool         `json:"nil_callback,omitempty"` // without Callback: LMTPData(nil) instead of Data()
	// HangUp: the peer sends the final replies of the last transaction and
	// closes the connection in the same step, and the client's connection
	// reports the end of the stream together with the last octets (one Read
	// returns n > 0 and io.EOF, as crypto/tls does when the close alert
	// arrives with the last record). The replies arrived in full all the same.
	HangUp bool `json:"hang_up,omitempty"`
	// Frag > 0: the server's replies reach the client in segments of at most
	// Frag octets (a network may deliver a reply octet by octet)
	Frag int `json:"frag,omitempty"`
}

func c18PeerServe(conn net.Conn, c c18PeerCase) {
	defer conn.Close()
	br := bufio.NewReader(conn)
	io.WriteString(conn, "220 peer LMTP\r\n")
	ti, ri := -1, 0
	var accepted []string
	var verdicts, multis []bool
	for {
		line, err := br.ReadString('\n')
		if err != nil {
			return
		}
		up := strings.ToUpper(strings.TrimRight(line, "\r\n"))
		switch {
		case strings.HasPrefix(up, "LHLO"):
			io.WriteString(conn, "250-peer\r\n250-PIPELINING\r\n250 ENHANCEDSTATUSCODES\r\n")
		case strings.HasPrefix(up, "MAIL"):
			ti++
			ri, accepted, verdicts, multis = 0, nil, nil, nil
			io.WriteString(conn, "250 2.1.0 sender ok\r\n")
		case strings.HasPrefix(up, "RCPT"):
			code := 550
			var rc c18PeerRcpt
			if ti >= 0 && ti < len(c.Txns) && ri < len(c.Txns[ti]) {
				rc = c.Txns[ti][ri]
				code = rc.Code
			}
			addr := fmt.Sprintf("t%dr%d@x", ti, ri)
			ri++
			first := ""
			if rc.Multi {
				first = fmt.Sprintf("%d-%d.1.5 first line\r\n", code, code/100)
			}
			switch code {
			case 250:
				accepted, verdicts, multis = append(accepted, addr), append(verdicts, rc.Deliver), append(multis, rc.Multi)
				io.WriteString(conn, first+"250 2.1.5 recipient ok\r\n")
			case 251:
				accepted, verdicts, multis = append(accepted, addr), append(verdicts, rc.Deliver), append(multis, rc.Multi)
				io.WriteString(conn, first+"251 2.1.5 user not local; will forward\r\n")
			case 452:
				io.WriteString(conn, first+"452 4.5.3 too many recipients\r\n")
			default:
				io.WriteString(conn, "550 5.1.1 no such user\r\n")
			}
		case up == "DATA":
			if len(accepted) == 0 {
				io.WriteString(conn, "503 5.5.1 no valid recipients\r\n")
				continue
			}
			io.WriteString(conn, "354 go ahead\r\n")
			for {
				l, err := br.ReadString('\n')
				if err != nil {
					return
				}
				if l == ".\r\n" {
					break
				}
			}
			var fb strings.Builder
			for i, a := range accepted {
				switch {
				case verdicts[i] && multis[i]:
					fb.WriteString("250-2.1.5 <" + a + "> delivered\r\n250 2.1.5 to the inbox\r\n")
				case verdicts[i]:
					fb.WriteString("250 2.1.5 <" + a + "> delivered\r\n")
				case multis[i]:
					fb.WriteString("552-5.2.2 <" + a + "> verdict-for-" + a + "\r\n552 5.2.2 mailbox full\r\n")
				default:
					fb.WriteString("552 5.2.2 <" + a + "> verdict-for-" + a + "\r\n")
				}
				if !c.HangUp {
					// one segment per reply
					io.WriteString(conn, fb.String())
					fb.Reset()
				}
			}
			if e, isEnd := conn.(*harness.End); c.HangUp && isEnd && ti == len(c.Txns)-1 {
				e.WriteFinal([]byte(fb.String()))
				return
			}
			io.WriteString(conn, fb.String())
			accepted, verdicts, multis = nil, nil, nil
		case up == "RSET", up == "NOOP":
			io.WriteString(conn, "250 2.0.0 ok\r\n")
		case up == "QUIT":
			io.WriteString(conn, "221 2.0.0 bye\r\n")
			return
		default:
			io.WriteString(conn, "500 5.5.1 what\r\n")
		}
	}
}

func c18PeerRun(c c18PeerCase) Verdict {
	hub := harness.NewHub()
	clEnd, svEnd := harness.Pair(hub)
	clEnd.SetEOFWithData(c.HangUp)
	svEnd.SetFragment(c.Frag)
	served := make(chan struct{})
	go func() { defer close(served); c18PeerServe(svEnd, c) }()
	cl := smtp.NewClientLMTP(clEnd)
	type txnObs struct {
		statuses []c18Status
		closeErr error
		rcptErrs []error
		reached  bool
	}
	obs := make([]txnObs, len(c.Txns))
	var setupErr error
	done := make(chan struct{})
	go func() {
		defer func() {
			hub.Lock()
			close(done)
			hub.Unlock()
			hub.Broadcast()
		}()
		for ti, tx := range c.Txns {
			if err := cl.Mail(fmt.Sprintf("s%d@x", ti), nil); err != nil {
				setupErr = fmt.Errorf("txn %d Mail: %w", ti, err)
				return
			}
			any := false
			for ri, rc := range tx {
				err := cl.Rcpt(fmt.Sprintf("t%dr%d@x", ti, ri), nil)
				obs[ti].rcptErrs = append(obs[ti].rcptErrs, err)
				any = any || rc.Code/10 == 25
			}
			if !any {
				if err := cl.Reset(); err != nil {
					setupErr = fmt.Errorf("txn %d Reset: %w", ti, err)
					return
				}
				obs[ti].reached = true
				continue
			}
			var wc io.WriteCloser
			var err error
			if c.Callback {
				t := ti
				wc, err = cl.LMTPData(func(rcpt string, status *smtp.SMTPError) {
					obs[t].statuses = append(obs[t].statuses, c18Status{rcpt, status})
				})
			} else if c.NilCallback {
				wc, err = cl.LMTPData(nil)
			} else {
				wc, err = cl.Data()
			}
			if err != nil {
				setupErr = fmt.Errorf("txn %d DATA: %w", ti, err)
				return
			}
			fmt.Fprintf(wc, "Subject: t%d\r\n\r\nbody\r\n", ti)
			obs[ti].closeErr = wc.Close()
			obs[ti].reached = true
		}
		if err := cl.Noop(); err != nil {
			setupErr = fmt.Errorf("final Noop: %w", err)
		}
	}()
	finished, stuck := false, false
	ok := hub.WaitUntil(func() bool {
		select {
		case <-done:
			finished = true
			return true
		default:
		}
		if svEnd.BlockedInReadLocked() && clEnd.BlockedInReadLocked() {
			stuck = true
			return true
		}
		return false
	}, harness.Watchdog)
	if !finished {
		clEnd.Abort()
		<-done
	}
	cl.Close()
	clEnd.Close()
	<-served
	v := Verdict{}
	for _, tx := range c.Txns {
		for _, rc := range tx {
			if rc.Code == 251 {
				v.NonTrivial = true
			}
		}
	}
	if v.NonTrivial {
		v.Classes = append(v.Classes, "recipient_accepted_with_251")
	}
	if len(c.Txns) >= 2 {
		v.Classes = append(v.Classes, "several_transactions")
	}
	if stuck {
		return failf("close-hangs", "against the scripted peer a client call waits for a reply that will never come (peer idle, client blocked reading); case %+v", c)
	}
	if !ok {
		return Verdict{Inconclusive: "watchdog in client run (peer)"}
	}
	hungUp := false
	if c.HangUp && len(c.Txns) > 0 {
		for _, rc := range c.Txns[len(c.Txns)-1] {
			hungUp = hungUp || rc.Code/10 == 25
		}
	}
	if hungUp {
		v.Classes = append(v.Classes, "peer_hangs_up_with_the_last_replies")
		if setupErr != nil && strings.HasPrefix(setupErr.Error(), "final Noop:") {
			setupErr = nil // the connection is gone, as scripted
		}
	}
	if setupErr != nil {
		return failf("client-call", "against the scripted peer a client call failed unexpectedly: %v", setupErr)
	}
	for ti, tx := range c.Txns {
		var want []c18Status
		anyNeg := false
		for ri, rc := range tx {
			addr := fmt.Sprintf("t%dr%d@x", ti, ri)
			positive := rc.Code/10 == 25
			if positive != (obs[ti].rcptErrs[ri] == nil) {
				return failf("rcpt-result", "transaction %d: RCPT %d was answered %d but Rcpt returned %v", ti, ri, rc.Code, obs[ti].rcptErrs[ri])
			}
			if !positive {
				continue
			}
			if rc.Deliver {
				want = append(want, c18Status{addr, nil})
			} else {
				anyNeg = true
				want = append(want, c18Status{addr, &smtp.SMTPError{Code: 552, Message: "verdict-for-" + addr}})
			}
		}
		if len(want) == 0 {
			continue
		}
		got := obs[ti].statuses
		if c.Callback {
			if len(got) != len(want) {
				return failf("callback-count", "transaction %d: callback fired %d times (%s), expected %d (%s)", ti, len(got), fmtStatuses(got), len(want), fmtStatuses(want))
			}
			for i := range want {
				g, wv := got[i], want[i]
				if g.rcpt != wv.rcpt || (g.err == nil) != (wv.err == nil) || (g.err != nil && !strings.Contains(g.err.Message, wv.err.Message)) {
					return failf("callback-status", "transaction %d: callback %d reports %s, expected %s", ti, i, fmtStatuses([]c18Status{g}), fmtStatuses([]c18Status{wv}))
				}
			}
			if obs[ti].closeErr != nil {
				return failf("close-result", "transaction %d: Close returned %v although all replies were read", ti, obs[ti].closeErr)
			}
		} else if anyNeg != (obs[ti].closeErr != nil) {
			return failf("close-result", "transaction %d (no callback): a refusal after DATA = %v, Close returned %v", ti, anyNeg, obs[ti].closeErr)
		}
	}
	return v
}

var (
	c18Sub  *subCheck[c18Case]
	c18Peer *subCheck[c18PeerCase]
)

func init() {
	registrars = append(registrars, func() {
		c18Sub = newSub("C18", "rapid", c18Run)
		c18Peer = newSub("C18", "peer", c18PeerRun)
	})
}

func TestC18(t *testing.T) {
	registerAll()
	st.Rule = "cases = 1-3 consecutive LMTP transactions on one go-smtp client connection against a go-smtp LMTP server, each with 1-3 recipients (some refused at RCPT), a per-recipient verdict vector, LMTPData with callback or Data without, optional Reset in between, optionally a slow delivery to one recipient (its reply arrives later than CommandTimeout after the previous one); oracle = the scripted verdicts; second part: the same client against a scripted LMTP peer that accepts recipients with 250 or 251 and refuses with 550/452; hang detection is state-based (both ends blocked reading with nothing in flight); non-trivial = >= 2 transactions OR a recipient refused at RCPT OR a mixed verdict vector; distinct = hash of the whole case"
	if !regress(t, "C18") {
		return
	}
	c18Sub.rapidCheck(t, pickTier(3000, 25000), func(rt *rapid.T) c18Case {
		c := c18Case{}
		for i, n := 0, rapid.IntRange(1, 3).Draw(rt, "ntxn"); i < n; i++ {
			tx := c18Txn{Callback: rapid.Bool().Draw(rt, "callback"), Reset: rapid.IntRange(0, 3).Draw(rt, "reset") == 0}
			tx.NilCallback = !tx.Callback && rapid.Bool().Draw(rt, "nil_callback")
			tx.Dup = rapid.IntRange(0, 3).Draw(rt, "dup") == 0
			for j, m := 0, rapid.IntRange(1, 3).Draw(rt, "nrcpt"); j < m; j++ {
				rc := c18Rcpt{Accept: rapid.IntRange(0, 3).Draw(rt, "accept") != 0, Deliver: rapid.Bool().Draw(rt, "deliver")}
				if rapid.Bool().Draw(rt, "other_code") {
					rc.Code = rapid.SampledFrom([]int{421, 450, 451, 452, 500, 550, 554, 599}).Draw(rt, "code")
				}
				rc.FailedMailAfter = rapid.IntRange(0, 7).Draw(rt, "failed_mail") == 0
				tx.Rcpts = append(tx.Rcpts, rc)
			}
			// a few slow deliveries (each costs its pause in wall-clock time)
			if rapid.IntRange(0, 999).Draw(rt, "slow")%150 == 7 {
				tx.SlowAt = rapid.IntRange(1, 3).Draw(rt, "slow_at")
			}
			c.Txns = append(c.Txns, tx)
		}
		c.Frag = rapid.SampledFrom([]int{0, 0, 1, 3, 7}).Draw(rt, "frag")
		c.Sync = rapid.IntRange(0, 5).Draw(rt, "sync") == 0
		return c
	})
	if t.Failed() {
		return
	}
	c18Peer.rapidCheck(t, pickTier(1500, 12000), func(rt *rapid.T) c18PeerCase {
		c := c18PeerCase{Callback: rapid.IntRange(0, 3).Draw(rt, "callback") != 0, HangUp: rapid.IntRange(0, 3).Draw(rt, "hang_up") == 0}
		c.NilCallback = !c.Callback && rapid.Bool().Draw(rt, "nil_callback")
		for i, n := 0, rapid.IntRange(1, 3).Draw(rt, "ntxn"); i < n; i++ {
			var tx []c18PeerRcpt
			for j, m := 0, rapid.IntRange(1, 3).Draw(rt, "nrcpt"); j < m; j++ {
				tx = append(tx, c18PeerRcpt{Code: rapid.SampledFrom([]int{250, 250, 251, 251, 550, 452}).Draw(rt, "code"), Deliver: rapid.Bool().Draw(rt, "deliver"),
					Multi: rapid.IntRange(0, 3).Draw(rt, "multi") == 0})
			}
			c.Txns = append(c.Txns, tx)
		}
		c.Frag = rapid.SampledFrom([]int{0, 0, 1, 3, 7}).Draw(rt, "frag")
		return c
	})
}
