package props

import (
	"fmt"
	"sort"
	"strings"
	"testing"

	"pgregory.net/rapid"

	"verif/harness"
)

// C12 - EHLO advertises exactly what the configuration enables, and honours it.

type c12Case struct {
	UTF8, RequireTLS, BinaryMIME, DSN, RRVS bool
	Size                                    int64  // 0 or N
	RcptMax                                 int    // 0 or N
	TLS                                     string // "", "starttls" (available), "implicit" (active), "upgraded" (active via STARTTLS), "wrapped" (active through a TLS listener of the caller's, Server.TLSConfig unset), "failed" (available; an upgrade was attempted and its handshake failed, the connection goes on in the clear)
	InsecureAuth                            bool
	AuthBackend                             bool
	LMTP                                    bool
	Order                                   []int `json:",omitempty"` // probe order (thorough: random)
	// Spell: how command verbs and parameter keywords are spelled: 0 upper
	// case, 1 lower case, 2 alternating (both are case-insensitive)
	Spell int `json:",omitempty"`
	// Pre: what the connection has been through before the greeting whose
	// reply is judged: 0 nothing; 1 a HELO (LMTP: an earlier LHLO); 2 a
	// greeting refused for its missing argument; 3 a HELO and a transaction
	// begun under it. Every greeting starts afresh (RFC 5321 4.1.4).
	Pre int `json:",omitempty"`
	// Name: what the client calls itself in the judged greeting: 0 a
	// one-label name, 1 a domain, 2 an IPv4 address literal, 3 an IPv6
	// address literal (RFC 5321 4.1.3: a client without a name uses its address)
	Name int `json:",omitempty"`
	// Unrelated: settings that have no bearing on the capabilities: bit 0 a
	// (long) ReadTimeout and WriteTimeout, bit 1 a Debug writer, bit 2 a
	// small line length limit (every probe fits)
	Unrelated int `json:",omitempty"`
}

var c12Names = []string{"cli", "mail.example.org", "[192.0.2.1]", "[IPv6:2001:db8::7]"}

func c12Expected(c c12Case) []string {
	active := c.TLS == "implicit" || c.TLS == "upgraded" || c.TLS == "wrapped"
	caps := []string{"PIPELINING", "8BITMIME", "ENHANCEDSTATUSCODES", "CHUNKING"}
	if c.TLS == "starttls" || c.TLS == "failed" {
		caps = append(caps, "STARTTLS")
	}
	if (active || c.InsecureAuth) && c.AuthBackend {
		caps = append(caps, "AUTH PLAIN LOGIN")
	}
	if c.UTF8 {
		caps = append(caps, "SMTPUTF8")
	}
	if c.RequireTLS && active {
		caps = append(caps, "REQUIRETLS")
	}
	if c.BinaryMIME {
		caps = append(caps, "BINARYMIME")
	}
	if c.DSN {
		caps = append(caps, "DSN")
	}
	if c.Size > 0 {
		caps = append(caps, fmt.Sprintf("SIZE %d", c.Size))
	} else {
		caps = append(caps, "SIZE")
	}
	if c.RcptMax > 0 {
		caps = append(caps, fmt.Sprintf("LIMITS RCPTMAX=%d", c.RcptMax))
	}
	if c.RRVS {
		caps = append(caps, "RRVS")
	}
	sort.Strings(caps)
	return caps
}

// c12Normalise: "SIZE 0" says the same as a bare "SIZE" (RFC 1870 section 4:
// no fixed maximum message size is in force).
func c12Normalise(caps []string) {
	for i, l := range caps {
		if l == "SIZE 0" {
			caps[i] = "SIZE"
		}
	}
}

type c12Probe struct {
	name  string
	lines []string
	want  []expect
}

func c12Run(c c12Case) Verdict {
	tlsLabel := c.TLS
	cfg := harness.Config{LMTP: c.LMTP, UTF8: c.UTF8, RequireTLS: c.RequireTLS, BinaryMIME: c.BinaryMIME, DSN: c.DSN, RRVS: c.RRVS,
		MaxMessageBytes: c.Size, MaxRecipients: c.RcptMax, AllowInsecureAuth: c.InsecureAuth}
	if c.Unrelated&1 != 0 {
		cfg.ReadTimeoutMs, cfg.WriteTimeoutMs = 60000, 60000
	}
	cfg.Debug = c.Unrelated&2 != 0
	if c.Unrelated&4 != 0 {
		cfg.MaxLineLength = 200
	}
	switch c.TLS {
	case "starttls", "upgraded", "failed":
		cfg.TLS = "starttls"
	case "implicit":
		cfg.TLS = "implicit"
	case "wrapped":
		cfg.TLS = "wrapped"
	}
	script := harness.Script{AuthSession: c.AuthBackend, Mechs: []string{"PLAIN", "LOGIN"}, LMTPSession: c.LMTP,
		SASL: []harness.SASLScript{{SkipChallengesWithIR: true}, {SkipChallengesWithIR: true}}}
	r := harness.NewRig(cfg, script)
	w, err := r.Dial()
	if err != nil {
		w.Finish()
		return Verdict{Inconclusive: "dial: " + err.Error()}
	}
	if st := w.WaitQuiet(); st != harness.QIdle {
		w.Finish()
		return Verdict{Inconclusive: "server not idle after connect: " + st}
	}
	w.Recv()
	g := respell(greetWord(c.LMTP), c.Spell)
	spl := func(lines string) []byte {
		ls := strings.Split(lines, "\r\n")
		for i := range ls {
			ls[i] = respell(ls[i], c.Spell)
		}
		return []byte(strings.Join(ls, "\r\n"))
	}
	if c.TLS == "upgraded" {
		out, _ := w.Exchange(spl(g + " pre\r\nSTARTTLS\r\n"))
		if !strings.Contains("\r\n"+string(out), "\r\n220 ") {
			w.Finish()
			return failf("starttls", "STARTTLS advertised/configured but not accepted: %s", q(out))
		}
		if err := w.StartTLS(); err != nil {
			w.Finish()
			return Verdict{Inconclusive: "handshake: " + err.Error()}
		}
		w.WaitQuiet()
	}
	if c.TLS == "failed" {
		out, st := w.Exchange(spl(g + " pre\r\nSTARTTLS\r\n"))
		if st != harness.QIdle || !strings.Contains("\r\n"+string(out), "\r\n220 ") {
			w.Finish()
			return failf("starttls", "STARTTLS advertised/configured but not accepted: %s", q(out))
		}
		out, st = w.Exchange([]byte("this-is-not-a-tls-handshake\r\n"))
		frs, ferr := harness.ParseReplies(out)
		if st == harness.QClosed {
			w.Finish()
			return Verdict{Classes: []string{"tls_failed_connection_given_up"}}
		}
		if st != harness.QIdle || ferr != nil || len(frs) != 1 || frs[0].Class() == 2 || frs[0].Class() == 3 {
			w.Finish()
			return failf("starttls", "plaintext instead of a TLS handshake answered %v (%v, %s)", codes(frs), ferr, st)
		}
		// from here on the case is the "available, not active" one
		c.TLS = "starttls"
	}
	active := c.TLS == "implicit" || c.TLS == "upgraded" || c.TLS == "wrapped"
	fail := func(v Verdict) Verdict { w.Finish(); return v }
	// 0. earlier greetings on the same connection
	if c.Pre != 0 {
		first := "HELO first"
		if c.LMTP {
			first = "LHLO first"
		}
		var pre conv
		switch c.Pre {
		case 1:
			pre.cmd(respell(first, c.Spell))
		case 2:
			pre.cmd(respell(strings.Fields(first)[0], c.Spell))
		default:
			pre.cmd(respell(first, c.Spell))
			pre.cmd("MAIL FROM:<pre@x>")
			pre.cmd("RCPT TO:<pre@y>")
		}
		out, st := w.Exchange(pre.buf)
		prs, perr := harness.ParseReplies(out)
		want := 1
		if c.Pre == 3 {
			want = 3
		}
		if st != harness.QIdle || perr != nil || len(prs) != want {
			return fail(failf("pre", "earlier greeting %q: %s %v, replies %v", pre.buf, st, perr, codes(prs)))
		}
		if c.Pre == 2 && prs[0].Class() != 5 {
			return fail(failf("pre", "greeting without argument answered %s", prs[0]))
		}
		if c.Pre != 2 && prs[0].Code != 250 {
			return fail(failf("pre", "earlier greeting %q answered %s", first, prs[0]))
		}
	}
	// 1. the capability list
	out, st := w.Exchange([]byte(g + " " + c12Names[c.Name%len(c12Names)] + "\r\n"))
	rs, perr := harness.ParseReplies(out)
	if st != harness.QIdle || perr != nil || len(rs) != 1 || rs[0].Code != 250 {
		return fail(failf("ehlo", "greeting not answered with one 250 reply: %v %v %s", codes(rs), perr, st))
	}
	got := append([]string(nil), rs[0].Lines[1:]...)
	c12Normalise(got)
	sort.Strings(got)
	want := c12Expected(c)
	if strings.Join(got, "|") != strings.Join(want, "|") {
		return fail(failf("capabilities", "configuration %+v\nadvertised: %q\nexpected:   %q", c, got, want))
	}
	// 2. HELO lists none
	if !c.LMTP {
		out, _ := w.Exchange(spl("HELO cli\r\n"))
		hr, perr := harness.ParseReplies(out)
		if perr != nil || len(hr) != 1 || hr[0].Code != 250 || len(hr[0].Lines) != 1 {
			return fail(failf("helo", "HELO must be answered with a single-line 250, got %q", out))
		}
		w.Exchange([]byte(g + " cli\r\n"))
	}
	// 3. one probe per extension
	yes := func(b bool, what string) expect {
		if b {
			return expect{Code: 250, What: what + " enabled"}
		}
		return expect{Code: 504, What: what + " disabled"}
	}
	// keywords are case-insensitive (RFC 5321 2.4): the same probes in other spellings
	sp := func(s string, k int) string {
		switch k % 3 {
		case 1:
			return strings.ToLower(s)
		case 2:
			return strings.ToUpper(s[:1]) + strings.ToLower(s[1:])
		}
		return s
	}
	k := int(c.Size) + c.RcptMax + len(c.TLS) + len(c.Order)
	if c.UTF8 {
		k++
	}
	if c.DSN {
		k += 2
	}
	probes := []c12Probe{
		{"binarymime", []string{"MAIL FROM:<a@b> " + sp("BODY", k) + "=" + sp("BINARYMIME", k+1), "RSET"}, []expect{yes(c.BinaryMIME, "BINARYMIME"), {Code: 250}}},
		{"smtputf8", []string{"MAIL FROM:<a@b> " + sp("SMTPUTF8", k+1), "RSET"}, []expect{yes(c.UTF8, "SMTPUTF8"), {Code: 250}}},
		{"smtputf8-lower", []string{"MAIL FROM:<a@b> smtputf8", "RSET"}, []expect{yes(c.UTF8, "SMTPUTF8"), {Code: 250}}},
		{"dsn-ret", []string{"MAIL FROM:<a@b> RET=HDRS", "RSET"}, []expect{yes(c.DSN, "DSN RET"), {Code: 250}}},
		{"dsn-envid", []string{"MAIL FROM:<a@b> ENVID=abc", "RSET"}, []expect{yes(c.DSN, "DSN ENVID"), {Code: 250}}},
		{"dsn-notify", []string{"MAIL FROM:<a@b>", "RCPT TO:<c@d> NOTIFY=SUCCESS", "RSET"}, []expect{{Code: 250}, yes(c.DSN, "DSN NOTIFY"), {Code: 250}}},
		{"dsn-orcpt", []string{"MAIL FROM:<a@b>", "RCPT TO:<c@d> ORCPT=rfc822;c@d", "RSET"}, []expect{{Code: 250}, yes(c.DSN, "DSN ORCPT"), {Code: 250}}},
		{"rrvs", []string{"MAIL FROM:<a@b>", "RCPT TO:<c@d> RRVS=2014-04-03T23:01:00Z", "RSET"}, []expect{{Code: 250}, yes(c.RRVS, "RRVS"), {Code: 250}}},
		{"8bitmime", []string{"MAIL FROM:<a@b> BODY=8BITMIME", "RSET"}, []expect{{Code: 250}, {Code: 250}}},
		{"chunking", []string{"MAIL FROM:<a@b>", "RCPT TO:<c@d>", "BDAT 2 LAST\r\nhi"}, []expect{{Code: 250}, {Code: 250}, {Code: 250}}},
	}
	if c.RequireTLS && !active {
		// enabled by the configuration but not advertised on a plaintext connection: unspecified
	} else {
		probes = append(probes, c12Probe{"requiretls", []string{"MAIL FROM:<a@b> " + sp("REQUIRETLS", k+2), "RSET"}, []expect{yes(c.RequireTLS, "REQUIRETLS"), {Code: 250}}})
	}
	if c.Size > 0 {
		probes = append(probes,
			c12Probe{"size-at", []string{fmt.Sprintf("MAIL FROM:<a@b> SIZE=%d", c.Size), "RSET"}, []expect{{Code: 250}, {Code: 250}}},
			c12Probe{"size-over", []string{fmt.Sprintf("MAIL FROM:<a@b> SIZE=%d", c.Size+1), "RSET"}, []expect{{Code: 552}, {Code: 250}}})
	} else {
		probes = append(probes, c12Probe{"size-any", []string{"MAIL FROM:<a@b> SIZE=123456789", "RSET"}, []expect{{Code: 250}, {Code: 250}}},
			c12Probe{"size-2^32", []string{"MAIL FROM:<a@b> SIZE=4294967296", "RSET"}, []expect{{Code: 250}, {Code: 250}}},
			c12Probe{"size-2^63-1", []string{"MAIL FROM:<a@b> SIZE=9223372036854775807", "RSET"}, []expect{{Code: 250}, {Code: 250}}})
	}
	if c.RcptMax > 0 {
		p := c12Probe{"rcptmax", []string{"MAIL FROM:<a@b>"}, []expect{{Code: 250}}}
		for i := 0; i < c.RcptMax; i++ {
			p.lines = append(p.lines, fmt.Sprintf("RCPT TO:<r%d@d>", i))
			p.want = append(p.want, expect{Code: 250})
		}
		p.lines = append(p.lines, "RCPT TO:<onemore@d>", "RSET")
		p.want = append(p.want, expect{Code: 452, What: "recipient over RCPTMAX"}, expect{Code: 250})
		probes = append(probes, p)
	}
	// a line mixing parameters of enabled extensions with one of a disabled
	// extension is refused with 504 whichever the server looks at first (three
	// times: it may look at them in any order); no RSET follows - a refused
	// MAIL opens nothing - and an ordinary DATA transaction must work afterwards
	{
		var on []string
		off := ""
		for _, x := range []struct {
			enabled bool
			param   string
		}{{c.BinaryMIME, "BODY=BINARYMIME"}, {c.UTF8, "SMTPUTF8"}, {c.DSN, "RET=HDRS"}, {c.DSN, "ENVID=e1"}, {c.RequireTLS && active, "REQUIRETLS"}} {
			if x.enabled {
				on = append(on, x.param)
			} else if off == "" && !(x.param == "REQUIRETLS" && c.RequireTLS) && !(x.param == "ENVID=e1") {
				off = x.param
			}
		}
		if off != "" {
			for i := 0; i < 3; i++ {
				ps := append(append([]string(nil), on...), off)
				// rotate so that the disabled one is not always last on the line
				ps = append(ps[i%len(ps):], ps[:i%len(ps)]...)
				probes = append(probes, c12Probe{fmt.Sprintf("mixed-mail-%d", i), []string{"MAIL FROM:<a@b> SIZE=1 " + strings.Join(ps, " ")},
					[]expect{{Code: 504, What: off + " of a disabled extension among enabled ones"}}})
			}
		}
		if c.DSN != c.RRVS {
			probes = append(probes, c12Probe{"mixed-rcpt", []string{"MAIL FROM:<a@b>", "RCPT TO:<c@d> NOTIFY=FAILURE RRVS=2014-04-03T23:01:00Z", "RSET"},
				[]expect{{Code: 250}, {Code: 504, What: "one of DSN/RRVS disabled"}, {Code: 250}}})
		}
		probes = append(probes, c12Probe{"data", []string{"MAIL FROM:<a@b>", "RCPT TO:<c@d>", "DATA\r\nhi\r\n."}, []expect{{Code: 250}, {Code: 250}, {Code: 354}, {Code: 250}}})
	}
	var order []int
	for _, x := range c.Order {
		if x < len(probes) {
			order = append(order, x)
		}
	}
	if len(order) != len(probes) {
		order = seqInts(len(probes))
	}
	for _, pi := range order {
		p := probes[pi%len(probes)]
		var cv conv
		for _, l := range p.lines {
			cv.cmd(respell(l, c.Spell))
		}
		// "BDAT 2 LAST\r\nhi" + CRLF from cmd(): strip the CRLF after the payload
		if p.name == "chunking" {
			cv.buf = cv.buf[:len(cv.buf)-2]
		}
		out, st := w.Exchange(cv.buf)
		prs, perr := harness.ParseReplies(out)
		if st != harness.QIdle || perr != nil {
			return fail(failf("probe", "probe %s: %s %v", p.name, st, perr))
		}
		exp := p.want
		if c.LMTP && p.name == "chunking" {
			exp = p.want // one recipient: one final reply
		}
		if m := matchReplies(prs, exp); m != "" {
			return fail(failf("probe-"+p.name, "configuration %+v: probe %s %q: %s", c, p.name, p.lines, m))
		}
	}
	// AUTH
	authAdvertised := (active || c.InsecureAuth) && c.AuthBackend
	out, _ = w.Exchange(spl("AUTH PLAIN AHUAcHc=\r\n"))
	ar, perr := harness.ParseReplies(out)
	if perr != nil || len(ar) != 1 {
		return fail(failf("probe-auth", "AUTH: %v %v", codes(ar), perr))
	}
	if authAdvertised && ar[0].Code != 235 {
		return fail(failf("probe-auth", "configuration %+v: AUTH is advertised but AUTH PLAIN was answered %s", c, ar[0]))
	}
	if !authAdvertised && ar[0].Class() != 5 {
		return fail(failf("probe-auth", "configuration %+v: AUTH is not available but AUTH PLAIN was answered %s", c, ar[0]))
	}
	// STARTTLS last
	out, _ = w.Exchange(spl("STARTTLS\r\n"))
	sr, perr := harness.ParseReplies(out)
	if perr != nil || len(sr) != 1 {
		return fail(failf("probe-starttls", "STARTTLS: %v %v", codes(sr), perr))
	}
	if c.TLS == "starttls" {
		if sr[0].Code != 220 {
			return fail(failf("probe-starttls", "STARTTLS is advertised but was answered %s", sr[0]))
		}
		if err := w.StartTLS(); err != nil {
			return fail(failf("probe-starttls", "TLS handshake after 220 failed: %v", err))
		}
		w.WaitQuiet()
		// inside TLS the list changes: no STARTTLS, AUTH/REQUIRETLS per TLS
		out, _ := w.Exchange([]byte(g + " again\r\n"))
		rs2, perr := harness.ParseReplies(out)
		if perr != nil || len(rs2) != 1 || rs2[0].Code != 250 {
			return fail(failf("ehlo", "greeting inside TLS: %v %v", codes(rs2), perr))
		}
		c2 := c
		c2.TLS = "upgraded"
		got2 := append([]string(nil), rs2[0].Lines[1:]...)
		c12Normalise(got2)
		sort.Strings(got2)
		if strings.Join(got2, "|") != strings.Join(c12Expected(c2), "|") {
			return fail(failf("capabilities", "after STARTTLS, configuration %+v\nadvertised: %q\nexpected:   %q", c, got2, c12Expected(c2)))
		}
		// what the new session is offered must work, whatever happened in plaintext
		if c.AuthBackend {
			out, _ := w.Exchange(spl("AUTH PLAIN AHUAcHc=\r\n"))
			ar2, perr := harness.ParseReplies(out)
			if perr != nil || len(ar2) != 1 || ar2[0].Code != 235 {
				return fail(failf("probe-auth", "configuration %+v: after STARTTLS AUTH is advertised but AUTH PLAIN was answered %v (an earlier plaintext authentication must not count)", c, codes(ar2)))
			}
		}
	} else if sr[0].Class() != 5 {
		return fail(failf("probe-starttls", "STARTTLS is not available (tls=%q) but was answered %s", c.TLS, sr[0]))
	}
	_, fin := w.Finish()
	if !fin {
		return finishFail(w)
	}
	if p := r.Log.Panicked(); p != "" {
		return failf("panic", "server logged a panic: %s", p)
	}
	optional := c.UTF8 || c.RequireTLS || c.BinaryMIME || c.DSN || c.RRVS || c.Size > 0 || c.RcptMax > 0 || c.TLS != "" || (c.AuthBackend && c.InsecureAuth)
	return Verdict{NonTrivial: optional, Classes: []string{"tls_" + tlsLabel}}
}

func c12All() []c12Case {
	var out []c12Case
	for bits := 0; bits < 32; bits++ {
		for _, size := range []int64{0, 1000, 8589934592} {
			for _, rm := range []int{0, 2} {
				for _, tls := range []string{"", "starttls", "implicit", "wrapped", "failed"} {
					for _, ins := range []bool{false, true} {
						for _, ab := range []bool{false, true} {
							for _, lmtp := range []bool{false, true} {
								out = append(out, c12Case{UTF8: bits&1 != 0, RequireTLS: bits&2 != 0, BinaryMIME: bits&4 != 0, DSN: bits&8 != 0, RRVS: bits&16 != 0,
									Size: size, RcptMax: rm, TLS: tls, InsecureAuth: ins, AuthBackend: ab, LMTP: lmtp, Spell: len(out) % 3, Pre: (len(out) / 3) % 4, Name: (len(out) / 5) % 4, Unrelated: (len(out) / 7) % 8})
							}
						}
					}
				}
			}
		}
	}
	return out
}

var (
	c12Enum *subCheck[c12Case]
	c12Rand *subCheck[c12Case]
)

func init() {
	registrars = append(registrars, func() {
		c12Enum = newSub("C12", "enum", c12Run)
		c12Rand = newSub("C12", "orders", c12Run)
	})
}

func TestC12(t *testing.T) {
	registerAll()
	st.Rule = "cases = all 7680 configurations (5 extension flags x size limit none/1000/8 GiB x recipient limit x TLS none/available/active/active through a caller-wrapped listener/available after a failed upgrade x AllowInsecureAuth x auth-capable backend x SMTP/LMTP), each: exact capability set vs a table, HELO single-line, one probe per extension (verbs and parameter keywords in upper, lower or alternating case), lines mixing parameters of enabled and disabled extensions, a DATA transaction after them, AUTH and STARTTLS probes, under unrelated server settings (timeouts, Debug writer, line limit), the client naming itself by a domain or an IPv4 / IPv6 address literal, the judged greeting being the first on its connection or following a HELO / a refused greeting / a HELO with an open transaction, capability list again after an upgrade; thorough adds random probe orders and TLS activated through STARTTLS; non-trivial = configuration with at least one optional capability; distinct = hash of the configuration"
	if !regress(t, "C12") {
		return
	}
	all := c12All()
	complete := true
	for i, c := range all {
		if !mine(i) {
			continue
		}
		if !c12Enum.one(t, c) {
			complete = false
			break
		}
	}
	st.Exhaustive["enum"] = complete
	st.Exhaustive["all"] = complete
	st.note("%d configurations enumerated (shard %d/%d)", len(all), shard, nshards)
	if !complete {
		return
	}
	c12Rand.rapidCheck(t, pickTier(300, 12000), func(rt *rapid.T) c12Case {
		c := rapid.SampledFrom(all).Draw(rt, "cfg")
		if c.TLS == "implicit" && rapid.Bool().Draw(rt, "upgraded") {
			c.TLS = "upgraded"
		}
		c.Order = rapid.Permutation(seqInts(22)).Draw(rt, "order")
		c.Spell = rapid.IntRange(0, 2).Draw(rt, "spell")
		c.Pre = rapid.IntRange(0, 3).Draw(rt, "pre")
		c.Name = rapid.IntRange(0, 3).Draw(rt, "name")
		c.Unrelated = rapid.IntRange(0, 7).Draw(rt, "unrelated")
		return c
	})
}
