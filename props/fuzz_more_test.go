package props

import (
	"strings"
	"testing"
	"unicode/utf8"

	"pgregory.net/rapid"

	"verif/harness"
	"verif/ref"
)

// Native (coverage-guided) fuzz targets for the properties whose cases are
// built around one free octet string: the same runners and oracles as the
// rapid generators use, with the string taken from the fuzzer instead of from
// pieces. They run in the thorough tier only (see FUZZ in ../check); a
// crasher is copied to replays/<Target>/ and re-runs with ./check <ID>
// --replay <file>.

// FuzzC02: the message octets are free; terminator look-alikes and bait
// commands come from the corpus and from mutation.
func FuzzC02(f *testing.F) {
	registerAll()
	for _, s := range c02Looks {
		f.Add([]byte("a"+s+"MAIL FROM:<bait0@x>\r\n"), uint16(0), uint16(0))
		f.Add([]byte(s+"QUIT\r\n"+s), uint16(0x1234), uint16(0xffff))
	}
	for _, s := range c02Baits {
		f.Add([]byte("x\r\n"+s+".\r"), uint16(77), uint16(1))
	}
	f.Fuzz(func(t *testing.T, body []byte, flags, cutSeed uint16) {
		if len(body) > 3000 {
			return
		}
		body = c02Defuse(body)
		c := c02Case{Body: body, Markers: []string{"MAIL FROM:<marker0@x>\r\n", "RCPT TO:<marker1@x>\r\n", "QUIT\r\n"}}
		c.Mode = int(flags) % 3
		c.NRcpt = 1 + int(flags>>2)%3
		full := append(append([]byte(nil), body...), ref.Terminator(body)...)
		msg, _, _ := ref.Unstuff(full)
		switch int(flags>>4) % 4 {
		case 1:
			c.Limit = int64(max(1, len(msg)/2))
		case 2:
			c.Limit = int64(max(1, len(msg)))
		case 3:
			c.Limit = int64(len(msg) + 7)
		}
		switch int(flags>>6) % 4 {
		case 0, 1:
			c.ReadLim = -1
		case 2:
			c.ReadLim = 0
		default:
			c.ReadLim = len(msg) / 2
		}
		c.Reads = []int{1 + int(flags>>8)%97}
		switch int(flags>>12) % 4 {
		case 2:
			c.Result = harness.Decision{Kind: "smtp", Code: 550, Enh: [3]int{5, 7, 1}, Msg: "scripted rejection"}
		case 3:
			c.Result = harness.Decision{Kind: "plain", Msg: "scripted failure"}
		}
		if flags>>14 == 3 && maxStretch(full) > 40 {
			c.LineLimit = 32 + int(cutSeed)%33
		} else if maxStretch(full) > 1900 {
			// the default line limit (2000) comes within reach: say so, the
			// runner then knows that the server may give up on the message
			c.LineLimit = 2000
		}
		stream, _ := c02Stream(c)
		if cutSeed != 0 {
			for k := 1; k < len(stream) && k < 2000; k++ {
				if cutSeed&(1<<(uint(k)%16)) != 0 {
					c.Cuts = append(c.Cuts, k)
				}
			}
		}
		if v := c02Run(c); v.Fail != "" {
			t.Fatalf("C02: %s\ncase: %s", v.Fail, mustJSONString(c))
		}
	})
}

// FuzzC14: one free string in one string-valued option or address.
func FuzzC14(f *testing.F) {
	registerAll()
	for _, s := range []string{"a+b=c d", "x\\y{z}", "\x7f", "é€😀", "a+2Bb", "\\x{41}", "a b@c", "\"q r\"@example.org", "u+3D@x", "<>", "rfc822;x", "a@[1.2.3.4]", "a@[IPv6:::1]", "ü@ü.example"} {
		for fl := 0; fl < 8; fl++ {
			f.Add(s, uint8(fl), uint8(fl*5))
		}
	}
	f.Fuzz(func(t *testing.T, s string, field, flags uint8) {
		if len(s) > 200 || !utf8.ValidString(s) {
			return // the property speaks of text: printable ASCII or UTF-8
		}
		srvUTF8 := flags&1 != 0
		var v Verdict
		var cs interface{}
		switch field % 6 {
		case 0, 1, 2, 3:
			c := c14Case{ServerUTF8: srvUTF8, From: "s@x", To: "r@x", HasMailOpts: true, HasRcptOpts: true, TLS: flags&8 != 0, LMTP: flags&16 != 0}
			switch field % 6 {
			case 0:
				c.EnvID = s
			case 1:
				c.ORcptType, c.ORcpt = "RFC822", s
			case 2:
				c.ORcptType, c.ORcpt = "UTF-8", s
			case 3:
				// AUTH carries a mailbox: the string becomes (part of) its local part
				c.Auth = c14Single(s, 3, srvUTF8).Auth
			}
			if c.ORcpt == "" {
				c.ORcptType = ""
			}
			if flags&32 != 0 {
				c.Prelude = "txn"
			}
			v, cs = c14Run(c), c
		default:
			c := c14AddrCase{ServerUTF8: srvUTF8, From: "s@x", To: "r@x", ClientUTF8: flags&2 != 0 && srvUTF8, ViaSendMail: flags&4 != 0}
			if field%6 == 4 {
				c.From = s
			} else {
				c.To = s
			}
			v, cs = c14AddrRun(c), c
		}
		if v.Fail != "" {
			t.Fatalf("C14: %s\ncase: %s", v.Fail, mustJSONString(cs))
		}
	})
}

// FuzzC15: one free (hostile) string in one string-typed argument, under a
// free capability set.
func FuzzC15(f *testing.F) {
	registerAll()
	for _, s := range []string{"a\r\nRSET", "a\nb", "a\rb", "x> SIZE=1", "a b", "\x00", "<x@y> BODY=8BITMIME", "SUCCESS SMTPUTF8", "FULL\r\n", "é", "a@b>\r\nDATA"} {
		for fl := 0; fl < 10; fl++ {
			f.Add(s, uint8(fl), uint8(0xff), uint8(fl))
			f.Add(s, uint8(fl), uint8(0), uint8(3))
			f.Add(s, uint8(fl), uint8(0x80), uint8(fl))
		}
	}
	f.Fuzz(func(t *testing.T, s string, field, caps, opts uint8) {
		if len(s) > 300 {
			return
		}
		var adv []string
		for i, e := range c15Exts {
			if caps&(1<<uint(i)) != 0 {
				adv = append(adv, e)
			}
		}
		if caps == 0x80 {
			adv = []string{c15HeloOnly}
		}
		mail := c15Call{Op: "mail", Addr: "sender@example.org", Opts: true, RTLS: opts&1 != 0, UTF8: opts&2 != 0, Ret: "FULL", EnvID: "envelope-1"}
		if opts&4 != 0 {
			mail.Size = 12345
		}
		if opts&8 != 0 {
			a := "auth@example.org"
			mail.Auth = &a
		}
		rcpt := c15Call{Op: "rcpt", Addr: "rcpt@example.org", Opts: true, Notify: []string{"SUCCESS"}, OType: "RFC822", ORcpt: "orig@example.org", RRVS: opts&16 != 0}
		calls := []c15Call{}
		switch field % 10 {
		case 0:
			calls = append(calls, c15Call{Op: "hello", Name: s})
		case 1:
			mail.Addr = s
		case 2:
			mail.Ret = s
		case 3:
			mail.EnvID = s
		case 4:
			a := s
			mail.Auth = &a
		case 5:
			rcpt.Addr = s
		case 6:
			rcpt.Notify = []string{s}
		case 7:
			rcpt.OType = s
		case 8:
			rcpt.ORcpt = s
		case 9:
			calls = append(calls, c15Call{Op: "verify", Addr: s})
		}
		calls = append(calls, mail, rcpt, c15Call{Op: "noop"})
		c := c15Case{Caps: [][]string{adv, adv, adv}, Calls: calls}
		if v := c15Run(c); v.Fail != "" {
			t.Fatalf("C15: %s\ncase: %s", v.Fail, mustJSONString(c))
		}
	})
}

// FuzzC16: free message octets (a CR that is not part of a CRLF is completed
// to one: the property's domain), free partition into Write calls.
func FuzzC16(f *testing.F) {
	registerAll()
	for _, s := range []string{"a\n.\nb", ".", "..\r\n", "\r\n.\r\n", "a\r\n.\r\nMAIL FROM:<x@y>\r\n", "\n\n.\n", "x", "", ".\n.", "a\r\n.", "\xff\x00\n"} {
		f.Add([]byte(s), uint16(0), uint8(0))
		f.Add([]byte(s), uint16(0xffff), uint8(1))
		f.Add([]byte(s), uint16(0x5555), uint8(6))
	}
	f.Fuzz(func(t *testing.T, raw []byte, cutSeed uint16, flags uint8) {
		if len(raw) > 4000 {
			return
		}
		body := make([]byte, 0, len(raw)+8)
		for i, b := range raw {
			body = append(body, b)
			if b == '\r' && (i+1 >= len(raw) || raw[i+1] != '\n') {
				body = append(body, '\n')
			}
		}
		if maxStretch(c16Normalise(body)) > 1900 {
			return // the server's default line limit (2000) also covers message lines
		}
		c := c16Case{Body: body, LMTP: flags&1 != 0, Rcpts: []bool{true}, CloseTwice: flags&2 != 0}
		if flags&4 != 0 {
			c.Verdict = harness.Decision{Kind: "smtp", Code: 554, Enh: [3]int{5, 6, 0}, Msg: "scripted verdict"}
		}
		if flags&8 != 0 {
			c.Rcpts = []bool{true, false, true}
		}
		if flags&16 != 0 {
			c.Limited, c.LimitSlack = true, int(flags>>5)
		}
		if cutSeed != 0 {
			for k := 1; k < len(body) && k < 1500; k++ {
				if cutSeed&(1<<(uint(k)%16)) != 0 {
					c.Splits = append(c.Splits, k)
				}
			}
		}
		if v := c16Run(c); v.Fail != "" {
			t.Fatalf("C16: %s\ncase: %s", v.Fail, mustJSONString(c))
		}
	})
}

// c17TextDomain: what a reply can carry: lines of printable ASCII / non-ASCII
// UTF-8 text and TAB, separated by LF.
func c17TextDomain(s string) bool {
	if !utf8.ValidString(s) || len(s) > 400 || strings.Count(s, "\n") > 5 {
		return false
	}
	for _, r := range s {
		if r == '\n' || r == '\t' {
			continue
		}
		if r < 0x20 || r == 0x7f || (r >= 0x80 && r <= 0x9f) {
			return false
		}
	}
	return true
}

// FuzzC17: free message text, code and enhanced code of the backend's error.
func FuzzC17(f *testing.F) {
	registerAll()
	for _, s := range c17Msgs {
		f.Add(s, uint16(550), uint8(1), uint8(7), uint8(0))
		f.Add(s, uint16(451), uint8(0), uint8(0), uint8(9))
		f.Add(s, uint16(421), uint8(2), uint8(99), uint8(0x55))
	}
	f.Fuzz(func(t *testing.T, msg string, code uint16, enhMode, detail, where uint8) {
		if !c17TextDomain(msg) {
			return
		}
		d := harness.Decision{Kind: "smtp", Code: 400 + int(code)%200, Msg: msg}
		switch enhMode % 4 {
		case 0:
		case 1:
			d.Enh = [3]int{-1, -1, -1}
		case 2:
			d.Enh = [3]int{d.Code / 100, int(detail) % 10, int(detail)}
		default:
			if msg == "" {
				return
			}
			d = harness.Decision{Kind: "plain", Msg: msg}
		}
		c := c17Case{Source: []string{"NewSession", "Mail", "Rcpt", "Data"}[int(where)%4], D: d, Via: []string{"wire", "client"}[int(where>>2)%2],
			BDAT: where&8 != 0, Helo: where&16 != 0, SendMail: where&32 != 0}
		if where&64 != 0 {
			c.Prior = "data-refused"
		}
		if v := c17Run(c); v.Fail != "" {
			t.Fatalf("C17: %s\ncase: %s", v.Fail, mustJSONString(c))
		}
	})
}

// FuzzC03 / FuzzC04: the history generator driven by the coverage-guided
// fuzzer instead of rapid's own random source (rapid.MakeFuzz turns the
// fuzzer's octets into the generator's choices): coverage feedback from the
// library steers which histories are tried next. Same oracles as the rapid
// runs; a saved input replays under `go test -run FuzzC04/<name>`.
func FuzzC03(f *testing.F) {
	registerAll()
	f.Fuzz(rapid.MakeFuzz(func(rt *rapid.T) {
		c := genHistory(rt, 30, true)
		if v := c03Run(c); v.Fail != "" {
			rt.Fatalf("C03: %s\ncase: %s", v.Fail, mustJSONString(c))
		}
	}))
}

func FuzzC04(f *testing.F) {
	registerAll()
	f.Fuzz(rapid.MakeFuzz(func(rt *rapid.T) {
		c := genHistory(rt, 30, true)
		c.Discipline = genDiscipline(rt)
		c.CutSeed = rapid.IntRange(0, 1<<20).Draw(rt, "cutseed")
		if v := c04Run(c); v.Fail != "" {
			rt.Fatalf("C04: %s\ncase: %s", v.Fail, mustJSONString(c))
		}
	}))
}
