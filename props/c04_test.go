package props

import (
	"bytes"
	"fmt"
	"strings"
	"testing"

	"pgregory.net/rapid"

	"verif/harness"
)

// C04 - one well-formed reply per command, in order, reporting that command's
// outcome.

// deriveCuts turns a seed into a deterministic cut set for n octets.
func deriveCuts(seed, n int, mode string, lineEnds []int) []int {
	if n <= 1 {
		return nil
	}
	switch mode {
	case "one":
		return nil
	case "octet":
		out := make([]int, 0, n)
		for i := 1; i < n; i++ {
			out = append(out, i)
		}
		return out
	case "lines":
		var out []int
		for _, e := range lineEnds {
			if e > 0 && e < n {
				out = append(out, e)
			}
		}
		return out
	}
	x := uint64(seed)*6364136223846793005 + 1442695040888963407
	set := map[int]bool{}
	k := 1 + int(x>>60)
	for i := 0; i < k; i++ {
		x = x*6364136223846793005 + 1442695040888963407
		set[1+int((x>>33)%uint64(n-1))] = true
	}
	return sortedKeys(set)
}

// runPipelined re-sends the octets of the lock-step run without waiting for
// replies (except across STARTTLS, where pipelining is forbidden) and returns
// the complete plaintext output of the server.
func runPipelined(c hCase, ls hRun) ([]byte, string) {
	// "<discipline>+eof": the client half-closes together with its last
	// segment, and the server's connection reports the end of the stream
	// with the last octets (n > 0, io.EOF). Complete commands are commands
	// however the end of the connection behind them is reported.
	finalEOF := strings.HasSuffix(c.Discipline, "+eof")
	c.Discipline = strings.TrimSuffix(c.Discipline, "+eof")
	c.Cfg.EOFWithData = finalEOF
	r := harness.NewRig(c.Cfg, c.Script)
	bw := startBystander(c, r)
	w, _ := r.Dial()
	if st := w.WaitQuiet(); st != harness.QIdle {
		endBystander(bw)
		w.Finish()
		return nil, "server not idle after connect: " + st
	}
	var batch []byte
	var lineEnds []int
	last := false
	flush := func() {
		if len(batch) == 0 {
			return
		}
		if last && finalEOF {
			w.SendCutsFinal(batch, deriveCuts(c.CutSeed+len(batch), len(batch), c.Discipline, lineEnds))
		} else {
			w.SendCuts(batch, deriveCuts(c.CutSeed+len(batch), len(batch), c.Discipline, lineEnds))
		}
		batch, lineEnds = nil, nil
	}
	settle := func() string {
		st := w.WaitQuiet()
		for i := 0; st == harness.QGate && i < 64; i++ {
			r.B.ReleaseArrived()
			st = w.WaitQuiet()
		}
		return st
	}
	// hold: at one command boundary of the history the client sends what came
	// before, then only the first octets of the next command line, and looks:
	// every complete command must have been answered by then - a reply never
	// waits for input the server has no use for (RFC 5321 4.1.1: commands are
	// answered as they are received). Chosen by the cut seed; not under TLS
	// handshakes or barrier groups, whose steps have an order of their own.
	hold := -1
	if n := len(ls.steps); n >= 2 && c.CutSeed%3 == 0 && c.ShutdownAt == 0 {
		b := 1 + (c.CutSeed/3)%(n-1)
		ok := !ls.steps[b].Barrier && !ls.steps[b].TLS && len(ls.steps[b].Sent) > 0 && len(ls.steps[b].Sent[0]) >= 2
		for _, s := range ls.steps[:b] {
			if s.Barrier || s.TLS || s.Closed {
				ok = false
			}
		}
		if ok {
			hold = b
		}
	}
	holdFail := ""
	for si, s := range ls.steps {
		if si == hold {
			flush()
			if st := settle(); st != harness.QIdle {
				endBystander(bw)
				w.Finish()
				return nil, "pipelined run: server not idle at the held boundary: " + st
			}
			first := s.Sent[0]
			// strictly inside the command line (a group may carry a BDAT
			// payload behind its line)
			k := len(first) / 2
			if nl := bytes.IndexByte(first, '\n'); nl >= 0 && k > nl/2 {
				k = nl / 2
			}
			if k < 1 {
				k = 1
			}
			part := first[:k]
			w.Send(part)
			st := settle()
			w.Recv()
			want := append([]byte(nil), ls.banner...)
			for _, p := range ls.steps[:si] {
				want = append(want, p.Raw...)
			}
			if (st == harness.QIdle || st == harness.QClosed) && !bytes.Equal(w.Out, want) && holdFail == "" {
				holdFail = fmt.Sprintf("after %d complete commands and the first %d octets of the next line (%s) the server has written %s; the complete commands account for %s", si, len(part), q(part), q(w.Out), q(want))
			}
			// the rest of the line joins the following batch
			batch = append(batch, first[len(part):]...)
			lineEnds = append(lineEnds, len(batch))
			for _, g := range s.Sent[1:] {
				batch = append(batch, g...)
				lineEnds = append(lineEnds, len(batch))
			}
			continue
		}
		if c.ShutdownAt == si+1 {
			// the graceful Shutdown begins at the same place in the history:
			// everything before it has been dealt with
			flush()
			if st := settle(); st != harness.QIdle && st != harness.QClosed {
				endBystander(bw)
				w.Finish()
				return nil, "pipelined run: server not idle before Shutdown begins: " + st
			}
			if !r.BeginShutdown() {
				endBystander(bw)
				w.Finish()
				return nil, "pipelined run: graceful Shutdown did not close the listener (watchdog)"
			}
		}
		if s.Barrier {
			// each group on its own, the server settled in between
			flush()
			for _, g := range s.Sent {
				if st := settle(); st != harness.QIdle && st != harness.QClosed {
					endBystander(bw)
					w.Finish()
					return nil, "pipelined run: server not idle before a barrier group: " + st
				}
				w.Send(g)
			}
			continue
		}
		for _, g := range s.Sent {
			batch = append(batch, g...)
			lineEnds = append(lineEnds, len(batch))
		}
		if s.TLS {
			flush()
			st := w.WaitQuiet()
			for i := 0; st == harness.QGate && i < 64; i++ {
				r.B.ReleaseArrived()
				st = w.WaitQuiet()
			}
			if st != harness.QIdle {
				endBystander(bw)
				w.Finish()
				return nil, "pipelined run: server not idle before the TLS handshake: " + st
			}
			w.Recv() // take the plaintext replies off the wire before TLS reads from it
			if err := w.StartTLS(); err != nil {
				endBystander(bw)
				w.Finish()
				return nil, "pipelined run: TLS handshake: " + err.Error()
			}
			st = w.WaitQuiet()
			for i := 0; st == harness.QGate && i < 64; i++ {
				r.B.ReleaseArrived()
				st = w.WaitQuiet()
			}
			if st != harness.QIdle {
				endBystander(bw)
				w.Finish()
				return nil, "pipelined run: server not idle after the TLS handshake: " + st
			}
		}
	}
	if n := len(ls.steps); n > 0 && ls.steps[n-1].Closed && c.CutSeed%2 == 0 && len(batch) > 0 {
		// the server ends the connection at the last command: whatever the
		// client had already sent behind it changes nothing (and the replies
		// up to the closing one are on the wire all the same)
		batch = append(batch, "NOOP\r\nRSET\r\nNOO"...)
		lineEnds = append(lineEnds, len(batch))
	}
	last = true
	flush()
	// parked deliveries are released whenever the command loop waits for them
	for i := 0; i < 64; i++ {
		st := w.WaitQuiet()
		if st != harness.QGate {
			break
		}
		r.B.ReleaseArrived()
	}
	endBystander(bw)
	_, fin := w.Finish()
	if !fin {
		if w.Deadlock != "" {
			return nil, "DEADLOCK:" + w.Deadlock
		}
		return nil, "pipelined run: watchdog while finishing"
	}
	if p := r.Log.Panicked(); p != "" {
		return w.Out, "PANIC:" + p
	}
	if holdFail != "" {
		return w.Out, "HOLD:" + holdFail
	}
	return w.Out, ""
}

func c04Run(c hCase) Verdict {
	ls := runLockstep(c)
	if ls.deadlock != "" {
		return failf("deadlock", "%s\nhistory: %v", trimTo(ls.deadlock, 2500), cmdNames(c.Cmds))
	}
	if ls.incon != "" {
		return Verdict{Inconclusive: ls.incon}
	}
	v := Verdict{}
	if p := ls.rig.Log.Panicked(); p != "" {
		return failf("panic", "server logged a panic: %s", p)
	}
	// (a) syntax of everything the server wrote, with the enhanced-code rule
	if rs, err := harness.ParseReplies(ls.banner); err != nil || len(rs) != 1 || rs[0].Code != 220 {
		return failf("reply-syntax", "banner: %v %s", err, q(ls.banner))
	}
	m := newMonitor(c)
	m.preload(ls.pre)
	hasMsg := false
	if k := closedByShutdown(c, ls); k >= 0 {
		// judged up to there; when the server ends the connection is its own
		// business, so the pipelined run has nothing to be compared with
		ls.steps = ls.steps[:k]
		c.Discipline = ""
		v.Classes = append(v.Classes, "connection_ended_by_the_shutdown")
	}
	for i, s := range ls.steps {
		if s.PErr != nil {
			return failfTag(c04SyntaxTag(s), "step %d (%s, line %s): reply is not a valid RFC 5321 reply: %v", i, s.Cmd, q(firstSent(s)), s.PErr)
		}
		for _, r := range s.Replies {
			exempt := (s.Cmd.Op == "greet" || s.Cmd.Op == "helo") && r.Class() == 2
			if err := r.CheckEnhanced(exempt); err != nil {
				return failf("enhanced-code", "step %d (%s): %v", i, s.Cmd, err)
			}
		}
		// (c) reply count and kind per command: the monitor's prediction
		if e := m.step(s); e != "" {
			return failf("monitor", "step %d: %s\nhistory: %v\nreplies of the step: %v", i, e, cmdNames(c.Cmds[:i+1]), replyCodes(s.Replies))
		}
		if m.classes["message_via_data"] || m.classes["message_via_bdat"] {
			hasMsg = true
		}
	}
	for k := range m.classes {
		v.Classes = append(v.Classes, k)
	}
	if c.ShutdownAt > 0 && c.ShutdownAt <= len(ls.steps) {
		v.Classes = append(v.Classes, "graceful_shutdown_begun_mid_history")
	}
	if c.Discipline == "" {
		v.Classes = append(v.Classes, "lockstep_only")
		return v
	}
	// (b) metamorphic: pipelined / segmented == lock-step
	out, incon := runPipelined(c, ls)
	if strings.HasPrefix(incon, "DEADLOCK:") {
		return failf("deadlock", "pipelined run of %v: the server is deadlocked:\n%s", cmdNames(c.Cmds), trimTo(incon[9:], 2500))
	}
	if strings.HasPrefix(incon, "PANIC:") {
		return failf("panic", "pipelined run: server logged a panic: %s", incon[6:])
	}
	if strings.HasPrefix(incon, "HOLD:") {
		return failf("reply-withheld", "%s\nhistory: %v", incon[5:], cmdNames(c.Cmds))
	}
	if incon != "" {
		return Verdict{Inconclusive: incon}
	}
	v.Classes = append(v.Classes, "discipline_"+c.Discipline)
	v.NonTrivial = hasMsg
	if !bytes.Equal(out, ls.out) {
		return failf("pipelining-differs", "server output differs between lock-step and %s sending of the same octets\nhistory: %v\nlock-step: %s\npipelined: %s", c.Discipline, cmdNames(c.Cmds), q(ls.out), q(out))
	}
	return v
}

func failfTag(tag, format string, a ...interface{}) Verdict { return failf(tag, format, a...) }

func firstSent(s stepRec) []byte {
	if len(s.Sent) > 0 {
		return s.Sent[0]
	}
	return nil
}

// c04SyntaxTag classifies a reply-syntax fault: "echoed-control" when every
// offending octet of the reply is a C0 control or DEL that occurs in the command
// line the reply answers, else "reply-syntax".
func c04SyntaxTag(s stepRec) string {
	line := firstSent(s)
	body := bytes.TrimSuffix(s.Raw, []byte("\r\n"))
	bad := 0
	for _, l := range bytes.Split(body, []byte("\r\n")) {
		if len(l) < 4 {
			return "reply-syntax"
		}
		for _, ch := range l[4:] {
			if ch == '\t' || (ch >= 0x20 && ch <= 0x7e) || ch >= 0x80 {
				continue
			}
			bad++
			if !bytes.Contains(line, []byte{ch}) {
				return "reply-syntax"
			}
		}
	}
	if bad == 0 {
		return "reply-syntax"
	}
	return "echoed-control"
}

// ---- gated chunked-transfer schedules: verdict attribution ----

type c04Txn struct {
	Chunks  int              `json:"chunks"`  // chunks sent before the abort / including LAST for the final one
	Abort   string           `json:"abort"`   // "" (final: ends with LAST), RSET, EHLO, MAIL
	Gate    string           `json:"gate"`    // "", "pre", "post": where the delivery parks
	Verdict harness.Decision `json:"verdict"` // what the delivery returns when it is not aborted
	Early   bool             `json:"early"`   // aborted deliveries only: return the verdict instead of the reader's error
}

type c04SchedCase struct {
	LMTP bool     `json:"lmtp"`
	Txns []c04Txn `json:"txns"`
}

func c04SchedRun(c c04SchedCase) Verdict {
	script := harness.Script{}
	for k, tx := range c.Txns {
		p := harness.DataPlan{Read: harness.ReadPlan{Limit: -1}, Result: tx.Verdict, Honest: !tx.Early, GatePre: tx.Gate == "pre", GatePost: tx.Gate == "post"}
		if tx.Gate == "start" {
			script.GateStart = true
		}
		_ = k
		script.Data = append(script.Data, p)
	}
	r := harness.NewRig(harness.Config{LMTP: c.LMTP}, script)
	w, _ := r.Dial()
	if st := w.WaitQuiet(); st != harness.QIdle {
		w.Finish()
		return Verdict{Inconclusive: "server not idle after connect: " + st}
	}
	w.Recv()
	// drive lock-step; whenever the server parks on a gate, release it
	exch := func(b []byte) ([]harness.Reply, string) {
		w.Send(b)
		var raw []byte
		for i := 0; i < 10; i++ {
			st := w.WaitQuiet()
			raw = append(raw, w.Recv()...)
			switch st {
			case harness.QGate:
				r.B.ReleaseArrived()
				continue
			case harness.QIdle, harness.QClosed:
				rs, err := harness.ParseReplies(raw)
				if err != nil {
					return rs, "reply syntax: " + err.Error()
				}
				return rs, ""
			default:
				return nil, "watchdog"
			}
		}
		return nil, "gate loop"
	}
	if _, e := exch([]byte(greetWord(c.LMTP) + " cli\r\n")); e != "" {
		w.Finish()
		return Verdict{Inconclusive: e}
	}
	v := Verdict{Classes: nil}
	overlap := false
	for k, tx := range c.Txns {
		if rs, e := exch([]byte(fmt.Sprintf("MAIL FROM:<s%d@x>\r\nRCPT TO:<r%d@x>\r\n", k, k))); e != "" || len(rs) != 2 || rs[0].Code != 250 || rs[1].Code != 250 {
			w.Finish()
			return failf("envelope", "transaction %d: envelope not accepted: %v %s", k, codes(rs), e)
		}
		final := tx.Abort == ""
		for i := 0; i < tx.Chunks; i++ {
			payload := fmt.Sprintf("msg-%d-chunk-%d;", k, i)
			line := fmt.Sprintf("BDAT %d", len(payload))
			last := final && i == tx.Chunks-1
			if last {
				line += " LAST"
			}
			rs, e := exch([]byte(line + "\r\n" + payload))
			if e != "" {
				w.Finish()
				return Verdict{Inconclusive: fmt.Sprintf("transaction %d chunk %d: %s", k, i, e)}
			}
			if !last {
				if len(rs) != 1 || rs[0].Code != 250 {
					w.Finish()
					return failf("chunk-reply", "transaction %d chunk %d answered %v, want 250", k, i, codes(rs))
				}
				continue
			}
			// (d) verdict attribution for the message that was completed
			wantCode := decisionCode(tx.Verdict, 554)
			if len(rs) != 1 {
				w.Finish()
				return failf("final-count", "transaction %d: expected one final reply, got %v", k, codes(rs))
			}
			if rs[0].Code != wantCode {
				w.Finish()
				return failf("verdict-attribution", "transaction %d (message msg-%d) was answered %s, but its own delivery returned %+v", k, k, rs[0], tx.Verdict)
			}
			if !tx.Verdict.OK() && !strings.Contains(rs[0].Text(), tx.Verdict.Msg) {
				w.Finish()
				return failf("verdict-attribution", "transaction %d: negative reply %s does not carry its own error %q", k, rs[0], tx.Verdict.Msg)
			}
		}
		switch tx.Abort {
		case "RSET":
			if rs, e := exch([]byte("RSET\r\n")); e != "" || len(rs) != 1 || rs[0].Code != 250 {
				w.Finish()
				return failf("abort-reply", "RSET answered %v %s", codes(rs), e)
			}
		case "EHLO":
			if rs, e := exch([]byte(greetWord(c.LMTP) + " again\r\n")); e != "" || len(rs) != 1 || rs[0].Code != 250 {
				w.Finish()
				return failf("abort-reply", "repeated greeting answered %v %s", codes(rs), e)
			}
		}
		if tx.Abort != "" && tx.Gate != "" {
			overlap = true
		}
	}
	_, fin := w.Finish()
	if !fin {
		return finishFail(w)
	}
	if p := r.Log.Panicked(); p != "" {
		return failf("panic", "server logged a panic: %s", p)
	}
	des := dataEvents(r.B.Events())
	if len(des) != len(c.Txns) {
		return failf("data-calls", "expected %d Data calls, got %d: %s", len(c.Txns), len(des), traceString(r.B.Events()))
	}
	for k, e := range des {
		want := ""
		for i := 0; i < c.Txns[k].Chunks; i++ {
			want += fmt.Sprintf("msg-%d-chunk-%d;", k, i)
		}
		if c.Txns[k].Abort == "" {
			if string(e.Data.Bytes) != want || !e.Data.EOF {
				return failf("message-id", "delivery %d read %s (err %q), want %q and EOF", k, q(e.Data.Bytes), e.Data.ErrStr, want)
			}
		} else {
			if e.Data.EOF {
				return failf("eof-aborted", "aborted delivery %d saw EOF", k)
			}
			if !strings.HasPrefix(want, string(e.Data.Bytes)) {
				return failf("message-id", "aborted delivery %d read %s, not a prefix of its own message %q", k, q(e.Data.Bytes), want)
			}
		}
	}
	v.NonTrivial = overlap
	if overlap {
		v.Classes = append(v.Classes, "aborted_delivery_gated")
	}
	return v
}

var (
	c04Sub   *subCheck[hCase]
	c04Ctl   *subCheck[hCase]
	c04Sched *subCheck[c04SchedCase]
)

func init() {
	registrars = append(registrars, func() {
		c04Sub = newSub("C04", "rapid", c04Run)
		c04Ctl = newSub("C04", "control-octets", c04Run)
		c04Sched = newSub("C04", "schedules", c04SchedRun)
	})
	// D18 matcher (only consulted while KNOWN_FINDINGS.txt lists it as open)
	matchers["echoed-control"] = func(caseJSON []byte, v Verdict) bool { return v.Tag == "echoed-control" }
}

func genDiscipline(t *rapid.T) string {
	ds := []string{"one", "one", "random", "random", "lines", "one+eof", "random+eof", "lines+eof"}
	if thorough() {
		ds = append(ds, "octet")
	}
	return rapid.SampledFrom(ds).Draw(t, "discipline")
}

func TestC04(t *testing.T) {
	registerAll()
	st.Rule = "cases = C03 histories x sending discipline (lock-step; the same octets in one segment / random segmentation / one segment per line / one octet per segment; optionally the end of the stream reported together with the last octets) and gated chunked-transfer schedules with per-message verdicts; oracles: strict RFC 5321 reply grammar + RFC 2034 enhanced-code rule on every reply, reply count per command (monitor), byte-identical output lock-step vs pipelined, final reply == that message's own verdict; non-trivial = pipelined/segmented history containing a delivered message, or a schedule with an aborted gated delivery; distinct = hash of the whole case"
	if !regress(t, "C04") {
		return
	}
	maxLen := pickTier(25, 40)
	ctlOpen := knownOpen("C04", "echoed-control")
	c04Sub.rapidCheck(t, pickTier(8000, 60000), func(rt *rapid.T) hCase {
		c := genHistory(rt, maxLen, !ctlOpen)
		c.Discipline = genDiscipline(rt)
		c.CutSeed = rapid.IntRange(0, 1<<20).Draw(rt, "cutseed")
		return c
	})
	if t.Failed() {
		return
	}
	// control octets in command lines (exercises the D18 matcher when open)
	c04Ctl.rapidCheck(t, pickTier(600, 12000), func(rt *rapid.T) hCase {
		c := genHistory(rt, 8, true)
		for i := 0; i < 3; i++ {
			pos := rapid.IntRange(0, len(c.Cmds)).Draw(rt, "pos")
			g := hCmd{Op: "garbage", Body: genGarbageLine(rt, true)}
			if rapid.Bool().Draw(rt, "greetctl") {
				g = hCmd{Op: "greet", Arg: "h" + string(rune(rapid.IntRange(1, 31).Filter(func(x int) bool { return x != 10 && x != 13 && x != 32 }).Draw(rt, "ctl"))) + "x"}
			}
			c.Cmds = append(c.Cmds[:pos], append([]hCmd{g}, c.Cmds[pos:]...)...)
		}
		c.Discipline = "one"
		return c
	})
	if t.Failed() {
		return
	}
	c04Sched.rapidCheck(t, pickTier(800, 15000), func(rt *rapid.T) c04SchedCase {
		c := c04SchedCase{LMTP: rapid.Bool().Draw(rt, "lmtp")}
		n := rapid.IntRange(2, 3).Draw(rt, "ntxn")
		for k := 0; k < n; k++ {
			tx := c04Txn{Chunks: rapid.IntRange(1, 3).Draw(rt, "chunks"), Gate: rapid.SampledFrom([]string{"", "pre", "post", "start"}).Draw(rt, "gate")}
			if k < n-1 {
				tx.Abort = rapid.SampledFrom([]string{"RSET", "EHLO", "RSET"}).Draw(rt, "abort")
				tx.Early = rapid.Bool().Draw(rt, "early")
			}
			switch rapid.IntRange(0, 2).Draw(rt, "verdict") {
			case 1:
				tx.Verdict = harness.Decision{Kind: "smtp", Code: 550 + k, Enh: [3]int{5, 6, k}, Msg: fmt.Sprintf("verdict-of-message-%d", k)}
			case 2:
				// the text identifies the message: only flavours that keep it
				tx.Verdict = harness.Decision{Kind: "plain", Msg: fmt.Sprintf("plain-verdict-of-message-%d", k), Flavour: rapid.SampledFrom([]string{"", "temp", "timeout", "wrapped"}).Draw(rt, "flavour")}
			}
			c.Txns = append(c.Txns, tx)
		}
		return c
	})
}
