// Package ref holds the reference models the oracles compare the library with.
// Each is written from the RFCs and the property statements, deliberately in a
// different style from the implementation.
package ref

import "bytes"

var crlf = []byte("\r\n")

// Unstuff is the reference for DATA (RFC 5321 section 4.5.2): s is the octet
// stream that follows the 354 reply. Lines are delimited by CRLF only. The first
// line that consists of a single '.' ends the message; every other line that
// starts with '.' loses that one dot. msg is what the backend must read, resume
// the offset in s of the first octet after the end marker. ok is false when s
// contains no end marker.
func Unstuff(s []byte) (msg []byte, resume int, ok bool) {
	msg = []byte{}
	pos := 0
	for {
		j := bytes.Index(s[pos:], crlf)
		if j < 0 {
			return nil, 0, false
		}
		line := s[pos : pos+j]
		if len(line) == 1 && line[0] == '.' {
			return msg, pos + 3, true
		}
		if len(line) > 0 && line[0] == '.' {
			line = line[1:]
		}
		msg = append(msg, line...)
		msg = append(msg, crlf...)
		pos += j + 2
	}
}

// Terminator returns the shortest legal end marker for a body: ".CRLF" when
// the body is empty or ends with CRLF, else "CRLF.CRLF".
func Terminator(body []byte) []byte {
	if len(body) == 0 || bytes.HasSuffix(body, crlf) {
		return []byte(".\r\n")
	}
	return []byte("\r\n.\r\n")
}

// Stuff is the sender side: the octets to put on the wire for msg (dot added to
// every line that starts with one), without the end marker. msg is taken as is;
// lines are CRLF-delimited.
func Stuff(msg []byte) []byte {
	var out []byte
	bol := true
	for i := 0; i < len(msg); i++ {
		c := msg[i]
		if bol && c == '.' {
			out = append(out, '.')
		}
		out = append(out, c)
		bol = c == '\n' && i > 0 && msg[i-1] == '\r'
	}
	return out
}
