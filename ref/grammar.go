package ref

import (
	"math/big"
	"strings"
	"time"
	"unicode/utf8"
)

// Three-way classifier for MAIL / RCPT command arguments (DESIGN.md appendix
// B). It is written from RFC 5321 4.1.2, 1870, 6152, 3030, 6531, 8689, 3461,
// 6533, 4954 and 7293, independently of the implementation under test.

type Flags struct {
	UTF8, RequireTLS, BinaryMIME, DSN, RRVS bool
}

const (
	Valid = iota
	Invalid
	Unspecified
)

// MailExp / RcptExp are the expected decoded parameters of a valid line.
type MailExp struct {
	Body       string
	Size       int64
	RequireTLS bool
	UTF8       bool
	Return     string
	EnvelopeID string
	Auth       *string
}

type RcptExp struct {
	Notify    []string
	ORcptType string
	ORcpt     string
	RRVS      time.Time
	HasRRVS   bool
}

type Result struct {
	Class   int
	Reasons []string // why not valid
	// Need504: the only definite fault is a parameter of a disabled extension.
	Need504 bool
	// Mailboxes: acceptable values for the address the backend receives
	// (a quoted local part may be passed on quoted or unquoted).
	Mailboxes []string
	Mail      MailExp
	Rcpt      RcptExp
}

type verdicts struct {
	invalid  []string
	disabled []string
	unspec   []string
}

func (v *verdicts) inv(s string)  { v.invalid = append(v.invalid, s) }
func (v *verdicts) dis(s string)  { v.disabled = append(v.disabled, s) }
func (v *verdicts) unsp(s string) { v.unspec = append(v.unspec, s) }

func isAtext(c byte) bool {
	switch {
	case c >= 'a' && c <= 'z', c >= 'A' && c <= 'Z', c >= '0' && c <= '9':
		return true
	}
	return strings.IndexByte("!#$%&'*+-/=?^_`{|}~", c) >= 0
}

func isLetDig(c byte) bool {
	return (c >= 'a' && c <= 'z') || (c >= 'A' && c <= 'Z') || (c >= '0' && c <= '9')
}

// Classify judges the argument of a MAIL (mail=true) or RCPT command: arg is
// everything after "MAIL " / "RCPT " on the command line.
func Classify(mail bool, arg string, f Flags) Result {
	// A run of CRs (and blanks) at the end of the line can be read in two
	// ways: as line-end noise that a parser trims, or - CR is not SMTP white
	// space - as part of the last token. A line is definitely invalid only
	// if it is under both readings; otherwise it is unspecified.
	blanks := strings.TrimRight(arg, " \t")
	if core := strings.TrimRight(blanks, " \t\r"); core != blanks {
		a := classify(mail, core, f, true)
		b := classify(mail, blanks, f, blanks != arg)
		if a.Class == Invalid && b.Class == Invalid {
			return a
		}
		res := Result{Class: Unspecified, Reasons: append([]string{"CR at the end of the line"}, append(a.Reasons, b.Reasons...)...)}
		res.Mailboxes = append(append([]string(nil), a.Mailboxes...), b.Mailboxes...)
		res.Mail, res.Rcpt = a.Mail, a.Rcpt
		return res
	}
	return classify(mail, blanks, f, blanks != arg)
}

func classify(mail bool, arg string, f Flags, trimmed bool) Result {
	var v verdicts
	res := Result{}
	prefix := "TO:"
	if mail {
		prefix = "FROM:"
	}
	if t := strings.TrimLeft(arg, " \t"); t != arg {
		v.unsp("extra whitespace after the verb")
		arg = t
	}
	if trimmed {
		v.unsp("trailing whitespace")
	}
	if len(arg) < len(prefix) || !strings.EqualFold(arg[:len(prefix)], prefix) {
		v.inv("missing " + prefix)
		return finish(res, v)
	}
	s := arg[len(prefix):]
	// optional single space before the path (tolerated by the package's own tests)
	if strings.HasPrefix(s, " ") {
		s = s[1:]
	}
	if strings.HasPrefix(s, " ") || strings.HasPrefix(s, "\t") {
		v.unsp("more whitespace before the path")
		s = strings.TrimLeft(s, " \t")
	}
	rest, mboxes := parsePath(mail, s, f, &v)
	res.Mailboxes = mboxes
	if len(v.invalid) > 0 {
		return finish(res, v)
	}
	// parameters
	if rest != "" {
		switch {
		case rest[0] != ' ':
			v.unsp("no space between path and what follows")
		case strings.HasSuffix(rest, " ") || strings.Contains(rest, "  ") || strings.ContainsAny(rest, "\t"):
			v.unsp("whitespace variant between parameters")
		}
		seen := map[string]bool{}
		// SMTP white space is SP (and, leniently, HT) - not every Unicode space
		for _, tok := range strings.FieldsFunc(rest, func(r rune) bool { return r == ' ' || r == '\t' }) {
			key, val, hasVal := tok, "", false
			if i := strings.IndexByte(tok, '='); i >= 0 {
				key, val, hasVal = tok[:i], tok[i+1:], true
			}
			uk := strings.ToUpper(key)
			if seen[uk] {
				v.unsp("duplicate parameter " + uk)
			}
			seen[uk] = true
			if hasVal && strings.Contains(val, "=") {
				v.inv("parameter with a second '=': " + tok)
				continue
			}
			if !esmtpParamShape(key, val, hasVal) {
				// Outside the generic esmtp-param grammar (RFC 5321 4.1.2):
				// whatever else is wrong with it, a syntax error (501) is as
				// good an answer as "not implemented" (504).
				v.unsp("parameter outside the esmtp-param grammar: " + tok)
			}
			if mail {
				classifyMailParam(uk, val, hasVal, f, &v, &res.Mail)
			} else {
				classifyRcptParam(uk, val, hasVal, f, &v, &res.Rcpt)
			}
		}
	}
	return finish(res, v)
}

// esmtpParamShape: esmtp-keyword = (ALPHA / DIGIT) *(ALPHA / DIGIT / "-"),
// esmtp-value = 1*(%d33-60 / %d62-126) (octets >= 0x80 admitted: RFC 6531).
func esmtpParamShape(key, val string, hasVal bool) bool {
	if key == "" || !isLetDig(key[0]) {
		return false
	}
	for i := 1; i < len(key); i++ {
		if !isLetDig(key[i]) && key[i] != '-' {
			return false
		}
	}
	if !hasVal {
		return true
	}
	if val == "" {
		return false
	}
	for i := 0; i < len(val); i++ {
		if b := val[i]; b <= 32 || b == 127 || b == '=' {
			return false
		}
	}
	return true
}

func finish(res Result, v verdicts) Result {
	switch {
	case len(v.invalid) > 0:
		res.Class = Invalid
		res.Reasons = append(append(v.invalid, v.disabled...), v.unspec...)
	case len(v.disabled) > 0:
		res.Class = Invalid
		res.Need504 = len(v.unspec) == 0
		res.Reasons = append(v.disabled, v.unspec...)
	case len(v.unspec) > 0:
		res.Class = Unspecified
		res.Reasons = v.unspec
	default:
		res.Class = Valid
	}
	return res
}

// parsePath consumes a Reverse-path / Forward-path from s and returns the
// remainder and the acceptable mailbox values.
func parsePath(mail bool, s string, f Flags, v *verdicts) (rest string, mboxes []string) {
	if s == "" {
		v.inv("empty path")
		return "", nil
	}
	if strings.HasPrefix(s, "<>") {
		if !mail {
			v.inv("null path on RCPT")
			return "", nil
		}
		return s[2:], []string{""}
	}
	bracket := s[0] == '<'
	// A quoted string can only be the local part, i.e. it starts the mailbox
	// (right after '<' and after the optional source route).
	scan := func(from int, stop string) (end int, unterminated bool) {
		i := from
		if i < len(s) && s[i] == '@' {
			if j := strings.IndexByte(s[i:], ':'); j >= 0 && !strings.ContainsAny(s[i:i+j], stop) {
				i += j + 1
			}
		}
		if i < len(s) && s[i] == '"' {
			i++
			closed := false
			for i < len(s) {
				if s[i] == '\\' {
					i += 2
					continue
				}
				if s[i] == '"' {
					closed = true
					i++
					break
				}
				i++
			}
			if !closed {
				return -1, true
			}
		}
		for ; i < len(s); i++ {
			if strings.IndexByte(stop, s[i]) >= 0 {
				return i, false
			}
		}
		return len(s), false
	}
	var inner string
	if rt := strings.TrimPrefix(s, "<"); strings.HasPrefix(rt, "@") {
		colon := strings.IndexByte(rt, ':')
		if colon < 0 {
			v.inv("source route without ':'")
			return "", nil
		}
		if strings.ContainsAny(rt[:colon], "<> \t") {
			// receivers ignore the route; what garbage it may hold is not judged
			v.unsp("space or angle bracket inside the source route")
			return "", nil
		}
	}
	if bracket {
		end, unterminated := scan(1, ">")
		if unterminated {
			v.inv("unterminated quoted string")
			return "", nil
		}
		if end >= len(s) {
			v.inv("'<' without '>'")
			return "", nil
		}
		inner, rest = s[1:end], s[end+1:]
	} else {
		end, unterminated := scan(0, " \t")
		if unterminated {
			v.inv("unterminated quoted string")
			return "", nil
		}
		inner, rest = s[:end], s[end:]
		unq := inner
		if strings.HasPrefix(unq, "@") {
			// the quoted local part, if any, follows the source route
			if j := strings.IndexByte(unq, ':'); j >= 0 {
				unq = unq[j+1:]
			}
		}
		if strings.HasPrefix(unq, "\"") {
			// skip the quoted local part: anything may occur inside it
			for i := 1; i < len(unq); i++ {
				if unq[i] == '\\' {
					i++
				} else if unq[i] == '"' {
					unq = unq[i+1:]
					break
				}
			}
		}
		if strings.Contains(unq, ">") {
			v.inv("'>' without '<'")
			return "", nil
		}
		// a '<' further in: special character in the local part (invalid,
		// judged below) or odd domain syntax (unspecified)
	}
	// source route
	if strings.HasPrefix(inner, "@") {
		i := strings.IndexByte(inner, ':')
		if i < 0 {
			v.inv("source route without ':'")
			return "", nil
		}
		route := inner[:i]
		for _, hop := range strings.Split(route, ",") {
			if !strings.HasPrefix(hop, "@") || !strictDomain(hop[1:]) {
				v.unsp("lenient source route")
			}
		}
		inner = inner[i+1:]
	}
	mboxes = parseMailbox(inner, f, v)
	return rest, mboxes
}

func strictDomain(d string) bool {
	if d == "" {
		return false
	}
	if d[0] == '[' {
		if d[len(d)-1] != ']' || len(d) < 3 {
			return false
		}
		in := d[1 : len(d)-1]
		for _, c := range []byte(in) {
			if c < 33 || c > 126 || c == '[' || c == ']' || c == '\\' {
				return false
			}
		}
		// RFC 5321 4.1.3: a dotted quad, or Standardized-tag ":" 1*dcontent
		// (IPv6 being the only tag in use). Anything else between brackets -
		// and content with '<' or '>', which no literal in use has and which
		// every path parser cuts at - is lenient syntax at best (unspecified).
		// A '"' is dcontent by the letter of the ABNF, but no literal in use
		// has one and an address scanner may take it for the start of a
		// quoted string (the client's own does, and refuses): unspecified.
		if strings.ContainsAny(in, "<>\"") {
			return false
		}
		if i := strings.IndexByte(in, ':'); i > 0 && i < len(in)-1 {
			tag := in[:i]
			for j := 0; j < len(tag); j++ {
				if !isLetDig(tag[j]) && !(tag[j] == '-' && j > 0 && j < len(tag)-1) {
					return false
				}
			}
			if strings.EqualFold(tag, "IPv6") {
				// the one registered tag: its content is an IPv6 address, not
				// any dcontent (how strictly it is read is the receiver's business)
				for _, c := range []byte(in[i+1:]) {
					if upperHex(c&^0x20) < 0 && !(c >= '0' && c <= '9') && c != ':' && c != '.' {
						return false
					}
				}
			}
			return true
		}
		quad := strings.Split(in, ".")
		if len(quad) != 4 {
			return false
		}
		for _, n := range quad {
			if len(n) < 1 || len(n) > 3 {
				return false
			}
			for j := 0; j < len(n); j++ {
				if n[j] < '0' || n[j] > '9' {
					return false
				}
			}
		}
		return true
	}
	for _, label := range strings.Split(d, ".") {
		if label == "" || label[0] == '-' || label[len(label)-1] == '-' {
			return false
		}
		for _, c := range []byte(label) {
			if !isLetDig(c) && c != '-' {
				return false
			}
		}
	}
	return true
}

// parseMailbox judges local-part "@" domain and returns the acceptable values.
func parseMailbox(m string, f Flags, v *verdicts) []string {
	if m == "" {
		v.inv("empty mailbox")
		return nil
	}
	var local, unq, dom string
	quoted := false
	if m[0] == '"' {
		quoted = true
		i := 1
		var sb strings.Builder
		closed := false
		for i < len(m) {
			c := m[i]
			if c == '\\' {
				if i+1 >= len(m) {
					break
				}
				sb.WriteByte(m[i+1])
				i += 2
				continue
			}
			if c == '"' {
				closed = true
				i++
				break
			}
			if c < 32 || c == 127 {
				v.unsp("control character in quoted string")
			}
			if c >= 0x80 && !f.UTF8 {
				v.unsp("8-bit octet without SMTPUTF8")
			}
			sb.WriteByte(c)
			i++
		}
		if !closed {
			v.inv("unterminated quoted string")
			return nil
		}
		local, unq = m[:i], sb.String()
		if i >= len(m) || m[i] != '@' {
			v.inv("no '@' after the local part")
			return nil
		}
		dom = m[i+1:]
		if unq == "" {
			v.inv("empty local part")
			return nil
		}
	} else {
		i := strings.IndexByte(m, '@')
		if i < 0 {
			v.inv("no '@'")
			return nil
		}
		local, dom = m[:i], m[i+1:]
		if local == "" {
			v.inv("empty local part")
			return nil
		}
		if strings.ContainsAny(local, "()<>[]:;\\,\" \t") {
			v.inv("special character in an unquoted local part")
			return nil
		}
		if strings.HasPrefix(local, ".") || strings.HasSuffix(local, ".") || strings.Contains(local, "..") {
			v.unsp("dot placement in local part")
		}
		for _, c := range []byte(local) {
			switch {
			case isAtext(c) || c == '.':
			case c >= 0x80:
				if !f.UTF8 {
					v.unsp("8-bit octet without SMTPUTF8")
				}
			default:
				v.unsp("non-atext octet in local part")
			}
		}
		if f.UTF8 && !utf8.ValidString(local) {
			v.unsp("invalid UTF-8")
		}
		unq = local
	}
	if dom == "" {
		v.inv("empty domain")
		return nil
	}
	if strings.ContainsAny(dom, " \t>") {
		// cannot happen for bracketed / bare paths as cut above, but the AUTH
		// mailbox comes here unbracketed
		v.inv("space or '>' in domain")
		return nil
	}
	if !strictDomain(dom) {
		if f.UTF8 && utf8.ValidString(dom) && !strings.ContainsAny(dom, "@\\\"()<>[],;:") && hasNonASCII(dom) && !hasControl(dom) {
			// U-label domain under SMTPUTF8: fine (control characters and
			// DEL are not text: lenient at best)
		} else {
			v.unsp("lenient domain syntax")
		}
	}
	if quoted {
		return []string{local + "@" + dom, unq + "@" + dom}
	}
	return []string{local + "@" + dom}
}

func hasControl(s string) bool {
	for i := 0; i < len(s); i++ {
		if s[i] < 0x20 || s[i] == 0x7f {
			return true
		}
	}
	return false
}

func hasNonASCII(s string) bool {
	for i := 0; i < len(s); i++ {
		if s[i] >= 0x80 {
			return true
		}
	}
	return false
}

// Xtext decoding outcomes.
const (
	XtOK     = iota
	XtBadHex // "+" not followed by two upper-case hex digits, or a literal "="
	XtOdd    // an octet outside 33..126 occurs literally (8-bit, control): not xtext, but not judged
)

// XtextDecode2 is RFC 3461 section 4: xchar = 33-42 / 44-60 / 62-126, hexchar =
// "+" 2(upper-case HEXDIG).
func XtextDecode2(s string) (string, int) {
	var out []byte
	status := XtOK
	for i := 0; i < len(s); i++ {
		c := s[i]
		switch {
		case c == '+':
			if i+2 >= len(s) {
				return "", XtBadHex
			}
			h, l := upperHex(s[i+1]), upperHex(s[i+2])
			if h < 0 || l < 0 {
				return "", XtBadHex
			}
			out = append(out, byte(h<<4|l))
			i += 2
		case c == '=':
			return "", XtBadHex
		case c < 33 || c > 126:
			status = XtOdd
			out = append(out, c)
		default:
			out = append(out, c)
		}
	}
	return string(out), status
}

// XtextDecode reports ok only for well-formed xtext.
func XtextDecode(s string) (string, bool) {
	d, st := XtextDecode2(s)
	return d, st == XtOK
}

func upperHex(c byte) int {
	switch {
	case c >= '0' && c <= '9':
		return int(c - '0')
	case c >= 'A' && c <= 'F':
		return int(c-'A') + 10
	}
	return -1
}

func printableASCII(s string) bool {
	for i := 0; i < len(s); i++ {
		if s[i] < 0x20 || s[i] > 0x7e {
			return false
		}
	}
	return true
}

func classifyMailParam(key, val string, hasVal bool, f Flags, v *verdicts, m *MailExp) {
	switch key {
	case "SIZE":
		if !hasVal || val == "" {
			v.inv("SIZE without a value")
			return
		}
		for _, c := range []byte(val) {
			if c < '0' || c > '9' {
				v.inv("SIZE is not a number")
				return
			}
		}
		if len(val) > 20 {
			v.unsp("SIZE longer than 20 digits")
			return
		}
		n, _ := new(big.Int).SetString(val, 10)
		if !n.IsInt64() {
			v.unsp("SIZE does not fit 63 bits")
			return
		}
		if len(val) > 1 && val[0] == '0' {
			v.unsp("SIZE with leading zeros")
		}
		m.Size = n.Int64()
	case "BODY":
		switch strings.ToUpper(val) {
		case "7BIT", "8BITMIME":
			m.Body = strings.ToUpper(val)
		case "BINARYMIME":
			if !f.BinaryMIME {
				v.dis("BODY=BINARYMIME with BINARYMIME disabled")
				return
			}
			m.Body = "BINARYMIME"
		default:
			v.inv("BODY value outside the enumeration")
		}
	case "SMTPUTF8":
		if !f.UTF8 {
			v.dis("SMTPUTF8 disabled")
			return
		}
		if hasVal {
			v.unsp("value on SMTPUTF8")
		}
		m.UTF8 = true
	case "REQUIRETLS":
		if !f.RequireTLS {
			v.dis("REQUIRETLS disabled")
			return
		}
		if hasVal {
			v.unsp("value on REQUIRETLS")
		}
		// REQUIRETLS on a plaintext connection is not specified here
		v.unsp("REQUIRETLS outside TLS")
		m.RequireTLS = true
	case "RET":
		if !f.DSN {
			v.dis("RET with DSN disabled")
			return
		}
		switch strings.ToUpper(val) {
		case "FULL", "HDRS":
			m.Return = strings.ToUpper(val)
		default:
			v.inv("RET value outside the enumeration")
		}
	case "ENVID":
		if !f.DSN {
			v.dis("ENVID with DSN disabled")
			return
		}
		d, xs := XtextDecode2(val)
		switch {
		case xs == XtBadHex:
			v.inv("ENVID is not xtext")
		case xs == XtOdd:
			v.unsp("literal octet outside the xtext range in ENVID")
		case d == "":
			v.inv("empty ENVID")
		case !printableASCII(d):
			v.inv("ENVID decodes to non-printable octets")
		case len(d) > 100:
			v.unsp("ENVID longer than 100")
		default:
			m.EnvelopeID = d
		}
	case "AUTH":
		d, xs := XtextDecode2(val)
		switch {
		case xs == XtBadHex:
			v.inv("AUTH is not xtext")
		case xs == XtOdd:
			v.unsp("literal octet outside the xtext range in AUTH")
		case d == "":
			v.inv("empty AUTH")
		case d == "<>":
			e := ""
			m.Auth = &e
		default:
			var sub verdicts
			mb := parseMailbox(d, Flags{}, &sub)
			switch {
			case len(sub.invalid) > 0:
				v.inv("AUTH value is not a mailbox: " + sub.invalid[0])
			case len(sub.unspec) > 0:
				v.unsp("AUTH mailbox only leniently valid")
			case len(mb) > 1:
				v.unsp("AUTH mailbox with quoted local part")
			default:
				a := mb[0]
				m.Auth = &a
			}
		}
	default:
		v.inv("unknown MAIL parameter " + key)
	}
}

func classifyRcptParam(key, val string, hasVal bool, f Flags, v *verdicts, r *RcptExp) {
	switch key {
	case "NOTIFY":
		if !f.DSN {
			v.dis("NOTIFY with DSN disabled")
			return
		}
		if val == "" {
			v.inv("empty NOTIFY")
			return
		}
		seen := map[string]bool{}
		var list []string
		for _, it := range strings.Split(val, ",") {
			u := strings.ToUpper(it)
			switch u {
			case "NEVER", "SUCCESS", "FAILURE", "DELAY":
			default:
				v.inv("unknown NOTIFY item")
				return
			}
			if seen[u] {
				v.inv("repeated NOTIFY item")
				return
			}
			seen[u] = true
			list = append(list, u)
		}
		if seen["NEVER"] && len(list) > 1 {
			v.inv("NEVER combined")
			return
		}
		r.Notify = list
	case "ORCPT":
		if !f.DSN {
			v.dis("ORCPT with DSN disabled")
			return
		}
		i := strings.IndexByte(val, ';')
		if i <= 0 || i == len(val)-1 {
			v.inv("ORCPT without type;address")
			return
		}
		typ, addr := strings.ToUpper(val[:i]), val[i+1:]
		switch typ {
		case "RFC822":
			d, xs := XtextDecode2(addr)
			switch {
			case xs == XtBadHex:
				v.inv("ORCPT address is not xtext")
			case xs == XtOdd:
				v.unsp("literal octet outside the xtext range in ORCPT")
			case d == "":
				v.inv("empty ORCPT address")
			case !printableASCII(d):
				v.inv("rfc822 ORCPT decodes to non-printable octets")
			default:
				r.ORcptType, r.ORcpt = "RFC822", d
			}
		case "UTF-8":
			d, ok, raw8 := UTF8AddrDecode(addr)
			switch {
			case !ok && func() bool { _, ok2, _ := UTF8AddrDecode(upperHexpoints(addr)); return ok2 }():
				// ABNF literals are case-insensitive, so HEXDIG formally admits
				// a-f; RFC 6533 prose and RFC 3461 practice use upper case
				v.unsp("hexpoint written with lower-case digits")
			case !ok:
				v.inv("ORCPT is not utf-8-addr-xtext")
			case d == "" && raw8:
				v.unsp("ORCPT with octets that are not UTF-8")
			case d == "":
				v.inv("empty ORCPT address")
			default:
				if raw8 && !f.UTF8 {
					v.unsp("utf-8-addr-unitext without SMTPUTF8")
				}
				r.ORcptType, r.ORcpt = "UTF-8", d
			}
		default:
			v.inv("unknown ORCPT address type")
		}
	case "RRVS":
		if !f.RRVS {
			v.dis("RRVS disabled")
			return
		}
		ts := val
		if i := strings.IndexByte(val, ';'); i >= 0 {
			ts = val[:i]
			if suf := val[i+1:]; suf != "C" && suf != "R" {
				v.unsp("RRVS action other than C / R")
			}
		}
		t, ok := parseRFC3339Strict(ts)
		if !ok {
			if _, lerr := time.Parse(time.RFC3339, strings.ToUpper(ts)); lerr == nil {
				v.unsp("RRVS date-time only leniently valid (case)")
			} else {
				v.inv("RRVS is not a date-time")
			}
			return
		}
		r.RRVS, r.HasRRVS = t, true
	default:
		v.inv("unknown RCPT parameter " + key)
	}
}

// parseRFC3339Strict accepts exactly RFC 3339 date-time with upper-case T and
// Z (written out by hand, not via the standard library layout matcher).
func parseRFC3339Strict(s string) (time.Time, bool) {
	num := func(a string) (int, bool) {
		n := 0
		if a == "" {
			return 0, false
		}
		for _, c := range []byte(a) {
			if c < '0' || c > '9' {
				return 0, false
			}
			n = n*10 + int(c-'0')
		}
		return n, true
	}
	if len(s) < 20 || s[4] != '-' || s[7] != '-' || s[10] != 'T' || s[13] != ':' || s[16] != ':' {
		return time.Time{}, false
	}
	y, ok1 := num(s[0:4])
	mo, ok2 := num(s[5:7])
	d, ok3 := num(s[8:10])
	h, ok4 := num(s[11:13])
	mi, ok5 := num(s[14:16])
	sec, ok6 := num(s[17:19])
	if !(ok1 && ok2 && ok3 && ok4 && ok5 && ok6) {
		return time.Time{}, false
	}
	rest := s[19:]
	nanos := 0
	if strings.HasPrefix(rest, ".") {
		i := 1
		for i < len(rest) && rest[i] >= '0' && rest[i] <= '9' {
			i++
		}
		if i == 1 {
			return time.Time{}, false
		}
		frac := rest[1:i]
		for len(frac) < 9 {
			frac += "0"
		}
		nanos, _ = num(frac[:9])
		rest = rest[i:]
	}
	var off int
	switch {
	case rest == "Z":
	case len(rest) == 6 && (rest[0] == '+' || rest[0] == '-') && rest[3] == ':':
		oh, oka := num(rest[1:3])
		om, okb := num(rest[4:6])
		if !oka || !okb || oh > 23 || om > 59 {
			return time.Time{}, false
		}
		off = oh*3600 + om*60
		if rest[0] == '-' {
			off = -off
		}
	default:
		return time.Time{}, false
	}
	if mo < 1 || mo > 12 || d < 1 || h > 23 || mi > 59 || sec > 59 {
		return time.Time{}, false
	}
	dim := []int{31, 28, 31, 30, 31, 30, 31, 31, 30, 31, 30, 31}[mo-1]
	if mo == 2 && (y%4 == 0 && (y%100 != 0 || y%400 == 0)) {
		dim = 29
	}
	if d > dim {
		return time.Time{}, false
	}
	t := time.Date(y, time.Month(mo), d, h, mi, sec, nanos, time.UTC).Add(-time.Duration(off) * time.Second)
	return t, true
}

// UTF8AddrDecode decodes RFC 6533 utf-8-addr-xtext / utf-8-addr-unitext.
// raw8 reports whether raw non-ASCII UTF-8 occurred (unitext form).
func UTF8AddrDecode(s string) (out string, ok bool, raw8 bool) {
	var sb strings.Builder
	for i := 0; i < len(s); {
		c := s[i]
		switch {
		case c == '\\':
			if !strings.HasPrefix(s[i:], "\\x{") {
				return "", false, raw8
			}
			j := strings.IndexByte(s[i:], '}')
			if j < 0 {
				return "", false, raw8
			}
			hp := s[i+3 : i+j]
			cp, good := hexpoint(hp)
			if !good {
				return "", false, raw8
			}
			sb.WriteRune(rune(cp))
			i += j + 1
		case c >= 0x80:
			r, n := utf8.DecodeRuneInString(s[i:])
			raw8 = true
			if r == utf8.RuneError && n <= 1 {
				// not UTF-8: outside the grammar, but not in the closed list
				// of definite faults; the caller treats raw8 without a valid
				// decoding as unspecified
				return "", true, true
			}
			sb.WriteRune(r)
			i += n
		case c <= 0x20 || c == 0x7f || c == '+' || c == '=':
			return "", false, raw8
		default:
			sb.WriteByte(c)
			i++
		}
	}
	return sb.String(), true, raw8
}

// upperHexpoints upper-cases the digits inside every \x{...} of s.
func upperHexpoints(s string) string {
	var sb strings.Builder
	for i := 0; i < len(s); {
		if strings.HasPrefix(s[i:], "\\x{") {
			if j := strings.IndexByte(s[i:], '}'); j > 0 {
				sb.WriteString("\\x{" + strings.ToUpper(s[i+3:i+j]) + "}")
				i += j + 1
				continue
			}
		}
		sb.WriteByte(s[i])
		i++
	}
	return sb.String()
}

// hexpoint implements the HEXPOINT production of RFC 6533 section 3.
func hexpoint(h string) (int, bool) {
	if len(h) < 2 || len(h) > 6 {
		return 0, false
	}
	n := 0
	for _, c := range []byte(h) {
		d := upperHex(c)
		if d < 0 {
			return 0, false
		}
		n = n<<4 | d
	}
	switch len(h) {
	case 2:
		switch {
		case (h[0] == '0' || h[0] == '1') && h[1] >= '1' && h[1] <= '9':
		case h == "10", h == "20", h == "2B", h == "3D", h == "7F", h == "5C":
		case upperHex(h[0]) >= 8:
		default:
			return 0, false
		}
	case 3:
		if h[0] == '0' {
			return 0, false
		}
	case 4:
		if h[0] == '0' || (h[0] == 'D' && upperHex(h[1]) >= 8) {
			return 0, false
		}
	case 5:
		if h[0] == '0' {
			return 0, false
		}
	case 6:
		if h[0] != '1' || h[1] != '0' {
			return 0, false
		}
	}
	return n, true
}

// ---- encoders (used by generators, and as the reference for C14) ----

// XtextEncode encodes arbitrary octets as xtext.
func XtextEncode(s string, encodeAll bool) string {
	var sb strings.Builder
	for i := 0; i < len(s); i++ {
		c := s[i]
		if !encodeAll && c >= 33 && c <= 126 && c != '+' && c != '=' {
			sb.WriteByte(c)
		} else {
			sb.WriteByte('+')
			sb.WriteByte("0123456789ABCDEF"[c>>4])
			sb.WriteByte("0123456789ABCDEF"[c&15])
		}
	}
	return sb.String()
}
