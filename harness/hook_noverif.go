//go:build !verif

package harness

func setActiveBackend(b *Backend) {}
