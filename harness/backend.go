package harness

import (
	"errors"
	"fmt"
	"io"
	"net"
	"os"
	"strings"
	"sync"

	"github.com/emersion/go-sasl"
	"github.com/emersion/go-smtp"
)

// Decision is what a scripted callback does.
type Decision struct {
	Kind string `json:"kind,omitempty"` // "" or "ok", "smtp", "plain", "panic"
	Code int    `json:"code,omitempty"`
	Enh  [3]int `json:"enh,omitempty"`
	Msg  string `json:"msg,omitempty"`
	// Flavour (Kind "plain" only) says what sort of Go error carries Msg: ""
	// an errors.New value; "temp" one whose Temporary() reports true; "timeout"
	// a net.Error that is a timeout; "wrapped" a fmt.Errorf chain around a
	// sentinel; "eof" / "ueof" / "closed" / "deadline" the standard library's
	// io.EOF, io.ErrUnexpectedEOF, net.ErrClosed, os.ErrDeadlineExceeded
	// themselves (Msg is then their text). None of them is an *SMTPError, so
	// every property treats them alike.
	Flavour string `json:"flavour,omitempty"`
}

// PlainFlavours lists the values Flavour may take.
var PlainFlavours = []string{"", "temp", "timeout", "wrapped", "eof", "ueof", "closed", "deadline"}

// FlavourText is the error text of a flavour that stands for a fixed error
// value ("" when the flavour carries the decision's own Msg).
func FlavourText(f string) string {
	switch f {
	case "eof":
		return io.EOF.Error()
	case "ueof":
		return io.ErrUnexpectedEOF.Error()
	case "closed":
		return net.ErrClosed.Error()
	case "deadline":
		return os.ErrDeadlineExceeded.Error()
	}
	return ""
}

type tempError struct{ msg string }

func (e tempError) Error() string   { return e.msg }
func (e tempError) Temporary() bool { return true }

type netTimeoutError struct{ msg string }

func (e netTimeoutError) Error() string   { return e.msg }
func (e netTimeoutError) Timeout() bool   { return true }
func (e netTimeoutError) Temporary() bool { return true }

var _ net.Error = netTimeoutError{}

func (d Decision) OK() bool { return d.Kind == "" || d.Kind == "ok" }

// Err builds the error value the decision stands for (nil for "ok"). A
// "panic" decision panics.
func (d Decision) Err() error {
	switch d.Kind {
	case "", "ok":
		return nil
	case "smtp":
		return &smtp.SMTPError{Code: d.Code, EnhancedCode: smtp.EnhancedCode(d.Enh), Message: d.Msg}
	case "plain":
		switch d.Flavour {
		case "temp":
			return tempError{d.Msg}
		case "timeout":
			return netTimeoutError{d.Msg}
		case "wrapped":
			// Msg is kept as the whole text
			return fmt.Errorf("%s%w", d.Msg, errEmptySentinel)
		case "eof":
			return io.EOF
		case "ueof":
			return io.ErrUnexpectedEOF
		case "closed":
			return net.ErrClosed
		case "deadline":
			return os.ErrDeadlineExceeded
		}
		return errors.New(d.Msg)
	case "panic":
		panic("scripted backend panic: " + d.Msg)
	}
	panic("bad decision kind " + d.Kind)
}

var errEmptySentinel = errors.New("")

// ReadPlan says how the backend consumes the message reader.
type ReadPlan struct {
	Sizes []int `json:"sizes,omitempty"` // buffer sizes, cycled; empty = 512
	// Limit < 0: read until the reader reports an error (EOF included).
	// Limit >= 0: stop after exactly Limit octets (0 = do not read at all).
	Limit int `json:"limit"`
	// Retry > 0: after the reader failed with something other than EOF, ask
	// again that many times (a backend that drains or retries after an
	// error); what comes back is recorded in AfterErr / AfterErrBytes.
	Retry int `json:"retry,omitempty"`
}

// StatusCall is one LMTP SetStatus call of the script.
type StatusCall struct {
	Rcpt      string   `json:"rcpt"`
	D         Decision `json:"d"`
	AfterRead bool     `json:"after_read,omitempty"`
	// Gate: park on the gate "data<ordinal>:status<i>" before making the call
	// (a slow delivery to this recipient; the harness owns when it goes on).
	Gate bool `json:"gate,omitempty"`
}

// DataPlan scripts one Data / LMTPData call.
type DataPlan struct {
	Read   ReadPlan `json:"read"`
	Result Decision `json:"result"`
	// Honest: if the reader ended with a non-EOF error, return that error
	// (what any real backend does) instead of Result.
	Honest bool `json:"honest,omitempty"`
	// GatePre / GatePost: park on a harness-owned gate before reading / after
	// reading and before returning.
	GatePre  bool `json:"gate_pre,omitempty"`
	GatePost bool `json:"gate_post,omitempty"`
	// LMTP only.
	Status      []StatusCall `json:"status,omitempty"`
	PanicBefore bool         `json:"panic_before,omitempty"` // panic before any status
	PanicAfter  bool         `json:"panic_after,omitempty"`  // panic after the statuses
	// PanicOnReadErr: a backend that does not cope with a message cut short:
	// it panics when its reader ends with anything but end-of-file
	PanicOnReadErr bool `json:"panic_on_read_err,omitempty"`
}

// SASLScript scripts the server-side mechanism handed out by Auth.
type SASLScript struct {
	Challenges [][]byte `json:"challenges,omitempty"`
	Final      Decision `json:"final"`
	// FinalData: what the mechanism returns as its last "challenge" together
	// with done = true (RFC 4422 3.6, additional data with success: a server
	// signature). SMTP's 235 has no place for it; the exchange is over.
	FinalData []byte `json:"final_data,omitempty"`
	// SkipChallengesWithIR: when the client supplied an initial response the
	// mechanism goes straight to its final verdict (like PLAIN does).
	SkipChallengesWithIR bool `json:"skip_challenges_with_ir,omitempty"`
}

// Script is the complete behaviour of the backend for one case. Lists are
// consumed per callback ordinal; when a list is exhausted the callback accepts.
type Script struct {
	LMTPSession bool         `json:"lmtp_session,omitempty"` // sessions implement smtp.LMTPSession
	AuthSession bool         `json:"auth_session,omitempty"` // sessions implement smtp.AuthSession
	Mechs       []string     `json:"mechs,omitempty"`
	NewSession  []Decision   `json:"new_session,omitempty"`
	Mail        []Decision   `json:"mail,omitempty"`
	Rcpt        []Decision   `json:"rcpt,omitempty"`
	Data        []DataPlan   `json:"data,omitempty"`
	AuthErr     []Decision   `json:"auth_err,omitempty"` // decision of Auth(mech) itself
	SASL        []SASLScript `json:"sasl,omitempty"`
	LogoutErr   bool         `json:"logout_err,omitempty"`
	// GateCalls parks the named callbacks ("NewSession", "Mail", "Rcpt",
	// "Logout") on a harness gate "<name><ordinal>" after their begin event.
	GateCalls []string `json:"gate_calls,omitempty"`
	// GateStart parks the library's BDAT delivery goroutine on a harness gate
	// ("start<n>") before it calls the backend (needs the verif hook).
	GateStart bool `json:"gate_start,omitempty"`
	// GateAccept parks the goroutine serving a freshly accepted connection on
	// the gate "accept<n>" (n = order of arrival) before the library
	// registers the connection with the server (verif hook): the harness
	// decides whether Server.Close / Shutdown lands before or after.
	GateAccept bool `json:"gate_accept,omitempty"`
	// DefaultData is used when Data is exhausted (zero value: read all, accept).
	DefaultData *DataPlan `json:"default_data,omitempty"`
}

// ReadRes is one (n, err) pair returned by the message reader.
type ReadRes struct {
	N   int
	Err string
}

// DataRecord is what one Data / LMTPData call observed.
type DataRecord struct {
	Ordinal  int
	Bytes    []byte
	NReads   int
	Reads    []ReadRes // first 64
	Err      error     // terminal reader result (nil when the plan stopped early)
	ErrStr   string
	EOF      bool      // Err == io.EOF
	AfterEOF []ReadRes // results of re-reading after EOF
	AfterErr []ReadRes // results of re-reading after a non-EOF error (ReadPlan.Retry)
	// AfterErrBytes: octets those reads handed over
	AfterErrBytes []byte
	Returned      error
	Panicked      bool
	Stopped       bool // plan stopped before the reader ended
	ZeroNil       int  // (0, nil) reads seen
	StatusSet     []string
}

// Event is one entry of the totally ordered callback trace.
type Event struct {
	Seq      int
	Sess     int    // session ordinal; -1 while NewSession has not produced one
	CB       string // NewSession Mail Rcpt Data LMTPData Reset Logout Auth AuthMechanisms SASLNext
	Begin    bool
	From, To string
	MailOpts *smtp.MailOptions
	RcptOpts *smtp.RcptOptions
	Hostname string
	TLS      bool
	TLSReady bool // NewSession/begin: the TLS state shows a completed handshake (version, cipher suite)
	Mech     string
	Resp     []byte // SASLNext: the response octets handed to the mechanism
	RespNil  bool
	Data     *DataRecord
	Err      error
	// WireMark is the number of server->client octets written when the event
	// was recorded (lets oracles order callbacks against replies).
	WireMark int64
}

func (e Event) String() string {
	ph := "end"
	if e.Begin {
		ph = "begin"
	}
	s := fmt.Sprintf("#%d s%d %s/%s", e.Seq, e.Sess, e.CB, ph)
	switch e.CB {
	case "Mail":
		s += fmt.Sprintf(" from=%q", e.From)
	case "Rcpt":
		s += fmt.Sprintf(" to=%q", e.To)
	case "NewSession":
		s += fmt.Sprintf(" helo=%q tls=%v", e.Hostname, e.TLS)
	case "Data", "LMTPData":
		if e.Data != nil {
			s += fmt.Sprintf(" read=%d err=%q", len(e.Data.Bytes), e.Data.ErrStr)
		}
	}
	if e.Err != nil {
		s += fmt.Sprintf(" -> %v", e.Err)
	}
	return s
}

type gate struct {
	arrived bool
	open    bool
}

// Backend implements smtp.Backend according to a Script and records a trace.
type Backend struct {
	hub    *Hub
	script Script

	// everything below is guarded by hub
	events   []Event
	nSess    int
	nNew     int
	nLogout  int
	nMail    int
	nRcpt    int
	nData    int
	nAuth    int
	nSASL    int
	nAccept  int
	nStart   int
	gates    map[string]*gate
	openAll  bool
	inflight int // callbacks that have begun and not ended
	wireMark func() int64

	mu sync.Mutex // unused; hub guards everything
}

func NewBackend(hub *Hub, script Script) *Backend {
	return &Backend{hub: hub, script: script, gates: map[string]*gate{}}
}

// SetWireMark installs the function that reports how many octets the server
// has written so far (called with the hub locked).
func (b *Backend) SetWireMark(f func() int64) { b.wireMark = f }

func (b *Backend) record(e Event) {
	b.hub.mu.Lock()
	e.Seq = len(b.events)
	if e.Begin {
		b.inflight++
	} else if e.CB != "AuthMechanisms" && e.CB != "SASLNext" {
		b.inflight--
	}
	if b.wireMark != nil {
		e.WireMark = b.wireMark()
	}
	b.events = append(b.events, e)
	b.hub.mu.Unlock()
	b.hub.cond.Broadcast()
}

// Events returns a copy of the trace so far.
func (b *Backend) Events() []Event {
	b.hub.mu.Lock()
	defer b.hub.mu.Unlock()
	return append([]Event(nil), b.events...)
}

// InflightLocked is the number of callbacks that have begun and not returned.
func (b *Backend) InflightLocked() int { return b.inflight }

// NEventsLocked: number of events (hub locked).
func (b *Backend) NEventsLocked() int { return len(b.events) }

func (b *Backend) waitGate(name string) {
	b.hub.mu.Lock()
	g := b.gates[name]
	if g == nil {
		g = &gate{}
		b.gates[name] = g
	}
	g.arrived = true
	b.hub.cond.Broadcast()
	for !g.open && !b.openAll {
		b.hub.cond.Wait()
	}
	g.open = true
	b.hub.mu.Unlock()
}

// AtGateLocked reports whether some callback is parked on a closed gate.
func (b *Backend) AtGateLocked() bool {
	if b.openAll {
		return false
	}
	for _, g := range b.gates {
		if g.arrived && !g.open {
			return true
		}
	}
	return false
}

// GateArrivedLocked reports whether the named gate has been reached.
func (b *Backend) GateArrivedLocked(name string) bool {
	g := b.gates[name]
	return g != nil && g.arrived
}

// Release opens one gate (whether or not a callback has reached it yet).
func (b *Backend) Release(name string) {
	b.hub.mu.Lock()
	g := b.gates[name]
	if g == nil {
		g = &gate{}
		b.gates[name] = g
	}
	g.open = true
	b.hub.mu.Unlock()
	b.hub.cond.Broadcast()
}

// ReleaseAll opens every gate, present and future.
func (b *Backend) ReleaseAll() {
	b.hub.mu.Lock()
	b.openAll = true
	b.hub.mu.Unlock()
	b.hub.cond.Broadcast()
}

// ReleaseArrived opens every gate on which a callback is parked right now.
func (b *Backend) ReleaseArrived() {
	b.hub.mu.Lock()
	for _, g := range b.gates {
		if g.arrived {
			g.open = true
		}
	}
	b.hub.mu.Unlock()
	b.hub.cond.Broadcast()
}

// CloseGatesAgain ends a ReleaseAll: gates reached from now on park again
// (gates already opened stay open).
func (b *Backend) CloseGatesAgain() {
	b.hub.mu.Lock()
	b.openAll = false
	b.hub.mu.Unlock()
}

// connAccepted is called (through the library's verif hook) by the goroutine
// serving a freshly accepted connection, before the connection is registered.
func (b *Backend) connAccepted() {
	if !b.script.GateAccept {
		return
	}
	b.hub.mu.Lock()
	n := b.nAccept
	b.nAccept++
	b.hub.mu.Unlock()
	b.waitGate(fmt.Sprintf("accept%d", n))
}

// bdatStart is called (through the library's verif hook) by the goroutine
// that delivers a chunked message, before it calls Data / LMTPData.
func (b *Backend) bdatStart() {
	if !b.script.GateStart {
		return
	}
	b.hub.mu.Lock()
	n := b.nStart
	b.nStart++
	b.hub.mu.Unlock()
	b.waitGate(fmt.Sprintf("start%d", n))
}

func (b *Backend) gated(cb string) bool {
	for _, g := range b.script.GateCalls {
		if g == cb {
			return true
		}
	}
	return false
}

func pick(list []Decision, i int) Decision {
	if i < len(list) {
		return list[i]
	}
	return Decision{}
}

// ---- smtp.Backend ----

func (b *Backend) NewSession(c *smtp.Conn) (sess smtp.Session, err error) {
	b.hub.mu.Lock()
	ord := b.nNew
	b.nNew++
	b.hub.mu.Unlock()
	tlsState, isTLS := c.TLSConnectionState()
	host := c.Hostname()
	// what a backend that decides by client certificate, protocol version or
	// SNI would look at: the state of a handshake that is over
	tlsReady := isTLS && tlsState.HandshakeComplete && tlsState.Version != 0 && tlsState.CipherSuite != 0
	b.record(Event{Sess: -1, CB: "NewSession", Begin: true, Hostname: host, TLS: isTLS, TLSReady: tlsReady})
	if b.gated("NewSession") {
		b.waitGate(fmt.Sprintf("NewSession%d", ord))
	}
	d := pick(b.script.NewSession, ord)
	defer func() {
		if p := recover(); p != nil {
			b.record(Event{Sess: -1, CB: "NewSession", Hostname: host, TLS: isTLS, Err: fmt.Errorf("panic: %v", p)})
			panic(p)
		}
	}()
	if e := d.Err(); e != nil {
		b.record(Event{Sess: -1, CB: "NewSession", Hostname: host, TLS: isTLS, Err: e})
		return nil, e
	}
	b.hub.mu.Lock()
	id := b.nSess
	b.nSess++
	b.hub.mu.Unlock()
	s := &session{b: b, id: id, conn: c}
	b.record(Event{Sess: id, CB: "NewSession", Hostname: host, TLS: isTLS})
	switch {
	case b.script.LMTPSession && b.script.AuthSession:
		return &sessLMTPAuth{s}, nil
	case b.script.LMTPSession:
		return &sessLMTP{s}, nil
	case b.script.AuthSession:
		return &sessAuth{s}, nil
	}
	return s, nil
}

type session struct {
	b    *Backend
	id   int
	conn *smtp.Conn
}

type sessLMTP struct{ *session }
type sessAuth struct{ *session }
type sessLMTPAuth struct{ *session }

func copyMailOpts(o *smtp.MailOptions) *smtp.MailOptions {
	if o == nil {
		return nil
	}
	c := *o
	if o.Auth != nil {
		a := *o.Auth
		c.Auth = &a
	}
	return &c
}

func copyRcptOpts(o *smtp.RcptOptions) *smtp.RcptOptions {
	if o == nil {
		return nil
	}
	c := *o
	if o.Notify != nil {
		c.Notify = append([]smtp.DSNNotify{}, o.Notify...)
	}
	return &c
}

func (s *session) guard(cb string, ev Event) {
	if p := recover(); p != nil {
		ev.CB, ev.Sess, ev.Err = cb, s.id, fmt.Errorf("panic: %v", p)
		s.b.record(ev)
		panic(p)
	}
}

func (s *session) Reset() {
	s.b.record(Event{Sess: s.id, CB: "Reset", Begin: true})
	s.b.record(Event{Sess: s.id, CB: "Reset"})
}

func (s *session) Logout() error {
	s.b.record(Event{Sess: s.id, CB: "Logout", Begin: true})
	if s.b.gated("Logout") {
		s.b.hub.mu.Lock()
		ord := s.b.nLogout
		s.b.nLogout++
		s.b.hub.mu.Unlock()
		s.b.waitGate(fmt.Sprintf("Logout%d", ord))
	}
	var err error
	if s.b.script.LogoutErr {
		err = errors.New("logout failed")
	}
	s.b.record(Event{Sess: s.id, CB: "Logout", Err: err})
	return err
}

func (s *session) Mail(from string, opts *smtp.MailOptions) (err error) {
	b := s.b
	b.hub.mu.Lock()
	ord := b.nMail
	b.nMail++
	b.hub.mu.Unlock()
	o := copyMailOpts(opts)
	b.record(Event{Sess: s.id, CB: "Mail", Begin: true, From: from, MailOpts: o})
	defer s.guard("Mail", Event{From: from, MailOpts: o})
	if b.gated("Mail") {
		b.waitGate(fmt.Sprintf("Mail%d", ord))
	}
	err = pick(b.script.Mail, ord).Err()
	b.record(Event{Sess: s.id, CB: "Mail", From: from, MailOpts: o, Err: err})
	return err
}

func (s *session) Rcpt(to string, opts *smtp.RcptOptions) (err error) {
	b := s.b
	b.hub.mu.Lock()
	ord := b.nRcpt
	b.nRcpt++
	b.hub.mu.Unlock()
	o := copyRcptOpts(opts)
	b.record(Event{Sess: s.id, CB: "Rcpt", Begin: true, To: to, RcptOpts: o})
	defer s.guard("Rcpt", Event{To: to, RcptOpts: o})
	if b.gated("Rcpt") {
		b.waitGate(fmt.Sprintf("Rcpt%d", ord))
	}
	err = pick(b.script.Rcpt, ord).Err()
	b.record(Event{Sess: s.id, CB: "Rcpt", To: to, RcptOpts: o, Err: err})
	return err
}

func (s *session) plan() (DataPlan, int) {
	b := s.b
	b.hub.mu.Lock()
	ord := b.nData
	b.nData++
	b.hub.mu.Unlock()
	if ord < len(b.script.Data) {
		return b.script.Data[ord], ord
	}
	if b.script.DefaultData != nil {
		return *b.script.DefaultData, ord
	}
	return DataPlan{Read: ReadPlan{Limit: -1}, Honest: true}, ord
}

func readMessage(r io.Reader, plan ReadPlan, rec *DataRecord) {
	sizes := plan.Sizes
	if len(sizes) == 0 {
		sizes = []int{512}
	}
	for i := 0; ; i++ {
		if plan.Limit >= 0 && len(rec.Bytes) >= plan.Limit {
			rec.Stopped = true
			return
		}
		size := sizes[i%len(sizes)]
		if size < 1 {
			size = 1
		}
		if plan.Limit >= 0 && size > plan.Limit-len(rec.Bytes) {
			size = plan.Limit - len(rec.Bytes)
		}
		buf := make([]byte, size)
		n, err := r.Read(buf)
		rec.NReads++
		if len(rec.Reads) < 64 {
			rr := ReadRes{N: n}
			if err != nil {
				rr.Err = err.Error()
			}
			rec.Reads = append(rec.Reads, rr)
		}
		rec.Bytes = append(rec.Bytes, buf[:n]...)
		if n == 0 && err == nil {
			rec.ZeroNil++
			if rec.ZeroNil > 1000 {
				rec.Err = errors.New("harness: reader keeps returning (0, nil)")
				rec.ErrStr = rec.Err.Error()
				return
			}
		}
		if err != nil {
			rec.Err = err
			rec.ErrStr = err.Error()
			rec.EOF = err == io.EOF
			break
		}
	}
	if !rec.EOF && rec.Err != nil {
		for j := 0; j < plan.Retry; j++ {
			buf := make([]byte, 64)
			n, err := r.Read(buf)
			rr := ReadRes{N: n}
			if err != nil {
				rr.Err = err.Error()
			}
			rec.AfterErr = append(rec.AfterErr, rr)
			rec.AfterErrBytes = append(rec.AfterErrBytes, buf[:n]...)
		}
	}
	if rec.EOF {
		// End-of-file must be sticky.
		for j := 0; j < 2; j++ {
			buf := make([]byte, 7)
			n, err := r.Read(buf)
			rr := ReadRes{N: n}
			if err != nil {
				rr.Err = err.Error()
			}
			rec.AfterEOF = append(rec.AfterEOF, rr)
		}
	}
}

func (s *session) deliver(cb string, r io.Reader, sc smtp.StatusCollector) (err error) {
	b := s.b
	plan, ord := s.plan()
	rec := &DataRecord{Ordinal: ord}
	b.record(Event{Sess: s.id, CB: cb, Begin: true, Data: rec})
	defer func() {
		if p := recover(); p != nil {
			rec.Panicked = true
			b.record(Event{Sess: s.id, CB: cb, Data: rec, Err: fmt.Errorf("panic: %v", p)})
			panic(p)
		}
	}()
	if plan.GatePre {
		b.waitGate(fmt.Sprintf("data%d:pre", ord))
	}
	if plan.PanicBefore {
		panic("scripted backend panic before statuses")
	}
	if sc != nil {
		for _, st := range plan.Status {
			if !st.AfterRead {
				sc.SetStatus(st.Rcpt, st.D.Err())
				rec.StatusSet = append(rec.StatusSet, st.Rcpt)
			}
		}
	}
	readMessage(r, plan.Read, rec)
	if plan.PanicOnReadErr && rec.Err != nil && rec.Err != io.EOF {
		panic("scripted backend panic: the message was cut short (" + rec.ErrStr + ")")
	}
	if sc != nil {
		for i, st := range plan.Status {
			if st.AfterRead {
				if st.Gate {
					b.waitGate(fmt.Sprintf("data%d:status%d", ord, i))
				}
				sc.SetStatus(st.Rcpt, st.D.Err())
				rec.StatusSet = append(rec.StatusSet, st.Rcpt)
			}
		}
	}
	if plan.PanicAfter {
		panic("scripted backend panic after statuses")
	}
	if plan.GatePost {
		b.waitGate(fmt.Sprintf("data%d:post", ord))
	}
	if plan.Honest && rec.Err != nil && rec.Err != io.EOF {
		err = rec.Err
	} else {
		err = plan.Result.Err()
	}
	rec.Returned = err
	b.record(Event{Sess: s.id, CB: cb, Data: rec, Err: err})
	return err
}

func (s *session) Data(r io.Reader) error { return s.deliver("Data", r, nil) }

func (s *sessLMTP) LMTPData(r io.Reader, sc smtp.StatusCollector) error {
	return s.deliver("LMTPData", r, sc)
}
func (s *sessLMTPAuth) LMTPData(r io.Reader, sc smtp.StatusCollector) error {
	return s.deliver("LMTPData", r, sc)
}

func (s *session) authMechanisms() []string {
	s.b.record(Event{Sess: s.id, CB: "AuthMechanisms"})
	return s.b.script.Mechs
}

func (s *session) auth(mech string) (sasl.Server, error) {
	b := s.b
	b.hub.mu.Lock()
	ord := b.nAuth
	b.nAuth++
	b.hub.mu.Unlock()
	b.record(Event{Sess: s.id, CB: "Auth", Begin: true, Mech: mech})
	known := false
	for _, m := range b.script.Mechs {
		if strings.EqualFold(m, mech) {
			known = true
		}
	}
	if !known {
		b.record(Event{Sess: s.id, CB: "Auth", Mech: mech, Err: smtp.ErrAuthUnknownMechanism})
		return nil, smtp.ErrAuthUnknownMechanism
	}
	if e := pick(b.script.AuthErr, ord).Err(); e != nil {
		b.record(Event{Sess: s.id, CB: "Auth", Mech: mech, Err: e})
		return nil, e
	}
	b.hub.mu.Lock()
	sord := b.nSASL
	b.nSASL++
	b.hub.mu.Unlock()
	var sc SASLScript
	if sord < len(b.script.SASL) {
		sc = b.script.SASL[sord]
	}
	b.record(Event{Sess: s.id, CB: "Auth", Mech: mech})
	return &saslServer{s: s, script: sc}, nil
}

func (s *sessAuth) AuthMechanisms() []string                  { return s.authMechanisms() }
func (s *sessAuth) Auth(mech string) (sasl.Server, error)     { return s.auth(mech) }
func (s *sessLMTPAuth) AuthMechanisms() []string              { return s.authMechanisms() }
func (s *sessLMTPAuth) Auth(mech string) (sasl.Server, error) { return s.auth(mech) }

type saslServer struct {
	s      *session
	script SASLScript
	step   int
}

func (m *saslServer) Next(response []byte) (challenge []byte, done bool, err error) {
	ev := Event{Sess: m.s.id, CB: "SASLNext", Resp: append([]byte(nil), response...), RespNil: response == nil}
	i := m.step
	m.step++
	if i == 0 && response != nil && m.script.SkipChallengesWithIR {
		i = len(m.script.Challenges)
		m.step = i + 1
	}
	if i < len(m.script.Challenges) {
		m.s.b.record(ev)
		return m.script.Challenges[i], false, nil
	}
	err = m.script.Final.Err()
	ev.Err = err
	m.s.b.record(ev)
	if err != nil {
		return nil, false, err
	}
	return m.script.FinalData, true, nil
}

var (
	_ smtp.Backend     = (*Backend)(nil)
	_ smtp.Session     = (*session)(nil)
	_ smtp.LMTPSession = (*sessLMTP)(nil)
	_ smtp.AuthSession = (*sessAuth)(nil)
	_ smtp.LMTPSession = (*sessLMTPAuth)(nil)
	_ smtp.AuthSession = (*sessLMTPAuth)(nil)
)
