package harness

import (
	"bytes"
	"fmt"
	"strconv"
	"strings"
)

// Reply is one RFC 5321 reply (possibly multi-line) as found on the wire.
type Reply struct {
	Code  int
	Lines []string // text of each line, without code, separator and CRLF
	Raw   string
}

func (r Reply) Text() string { return strings.Join(r.Lines, "\n") }

func (r Reply) String() string {
	return fmt.Sprintf("%d %q", r.Code, r.Lines)
}

// Class is the first digit of the reply code.
func (r Reply) Class() int { return r.Code / 100 }

// ParseReplies parses the complete server->client octet stream strictly:
//
//	Reply = *( code "-" [text] CRLF ) code [ SP text ] CRLF
//
// all lines of one reply carry the same code, 200 <= code <= 599, every line
// ends in CRLF exactly and the text consists of HT, 0x20-0x7E and octets
// >= 0x80 only. It returns the replies parsed before the first fault and an
// error describing the fault. A stream that ends in the middle of a line or of
// a multi-line reply is a fault (the server writes replies whole).
func ParseReplies(raw []byte) ([]Reply, error) { return parseReplies(raw, true) }

// ParseRepliesLenient is ParseReplies without the restriction on text octets
// (for oracles that are not about reply syntax).
func ParseRepliesLenient(raw []byte) ([]Reply, error) { return parseReplies(raw, false) }

func parseReplies(raw []byte, strictText bool) ([]Reply, error) {
	var out []Reply
	pos := 0
	var cur *Reply
	for pos < len(raw) {
		i := bytes.Index(raw[pos:], []byte("\r\n"))
		if i < 0 {
			return out, fmt.Errorf("reply stream ends inside a line: %q", trunc(raw[pos:]))
		}
		line := raw[pos : pos+i]
		lineStart := pos
		pos += i + 2
		if len(line) < 3 {
			return out, fmt.Errorf("reply line too short: %q", trunc(line))
		}
		for _, ch := range line[:3] {
			if ch < '0' || ch > '9' {
				return out, fmt.Errorf("reply line does not start with a code: %q", trunc(line))
			}
		}
		code, _ := strconv.Atoi(string(line[:3]))
		if code < 200 || code > 599 {
			return out, fmt.Errorf("reply code out of range: %q", trunc(line))
		}
		more := false
		text := ""
		if len(line) > 3 {
			switch line[3] {
			case '-':
				more = true
			case ' ':
			default:
				return out, fmt.Errorf("bad separator after reply code: %q", trunc(line))
			}
			text = string(line[4:])
		}
		for _, ch := range []byte(text) {
			if !strictText {
				break
			}
			if ch == '\t' || (ch >= 0x20 && ch <= 0x7e) || ch >= 0x80 {
				continue
			}
			return out, fmt.Errorf("illegal octet 0x%02x in reply text: %q", ch, trunc(line))
		}
		if cur == nil {
			cur = &Reply{Code: code}
		} else if cur.Code != code {
			return out, fmt.Errorf("reply code changes inside a multi-line reply: %d then %q", cur.Code, trunc(line))
		}
		cur.Lines = append(cur.Lines, text)
		cur.Raw += string(raw[lineStart:pos])
		if !more {
			out = append(out, *cur)
			cur = nil
		}
	}
	if cur != nil {
		return out, fmt.Errorf("reply stream ends inside a multi-line reply (code %d)", cur.Code)
	}
	return out, nil
}

func trunc(b []byte) []byte {
	if len(b) > 120 {
		return append(append([]byte(nil), b[:120]...), "..."...)
	}
	return b
}

// EnhancedCode extracts the RFC 2034 status code that starts the reply's first
// line. ok is false when the first line does not start with class.subject.detail
// followed by a space or the end of the line.
func (r Reply) EnhancedCode() (ec [3]int, rest string, ok bool) {
	if len(r.Lines) == 0 {
		return ec, "", false
	}
	return splitEnhanced(r.Lines[0])
}

func splitEnhanced(line string) (ec [3]int, rest string, ok bool) {
	word := line
	rest = ""
	if i := strings.IndexByte(line, ' '); i >= 0 {
		word, rest = line[:i], line[i+1:]
	}
	parts := strings.Split(word, ".")
	if len(parts) != 3 {
		return ec, "", false
	}
	for i, p := range parts {
		if p == "" || len(p) > 3 {
			return ec, "", false
		}
		for _, ch := range p {
			if ch < '0' || ch > '9' {
				return ec, "", false
			}
		}
		if len(p) > 1 && p[0] == '0' {
			return ec, "", false
		}
		ec[i], _ = strconv.Atoi(p)
	}
	if len(parts[0]) != 1 {
		return ec, "", false
	}
	return ec, rest, true
}

// CheckEnhanced applies the RFC 2034 rule to one reply: a 2xx/4xx/5xx reply
// must start with an enhanced code whose class equals the reply-code class;
// further lines may repeat exactly that code or carry none; a 3xx reply
// carries none. exempt is true for the greeting and for replies to
// HELO/EHLO/LHLO, which the property leaves out.
func (r Reply) CheckEnhanced(exempt bool) error {
	if exempt {
		return nil
	}
	ec, _, ok := r.EnhancedCode()
	switch r.Class() {
	case 3:
		return nil
	case 2, 4, 5:
		if !ok {
			return fmt.Errorf("reply %s carries no enhanced status code", r)
		}
		if ec[0] != r.Class() {
			return fmt.Errorf("reply %s: enhanced class %d differs from reply class %d", r, ec[0], r.Class())
		}
		for _, l := range r.Lines[1:] {
			if e2, _, ok2 := splitEnhanced(l); ok2 && e2[0] >= 2 && e2[0] <= 5 && e2 != ec {
				// A later line that starts with a *different* code-shaped word
				// is only suspicious when it looks like a status code class.
				// It may be message text; not judged.
				_ = e2
			}
		}
		return nil
	}
	return fmt.Errorf("reply %s has an impossible class", r)
}
