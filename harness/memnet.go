// Package harness contains the test machinery shared by all property checks:
// an in-memory network whose segmentation, half-close and idleness are owned by
// the test, a scripted recording backend, and a strict reply parser.
package harness

import (
	"errors"
	"io"
	"net"
	"os"
	"sync"
	"sync/atomic"
	"time"
)

// Hub is the single lock + condition variable of one test case. The network
// and the backend signal every state change through it, so that waiting for
// "the server wants more input", "a callback reached its gate" or "the
// connection was closed" never involves sleeping.
type Hub struct {
	mu   sync.Mutex
	cond *sync.Cond
}

func NewHub() *Hub {
	h := &Hub{}
	h.cond = sync.NewCond(&h.mu)
	return h
}

func (h *Hub) Lock()      { h.mu.Lock() }
func (h *Hub) Unlock()    { h.mu.Unlock() }
func (h *Hub) Broadcast() { h.cond.Broadcast() }

// WaitUntil blocks until pred (evaluated with the hub locked) is true. It
// returns false if the watchdog expires first. The watchdog is only a
// watchdog: callers treat expiry as "inconclusive" or examine the goroutine
// states, never as a verdict by itself.
func (h *Hub) WaitUntil(pred func() bool, watchdog time.Duration) bool {
	h.mu.Lock()
	defer h.mu.Unlock()
	if pred() {
		return true
	}
	expired := false
	tm := time.AfterFunc(watchdog, func() {
		h.mu.Lock()
		expired = true
		h.mu.Unlock()
		h.cond.Broadcast()
	})
	defer tm.Stop()
	for {
		if pred() {
			return true
		}
		if expired {
			return false
		}
		h.cond.Wait()
	}
}

type queue struct {
	segs     [][]byte
	wclosed  bool // writer finished: EOF once drained
	aborted  bool // connection reset: error at once
	readers  int  // goroutines blocked in Read on an empty queue
	writers  int  // goroutines blocked in a synchronous Write (see End.synchronous)
	consumed int64
	written  int64
	nsegs    int64
}

type timeoutError struct{}

func (timeoutError) Error() string   { return "memnet: i/o timeout" }
func (timeoutError) Timeout() bool   { return true }
func (timeoutError) Temporary() bool { return true }
func (timeoutError) Is(err error) bool {
	return err == os.ErrDeadlineExceeded
}

// ErrReset is what reads and writes report after Abort.
var ErrReset = errors.New("memnet: connection reset by peer")

// End is one end of an in-memory connection. It implements net.Conn.
type End struct {
	hub    *Hub
	in     *queue
	out    *queue
	peer   *End
	name   string
	closed bool

	rdeadline time.Time
	rtimer    *time.Timer
	wdeadline time.Time

	// eofWithData: the Read that hands out the last queued octets of a
	// half-closed peer returns them together with io.EOF (n > 0, io.EOF), as
	// io.Reader allows and as crypto/tls does when the close alert arrives
	// with the last record. Default: the octets first, (0, io.EOF) next.
	eofWithData bool

	// synchronous: like net.Pipe, a Write returns only when the peer has
	// consumed every octet of it (or the connection has ended, or the write
	// deadline has passed): a transport without any buffering of its own.
	// Default: writes never block (unbounded queue).
	synchronous bool
	wtimer      *time.Timer

	// fragment > 0: every Write is delivered in segments of at most this many
	// octets (the peer's Read returns octets of one segment at most): what a
	// network may do to the replies of a server that writes each in one piece.
	fragment int
}

// SetFragment sets the fragment size of this end's writes (0 = one segment
// per Write).
func (e *End) SetFragment(n int) {
	e.hub.mu.Lock()
	e.fragment = n
	e.hub.mu.Unlock()
}

// SetSynchronous switches this end's Write to net.Pipe behaviour (see the
// field).
func (e *End) SetSynchronous(on bool) {
	e.hub.mu.Lock()
	e.synchronous = on
	e.hub.mu.Unlock()
}

// BlockedInWriteLocked reports whether a goroutine is parked in a synchronous
// Write on this end, waiting for the peer to read. Hub must be locked.
func (e *End) BlockedInWriteLocked() bool {
	return e.out.writers > 0 && e.out.consumed < e.out.written && !e.closed && !e.out.aborted && !e.peer.closed
}

// SetEOFWithData switches the end-of-stream style of this end's Read (see the
// field).
func (e *End) SetEOFWithData(on bool) {
	e.hub.mu.Lock()
	e.eofWithData = on
	e.hub.mu.Unlock()
}

// WriteFinal writes p and half-closes in one step: the peer can never observe
// the octets without the end of the stream behind them.
func (e *End) WriteFinal(p []byte) {
	e.hub.mu.Lock()
	if !e.closed && !e.out.aborted && !e.peer.closed && !e.out.wclosed {
		if len(p) > 0 {
			e.out.segs = append(e.out.segs, append([]byte(nil), p...))
			e.out.written += int64(len(p))
		}
		e.out.wclosed = true
	}
	e.hub.mu.Unlock()
	e.hub.cond.Broadcast()
}

type memAddr string

func (a memAddr) Network() string { return "mem" }
func (a memAddr) String() string  { return string(a) }

// Pair returns the two ends (client, server) of a fresh connection.
func Pair(hub *Hub) (client, server *End) {
	c2s, s2c := &queue{}, &queue{}
	client = &End{hub: hub, in: s2c, out: c2s, name: "client"}
	server = &End{hub: hub, in: c2s, out: s2c, name: "server"}
	client.peer, server.peer = server, client
	return
}

func (e *End) Read(p []byte) (int, error) {
	if len(p) == 0 {
		return 0, nil
	}
	e.hub.mu.Lock()
	defer e.hub.mu.Unlock()
	// A blocked reader announces itself once per call (not on every wake-up:
	// the hub's condition variable is shared, and two blocked readers that
	// re-announce themselves would keep waking each other).
	waiting := false
	defer func() {
		if waiting {
			e.in.readers--
		}
	}()
	for {
		if e.closed {
			return 0, net.ErrClosed
		}
		if e.in.aborted {
			return 0, ErrReset
		}
		if len(e.in.segs) > 0 {
			seg := e.in.segs[0]
			n := copy(p, seg)
			if n == len(seg) {
				e.in.segs = e.in.segs[1:]
			} else {
				e.in.segs[0] = seg[n:]
			}
			e.in.consumed += int64(n)
			e.hub.cond.Broadcast()
			if e.eofWithData && len(e.in.segs) == 0 && e.in.wclosed {
				return n, io.EOF
			}
			return n, nil
		}
		if e.in.wclosed {
			return 0, io.EOF
		}
		if !e.rdeadline.IsZero() && !time.Now().Before(e.rdeadline) {
			return 0, timeoutError{}
		}
		if !waiting {
			waiting = true
			e.in.readers++
			e.hub.cond.Broadcast()
		}
		e.hub.cond.Wait()
	}
}

func (e *End) Write(p []byte) (int, error) {
	e.hub.mu.Lock()
	defer e.hub.mu.Unlock()
	if e.closed {
		return 0, net.ErrClosed
	}
	if e.out.aborted || e.peer.closed {
		return 0, ErrReset
	}
	if e.out.wclosed {
		return 0, io.ErrClosedPipe
	}
	if !e.wdeadline.IsZero() && !time.Now().Before(e.wdeadline) {
		// like a kernel socket: a write after the deadline fails at once,
		// even though the (unbounded) queue would take the octets
		return 0, timeoutError{}
	}
	if len(p) == 0 {
		return 0, nil
	}
	if e.fragment > 0 && len(p) > e.fragment {
		for rest := p; len(rest) > 0; {
			n := e.fragment
			if n > len(rest) {
				n = len(rest)
			}
			e.out.segs = append(e.out.segs, append([]byte(nil), rest[:n]...))
			e.out.nsegs++
			rest = rest[n:]
		}
	} else {
		e.out.segs = append(e.out.segs, append([]byte(nil), p...))
		e.out.nsegs++
	}
	e.out.written += int64(len(p))
	e.hub.cond.Broadcast()
	if !e.synchronous {
		return len(p), nil
	}
	// net.Pipe style: wait until the peer has read all of it
	target := e.out.written
	e.out.writers++
	defer func() { e.out.writers-- }()
	taken := func() int {
		if n := len(p) - int(target-e.out.consumed); n > 0 {
			return n
		}
		return 0
	}
	for e.out.consumed < target {
		if e.closed {
			return taken(), net.ErrClosed
		}
		if e.out.aborted || e.peer.closed {
			return taken(), ErrReset
		}
		if !e.wdeadline.IsZero() && !time.Now().Before(e.wdeadline) {
			return taken(), timeoutError{}
		}
		e.hub.cond.Wait()
	}
	return len(p), nil
}

// Close closes this end: the peer reads what is queued, then EOF; the peer's
// writes fail.
func (e *End) Close() error {
	e.hub.mu.Lock()
	defer e.hub.mu.Unlock()
	if e.closed {
		return net.ErrClosed
	}
	e.closed = true
	e.out.wclosed = true
	if e.rtimer != nil {
		e.rtimer.Stop()
	}
	e.hub.cond.Broadcast()
	return nil
}

// CloseWrite half-closes: the peer gets a clean EOF after the queued octets,
// the reverse direction stays open.
func (e *End) CloseWrite() {
	e.hub.mu.Lock()
	e.out.wclosed = true
	e.hub.mu.Unlock()
	e.hub.cond.Broadcast()
}

// Abort resets the connection: queued octets are dropped, the peer's reads and
// writes fail at once.
func (e *End) Abort() {
	e.hub.mu.Lock()
	e.out.aborted = true
	e.out.segs = nil
	e.in.aborted = true
	e.hub.mu.Unlock()
	e.hub.cond.Broadcast()
}

func (e *End) LocalAddr() net.Addr  { return memAddr(e.name) }
func (e *End) RemoteAddr() net.Addr { return memAddr(e.peer.name) }

func (e *End) SetDeadline(t time.Time) error {
	if err := e.SetReadDeadline(t); err != nil {
		return err
	}
	return e.SetWriteDeadline(t)
}

func (e *End) SetReadDeadline(t time.Time) error {
	e.hub.mu.Lock()
	defer e.hub.mu.Unlock()
	if e.closed {
		return net.ErrClosed
	}
	e.rdeadline = t
	if e.rtimer != nil {
		e.rtimer.Stop()
		e.rtimer = nil
	}
	if !t.IsZero() {
		d := time.Until(t)
		if d < 0 {
			d = 0
		}
		e.rtimer = time.AfterFunc(d, e.hub.cond.Broadcast)
	}
	e.hub.cond.Broadcast()
	return nil
}

// Writes never block (unbounded queue) unless the end is synchronous; an
// expired write deadline makes them fail, as it would on a socket.
func (e *End) SetWriteDeadline(t time.Time) error {
	e.hub.mu.Lock()
	defer e.hub.mu.Unlock()
	if e.closed {
		return net.ErrClosed
	}
	e.wdeadline = t
	if e.wtimer != nil {
		e.wtimer.Stop()
		e.wtimer = nil
	}
	if e.synchronous && !t.IsZero() {
		d := time.Until(t)
		if d < 0 {
			d = 0
		}
		e.wtimer = time.AfterFunc(d, e.hub.cond.Broadcast)
	}
	e.hub.cond.Broadcast()
	return nil
}

// ---- observation (all called with the hub unlocked unless noted) ----

// BlockedInReadLocked reports whether a goroutine is parked in Read on this
// end with nothing queued. Hub must be locked.
func (e *End) BlockedInReadLocked() bool {
	return e.in.readers > 0 && len(e.in.segs) == 0 && !e.in.wclosed && !e.in.aborted && !e.closed
}

// ClosedLocked reports whether this end was closed locally. Hub must be locked.
func (e *End) ClosedLocked() bool { return e.closed }

// PendingInLocked is the number of queued, unread octets towards this end.
func (e *End) PendingInLocked() int {
	n := 0
	for _, s := range e.in.segs {
		n += len(s)
	}
	return n
}

// PeekInLocked returns a copy of the queued, unread octets towards this end.
func (e *End) PeekInLocked() []byte {
	var out []byte
	for _, s := range e.in.segs {
		out = append(out, s...)
	}
	return out
}

func (e *End) Closed() bool {
	e.hub.mu.Lock()
	defer e.hub.mu.Unlock()
	return e.closed
}

// Consumed is the number of octets this end has read so far.
func (e *End) Consumed() int64 {
	e.hub.mu.Lock()
	defer e.hub.mu.Unlock()
	return e.in.consumed
}

// TakeAll removes and returns every octet queued towards this end without
// blocking.
func (e *End) TakeAll() []byte {
	e.hub.mu.Lock()
	defer e.hub.mu.Unlock()
	var out []byte
	for _, s := range e.in.segs {
		out = append(out, s...)
	}
	e.in.consumed += int64(len(out))
	e.in.segs = nil
	return out
}

// ---- listener ----

// Listener is an in-memory net.Listener. Dial hands the server end to Accept.
type Listener struct {
	hub       *Hub
	ch        chan *End
	done      chan struct{}
	once      sync.Once
	closed    bool
	accepting int32 // goroutines waiting in Accept (atomic)
}

func NewListener(hub *Hub) *Listener {
	return &Listener{hub: hub, ch: make(chan *End, 16), done: make(chan struct{})}
}

func (l *Listener) Accept() (net.Conn, error) {
	select {
	case <-l.done:
		return nil, net.ErrClosed
	default:
	}
	atomic.AddInt32(&l.accepting, 1)
	defer atomic.AddInt32(&l.accepting, -1)
	select {
	case c := <-l.ch:
		return c, nil
	case <-l.done:
		return nil, net.ErrClosed
	}
}

// Close closes the listener. Like a socket's, a second Close reports that the
// listener is closed already.
func (l *Listener) Close() error {
	err := net.ErrClosed
	l.once.Do(func() { close(l.done); err = nil })
	return err
}

func (l *Listener) Addr() net.Addr { return memAddr("listener") }

// Accepting reports whether a goroutine is waiting in Accept right now (the
// server's accept loop for this listener is up).
func (l *Listener) Accepting() bool { return atomic.LoadInt32(&l.accepting) > 0 }

// IsClosed reports whether Close has been called on the listener.
func (l *Listener) IsClosed() bool {
	select {
	case <-l.done:
		return true
	default:
		return false
	}
}

// Dial creates a connection; the returned ends are (client, server). The
// server end is delivered to Accept.
func (l *Listener) Dial() (client, server *End) {
	client, server = Pair(l.hub)
	l.ch <- server
	return
}

// DialSynchronous is Dial for a connection whose both ends are synchronous
// (SetSynchronous) from the very first octet.
func (l *Listener) DialSynchronous() (client, server *End) {
	client, server = Pair(l.hub)
	client.synchronous, server.synchronous = true, true
	l.ch <- server
	return
}

// WrittenLocked is the number of octets this end has written. Hub must be locked.
func (e *End) WrittenLocked() int64 { return e.out.written }
