//go:build verif

package harness

import (
	"sync/atomic"

	"github.com/emersion/go-smtp"
)

// activeBackend is the backend of the rig created last; the library's
// verification hook (build tag verif) calls into it.
var activeBackend atomic.Pointer[Backend]

func init() {
	smtp.SetVerifBdatStartHook(func() {
		if b := activeBackend.Load(); b != nil {
			b.bdatStart()
		}
	})
}

func init() {
	smtp.SetVerifConnAcceptedHook(func() {
		if b := activeBackend.Load(); b != nil {
			b.connAccepted()
		}
	})
}

func setActiveBackend(b *Backend) { activeBackend.Store(b) }
