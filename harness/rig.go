package harness

import (
	"bytes"
	"context"
	"crypto/ecdsa"
	"crypto/elliptic"
	"crypto/rand"
	"crypto/tls"
	"crypto/x509"
	"crypto/x509/pkix"
	"encoding/pem"
	"fmt"
	"io"
	"math/big"
	"net"
	"os"
	"path/filepath"
	"runtime"
	"strings"
	"sync"
	"sync/atomic"
	"time"

	"github.com/emersion/go-smtp"
)

// Watchdog is how long an operation that takes microseconds may take before
// the harness gives up on the case (inconclusive) or inspects goroutine states.
var Watchdog = 20 * time.Second

// Config is the JSON-serialisable server configuration of a case.
type Config struct {
	LMTP              bool   `json:"lmtp,omitempty"`
	MaxRecipients     int    `json:"max_rcpt,omitempty"`
	MaxMessageBytes   int64  `json:"max_bytes,omitempty"`
	MaxLineLength     int    `json:"max_line,omitempty"` // 0 = library default (2000), < 0 = no limit
	AllowInsecureAuth bool   `json:"insecure_auth,omitempty"`
	UTF8              bool   `json:"utf8,omitempty"`
	RequireTLS        bool   `json:"requiretls,omitempty"`
	BinaryMIME        bool   `json:"binarymime,omitempty"`
	DSN               bool   `json:"dsn,omitempty"`
	RRVS              bool   `json:"rrvs,omitempty"`
	TLS               string `json:"tls,omitempty"` // "", "starttls", "implicit", "wrapped" (implicit TLS from a listener the caller wrapped; Server.TLSConfig unset)
	ReadTimeoutMs     int    `json:"read_timeout_ms,omitempty"`
	WriteTimeoutMs    int    `json:"write_timeout_ms,omitempty"`
	// Debug: the server copies the protocol exchange to a Debug writer
	Debug bool `json:"debug,omitempty"`
	// EOFWithData: the server's connection reports the end of the client's
	// stream together with the last octets (n > 0, io.EOF) instead of in a
	// Read of its own (see memnet End.eofWithData)
	EOFWithData bool `json:"eof_with_data,omitempty"`
	// FragmentReplies > 0: whatever the server writes reaches the client in
	// segments of at most this many octets (a reply may arrive octet by octet)
	FragmentReplies int `json:"fragment_replies,omitempty"`
	// Synchronous: the transport buffers nothing, a Write returns when the
	// peer has read it (net.Pipe). Only for conversations driven by a client
	// of their own (DialConn): the lock-step driver's Send must not block.
	Synchronous bool `json:"synchronous,omitempty"`
}

// LogBuf captures Server.ErrorLog.
type LogBuf struct {
	mu  sync.Mutex
	buf bytes.Buffer
}

func (l *LogBuf) Printf(format string, v ...interface{}) {
	l.mu.Lock()
	fmt.Fprintf(&l.buf, format, v...)
	l.buf.WriteByte('\n')
	l.mu.Unlock()
}
func (l *LogBuf) Println(v ...interface{}) {
	l.mu.Lock()
	fmt.Fprintln(&l.buf, v...)
	l.mu.Unlock()
}
func (l *LogBuf) String() string {
	l.mu.Lock()
	defer l.mu.Unlock()
	return l.buf.String()
}

// Panicked returns the first "panic serving" entry, or "".
func (l *LogBuf) Panicked() string {
	s := l.String()
	if i := strings.Index(s, "panic serving"); i >= 0 {
		e := s[i:]
		if len(e) > 1500 {
			e = e[:1500]
		}
		return e
	}
	return ""
}

var (
	certOnce sync.Once
	srvCert  tls.Certificate
	certPool *x509.CertPool
	certPEM  []byte
)

func initCert() {
	certOnce.Do(func() {
		key, err := ecdsa.GenerateKey(elliptic.P256(), rand.Reader)
		if err != nil {
			panic(err)
		}
		tmpl := &x509.Certificate{
			SerialNumber:          big.NewInt(1),
			Subject:               pkix.Name{CommonName: "srv"},
			NotBefore:             time.Now().Add(-time.Hour),
			NotAfter:              time.Now().Add(24 * time.Hour),
			KeyUsage:              x509.KeyUsageDigitalSignature | x509.KeyUsageCertSign,
			ExtKeyUsage:           []x509.ExtKeyUsage{x509.ExtKeyUsageServerAuth},
			BasicConstraintsValid: true,
			IsCA:                  true,
			DNSNames:              []string{"srv", "localhost"},
			IPAddresses:           []net.IP{net.IPv4(127, 0, 0, 1)},
		}
		der, err := x509.CreateCertificate(rand.Reader, tmpl, tmpl, &key.PublicKey, key)
		if err != nil {
			panic(err)
		}
		srvCert = tls.Certificate{Certificate: [][]byte{der}, PrivateKey: key}
		c, _ := x509.ParseCertificate(der)
		certPool = x509.NewCertPool()
		certPool.AddCert(c)
		certPEM = pem.EncodeToMemory(&pem.Block{Type: "CERTIFICATE", Bytes: der})
	})
}

// ServerTLS returns the server-side TLS configuration (throw-away certificate).
func ServerTLS() *tls.Config {
	initCert()
	return &tls.Config{Certificates: []tls.Certificate{srvCert}}
}

// ClientTLS returns a client configuration that trusts the throw-away cert.
func ClientTLS() *tls.Config {
	initCert()
	return &tls.Config{RootCAs: certPool, ServerName: "srv"}
}

// ExportCertFile writes the certificate to dir and points SSL_CERT_FILE at it
// so that package-level functions using the system roots trust the test server.
// Must be called before the first certificate verification of the process.
func ExportCertFile(dir string) (string, error) {
	initCert()
	p := filepath.Join(dir, "verif-ca.pem")
	if err := os.WriteFile(p, certPEM, 0o600); err != nil {
		return "", err
	}
	os.Setenv("SSL_CERT_FILE", p)
	os.Setenv("SSL_CERT_DIR", dir)
	return p, nil
}

// Rig is one server + backend + listener, fresh for every case.
type Rig struct {
	Hub   *Hub
	Cfg   Config
	Srv   *smtp.Server
	L     *Listener
	B     *Backend
	Log   *LogBuf
	serve chan error
	// Leftover holds the stacks of server-side go-smtp goroutines that were
	// still alive after Shutdown's bounded wait (nil = none).
	Leftover []string
	// graceful is the result channel of a Server.Shutdown begun by
	// BeginShutdown (nil = none)
	graceful chan error
}

// BeginShutdown starts a graceful Server.Shutdown (no deadline) in the
// background and returns once the server has stopped accepting (its listener
// is closed): from then on the server is "shutting down" while the
// connections already open stay served until they end. Rig.Shutdown joins it.
// It returns false if the listener is still open when the watchdog expires.
func (r *Rig) BeginShutdown() bool {
	if r.graceful == nil {
		r.graceful = make(chan error, 1)
		go func() { r.graceful <- r.Srv.Shutdown(context.Background()) }()
	}
	deadline := time.Now().Add(Watchdog)
	for !r.L.IsClosed() {
		if time.Now().After(deadline) {
			return false
		}
		time.Sleep(20 * time.Microsecond)
	}
	return true
}

// ImplicitTLS reports whether connections are under TLS from the first octet.
func (c Config) ImplicitTLS() bool { return c.TLS == "implicit" || c.TLS == "wrapped" }

// ambient holds server settings that have no bearing on any property and that
// a case did not choose itself: bit 0 a (long) ReadTimeout, bit 1 a (long)
// WriteTimeout, bit 2 a Debug writer. The framework derives the bits from the
// case (a hash of its JSON), so that every check meets every combination
// without drawing it, and a replay meets the same one.
var ambient int32

// SetAmbient chooses the unrelated settings of the servers built from now on.
func SetAmbient(bits int) { atomic.StoreInt32(&ambient, int32(bits)) }

func NewRig(cfg Config, script Script) *Rig {
	hub := NewHub()
	b := NewBackend(hub, script)
	setActiveBackend(b)
	s := smtp.NewServer(b)
	s.Domain = "srv"
	s.LMTP = cfg.LMTP
	s.MaxRecipients = cfg.MaxRecipients
	s.MaxMessageBytes = cfg.MaxMessageBytes
	if cfg.MaxLineLength > 0 {
		s.MaxLineLength = cfg.MaxLineLength
	} else if cfg.MaxLineLength < 0 {
		s.MaxLineLength = 0 // no limit
	}
	s.AllowInsecureAuth = cfg.AllowInsecureAuth
	s.EnableSMTPUTF8 = cfg.UTF8
	s.EnableREQUIRETLS = cfg.RequireTLS
	s.EnableBINARYMIME = cfg.BinaryMIME
	s.EnableDSN = cfg.DSN
	s.EnableRRVS = cfg.RRVS
	if cfg.TLS != "" && cfg.TLS != "wrapped" {
		s.TLSConfig = ServerTLS()
	}
	if cfg.ReadTimeoutMs != 0 {
		s.ReadTimeout = time.Duration(cfg.ReadTimeoutMs) * time.Millisecond
	}
	if cfg.WriteTimeoutMs != 0 {
		s.WriteTimeout = time.Duration(cfg.WriteTimeoutMs) * time.Millisecond
	}
	amb := atomic.LoadInt32(&ambient)
	if amb&1 != 0 && cfg.ReadTimeoutMs == 0 {
		s.ReadTimeout = 90 * time.Second
	}
	if amb&2 != 0 && cfg.WriteTimeoutMs == 0 {
		s.WriteTimeout = 90 * time.Second
	}
	if cfg.Debug || amb&4 != 0 {
		s.Debug = io.Discard
	}
	lg := &LogBuf{}
	s.ErrorLog = lg
	r := &Rig{Hub: hub, Cfg: cfg, Srv: s, L: NewListener(hub), B: b, Log: lg, serve: make(chan error, 1)}
	go func() { r.serve <- s.Serve(r.serveListener()) }()
	return r
}

func (r *Rig) serveListener() net.Listener {
	if r.Cfg.ImplicitTLS() {
		return tls.NewListener(r.L, ServerTLS())
	}
	return r.L
}

// Shutdown releases all gates, waits for every connection handler to return
// (Server.Shutdown joins them) and for Serve to return. It reports false if
// the watchdog expired.
func (r *Rig) Shutdown() bool {
	r.B.ReleaseAll()
	ctx, cancel := context.WithTimeout(context.Background(), Watchdog)
	defer cancel()
	err := r.Srv.Shutdown(ctx)
	if err != nil && err != smtp.ErrServerClosed {
		return false
	}
	select {
	case <-r.serve:
	case <-time.After(Watchdog):
		return false
	}
	if r.graceful != nil {
		select {
		case <-r.graceful:
		case <-time.After(Watchdog):
			return false
		}
		r.graceful = nil
	}
	// Delivery goroutines of chunked transfers are not joined by Shutdown;
	// wait until every callback that began has returned.
	if !r.Hub.WaitUntil(func() bool { return r.B.InflightLocked() == 0 }, Watchdog) {
		return false
	}
	// A delivery goroutine may have been spawned without having run yet (it
	// shows up in the goroutine dump with its entry frame); let it run and
	// finish so that the trace is complete before any oracle looks at it.
	r.Leftover = WaitNoServerGoroutines()
	return r.Hub.WaitUntil(func() bool { return r.B.InflightLocked() == 0 }, Watchdog)
}

// ForceClose closes the server when a case is being given up (deadlock,
// watchdog). Close joins the connections' delivery goroutines and may be
// stuck with them, so it gets its own goroutine and a short grace period;
// nothing is concluded from how it ends.
func (r *Rig) ForceClose() {
	closed := make(chan struct{})
	go func() { r.Srv.Close(); close(closed) }()
	select {
	case <-closed:
	case <-time.After(200 * time.Millisecond):
	}
}

// Stacks returns the stacks of all goroutines that have a go-smtp frame,
// excluding frames of the client half when it is being driven by the harness
// goroutine itself (callers filter further).
var (
	stackMu  sync.Mutex
	stackBuf = make([]byte, 1<<20)
)

// UnknownRunning reports whether the last dumps may have missed goroutines: a
// goroutine that is running on another thread is listed without its stack
// ("stack unavailable"), so it cannot be told whether it executes library
// code. Criteria that conclude "everything is parked" must not fire then.
func unknownRunning(dump []byte) bool {
	return bytes.Contains(dump, []byte("stack unavailable"))
}

var lastDumpHadUnknown bool // guarded by stackMu

// LastDumpIncomplete reports whether the most recent Stacks() call saw a
// goroutine whose stack was unavailable.
func LastDumpIncomplete() bool {
	stackMu.Lock()
	defer stackMu.Unlock()
	return lastDumpHadUnknown
}

func Stacks() []string {
	stackMu.Lock()
	defer stackMu.Unlock()
	n := runtime.Stack(stackBuf, true)
	lastDumpHadUnknown = unknownRunning(stackBuf[:n])
	if !bytes.Contains(stackBuf[:n], []byte("github.com/emersion/go-smtp.")) {
		return nil
	}
	var out []string
	for _, g := range strings.Split(string(stackBuf[:n]), "\n\n") {
		if strings.Contains(g, "github.com/emersion/go-smtp.") {
			out = append(out, g)
		}
	}
	return out
}

// ServerGoroutines returns stacks of goroutines executing server-side go-smtp
// code ((*Server) or (*Conn) methods).
func ServerGoroutines() []string {
	var out []string
	for _, g := range Stacks() {
		if strings.Contains(g, "go-smtp.(*Server).") || strings.Contains(g, "go-smtp.(*Conn).") {
			out = append(out, g)
		}
	}
	return out
}

// WaitNoServerGoroutines polls (goroutine exit is asynchronous) until no
// goroutine with a server-side go-smtp frame is left. It returns the leftover
// stacks if the bounded retry is exhausted.
func WaitNoServerGoroutines() []string {
	var left []string
	for i := 0; i < 600; i++ {
		left = left[:0]
		for _, g := range ServerGoroutines() {
			if !knownLeaked[goroutineID(g)] {
				left = append(left, g)
			}
		}
		if len(left) == 0 && !LastDumpIncomplete() {
			return nil
		}
		if i < 50 {
			runtime.Gosched()
		} else {
			time.Sleep(time.Millisecond)
		}
	}
	// Reported once, for the case that leaked them; they stay in the process
	// and must not be blamed on (or slow down) the cases that follow.
	for _, g := range left {
		knownLeaked[goroutineID(g)] = true
	}
	return left
}

var knownLeaked = map[string]bool{}

func goroutineID(stack string) string {
	// "goroutine 123 [chan send]:"
	f := strings.Fields(stack)
	if len(f) >= 2 && f[0] == "goroutine" {
		return f[1]
	}
	return stack
}

// BlockedStacks returns, from the given goroutine stacks, those whose state
// shows them parked on a channel, select, mutex or condition variable.
func BlockedStacks(stacks []string) []string {
	var out []string
	for _, g := range stacks {
		head := g
		if i := strings.IndexByte(g, '\n'); i >= 0 {
			head = g[:i]
		}
		for _, st := range []string{"chan receive", "chan send", "select", "semacquire", "sync.Mutex.Lock", "sync.Cond.Wait", "sync.WaitGroup.Wait"} {
			if strings.Contains(head, st) {
				out = append(out, g)
				break
			}
		}
	}
	return out
}

// ---- raw wire driver ----

// Wire drives one connection with raw octets.
type Wire struct {
	R      *Rig
	C      *End // client end
	S      *End // server end
	tlsc   *tls.Conn
	pumped []byte // guarded by hub (TLS mode)
	pumpEr error
	Out    []byte // everything received so far (after Recv calls)
	// Deadlock holds the goroutine stacks when a wait ended in QDeadlock.
	Deadlock string
}

// Dial opens a connection to the rig's server. With implicit TLS the
// handshake is performed at once.
func (r *Rig) Dial() (*Wire, error) {
	c, s := r.L.Dial()
	s.SetEOFWithData(r.Cfg.EOFWithData)
	s.SetFragment(r.Cfg.FragmentReplies)
	w := &Wire{R: r, C: c, S: s}
	r.B.SetWireMark(func() int64 { return s.out.written })
	if r.Cfg.ImplicitTLS() {
		if err := w.StartTLS(); err != nil {
			return w, err
		}
	}
	return w, nil
}

// StartTLS performs the client side of a TLS handshake on the connection and
// switches the driver to TLS.
func (w *Wire) StartTLS() error {
	tc := tls.Client(w.C, ClientTLS())
	done := make(chan error, 1)
	go func() { done <- tc.Handshake() }()
	select {
	case err := <-done:
		if err != nil {
			return err
		}
	case <-time.After(Watchdog):
		return fmt.Errorf("harness: TLS handshake watchdog")
	}
	w.tlsc = tc
	go func() {
		buf := make([]byte, 16384)
		for {
			n, err := tc.Read(buf)
			w.R.Hub.Lock()
			w.pumped = append(w.pumped, buf[:n]...)
			if err != nil {
				w.pumpEr = err
			}
			w.R.Hub.Unlock()
			w.R.Hub.Broadcast()
			if err != nil {
				return
			}
		}
	}()
	return nil
}

// Send writes b as exactly one network segment.
func (w *Wire) Send(b []byte) {
	if len(b) == 0 {
		return
	}
	if w.tlsc != nil {
		w.tlsc.Write(b)
		return
	}
	w.C.Write(b)
}

// SendFinal writes b and half-closes the client's side in the same step (on a
// plaintext connection; under TLS the close alert is a record of its own).
func (w *Wire) SendFinal(b []byte) {
	if w.tlsc != nil {
		w.Send(b)
		w.CloseWrite()
		return
	}
	w.C.WriteFinal(b)
}

// SendCutsFinal is SendCuts with the last segment sent by SendFinal.
func (w *Wire) SendCutsFinal(stream []byte, cuts []int) {
	prev := 0
	for _, c := range cuts {
		if c <= prev || c >= len(stream) {
			continue
		}
		w.Send(stream[prev:c])
		prev = c
	}
	w.SendFinal(stream[prev:])
}

// SendCuts writes stream split at the given ascending offsets.
func (w *Wire) SendCuts(stream []byte, cuts []int) {
	prev := 0
	for _, c := range cuts {
		if c <= prev || c >= len(stream) {
			continue
		}
		w.Send(stream[prev:c])
		prev = c
	}
	w.Send(stream[prev:])
}

// Quiet states.
const (
	QIdle     = "idle"   // server parked in Read with nothing queued
	QClosed   = "closed" // server closed the connection
	QGate     = "gate"   // a backend callback is parked on a gate
	QWatchdog = "watchdog"
)

// QDeadlock: every goroutine executing server-side library code is parked on a
// channel / mutex / wait group, none of them waits for network input or on a
// harness gate, and nothing is queued: nobody can ever wake them. This is a
// state, not a timeout; the stacks are in Wire.Deadlock.
const QDeadlock = "deadlock"

// FlowStallNow reports a flow-control stall on an unbuffered transport: both
// ends are parked in Write (each waits for the other to read), every server
// goroutine is parked and none of them reads from the network or waits on a
// harness gate - and all of that still holds 20 ms later. Nobody will ever
// read. (Whether a server may answer before it has read everything the peer
// is still sending is not something the properties settle; callers treat the
// state as unspecified, they just must not sit through a watchdog.)
func (w *Wire) FlowStallNow() bool {
	check := func() bool {
		w.R.Hub.Lock()
		both := w.C.BlockedInWriteLocked() && w.S.BlockedInWriteLocked() && !w.R.B.AtGateLocked()
		w.R.Hub.Unlock()
		if !both {
			return false
		}
		var live []string
		for _, g := range ServerGoroutines() {
			if !knownLeaked[goroutineID(g)] && !strings.Contains(g, "harness.(*Listener).Accept") {
				live = append(live, g)
			}
		}
		if LastDumpIncomplete() {
			return false
		}
		for _, g := range live {
			if strings.Contains(g, "harness.(*End).Read") || strings.Contains(g, "harness.(*Backend).waitGate") || strings.Contains(g, "time.Sleep") {
				return false
			}
		}
		return len(BlockedStacks(live)) == len(live)
	}
	if !check() {
		return false
	}
	time.Sleep(20 * time.Millisecond)
	return check()
}

// GiveUp abandons a connection whose handlers are known to be deadlocked:
// nothing will ever finish, so the remaining watchdogs are not sat through;
// the stuck goroutines are remembered as leaked (later cases do not count
// them again).
func (w *Wire) GiveUp() {
	w.Abort()
	w.R.B.ReleaseAll()
	w.R.ForceClose()
	for _, g := range ServerGoroutines() {
		knownLeaked[goroutineID(g)] = true
	}
}

// DeadlockNow evaluates the state-based deadlock criterion once (for drivers
// that do not go through WaitQuiet) and returns the stacks, or "".
func (w *Wire) DeadlockNow() string {
	if st := w.deadlockStacks(); st != nil {
		return strings.Join(st, "\n\n")
	}
	return ""
}

// deadlockStacks returns the stacks when the state-based deadlock criterion
// holds, else nil.
func (w *Wire) deadlockStacks() []string {
	w.R.Hub.Lock()
	busy := w.S.ClosedLocked() || w.S.BlockedInReadLocked() || w.R.B.AtGateLocked() || w.S.PendingInLocked() > 0
	w.R.Hub.Unlock()
	if busy {
		return nil
	}
	check := func() []string {
		var live []string
		for _, g := range ServerGoroutines() {
			// (the accept loop is always parked; it serves no connection)
			if !knownLeaked[goroutineID(g)] && !strings.Contains(g, "harness.(*Listener).Accept") {
				live = append(live, g)
			}
		}
		if LastDumpIncomplete() {
			// somebody is running on another thread and we cannot see what
			return nil
		}
		if len(live) == 0 {
			return nil
		}
		for _, g := range live {
			if strings.Contains(g, "harness.(*End).Read") || strings.Contains(g, "harness.(*End).Write") || strings.Contains(g, "harness.(*Backend).waitGate") || strings.Contains(g, "time.Sleep") {
				return nil
			}
		}
		if len(BlockedStacks(live)) != len(live) {
			return nil
		}
		return live
	}
	a := check()
	if a == nil {
		return nil
	}
	// the same goroutines must still be parked a moment later
	time.Sleep(20 * time.Millisecond)
	b := check()
	if b == nil || len(a) != len(b) {
		return nil
	}
	for i := range a {
		if goroutineID(a[i]) != goroutineID(b[i]) {
			return nil
		}
	}
	return b
}

// waitOrDeadlock waits for pred like Hub.WaitUntil(pred, Watchdog) but checks
// the deadlock criterion between short waits. It returns "" when pred became
// true, QDeadlock or QWatchdog otherwise.
func (w *Wire) waitOrDeadlock(pred func() bool) string {
	deadline := time.Now().Add(Watchdog)
	slice := 200 * time.Millisecond
	for time.Now().Before(deadline) {
		if w.R.Hub.WaitUntil(pred, slice) {
			return ""
		}
		if st := w.deadlockStacks(); st != nil {
			w.Deadlock = strings.Join(st, "\n\n")
			return QDeadlock
		}
		if slice < 2*time.Second {
			slice *= 2
		}
	}
	return QWatchdog
}

// StuckOnMutex reports the stack of a goroutine that has a frame containing
// frame and sits in sync.(*Mutex).Lock in three looks 300 ms apart (a state
// that lasts: whoever holds the lock is not going to let go by itself), else "".
func StuckOnMutex(frame string) string {
	find := func() (id, stack string) {
		for _, g := range Stacks() {
			if strings.Contains(g, frame) && strings.Contains(g, "sync.(*Mutex).Lock") {
				return goroutineID(g), g
			}
		}
		return "", ""
	}
	id, stack := find()
	if id == "" {
		return ""
	}
	for i := 0; i < 2; i++ {
		time.Sleep(300 * time.Millisecond)
		id2, st2 := find()
		if id2 != id {
			return ""
		}
		stack = st2
	}
	return stack
}

// allParked reports whether every goroutine executing server-side library
// code is parked (channel, lock, condition variable, wait group), i.e. none is
// running or runnable. Used to tell "a callback sits on a gate and the rest of
// the server waits for it" from "a callback sits on a gate while the command
// loop is still busy".
func allParked() bool {
	snap := func() (mutexWaiters []string, ok bool) {
		n := 0
		gs := ServerGoroutines()
		if LastDumpIncomplete() {
			return nil, false
		}
		for _, g := range gs {
			if knownLeaked[goroutineID(g)] {
				continue
			}
			n++
			head := g
			if i := strings.IndexByte(g, '\n'); i >= 0 {
				head = g[:i]
			}
			if strings.Contains(g, "sync.(*Mutex).Lock") {
				// may be transient (the in-memory network's lock) or lasting
				// (a lock held by someone who waits for a gate): decided by
				// a second look
				mutexWaiters = append(mutexWaiters, goroutineID(g))
				continue
			}
			parked := false
			for _, st := range []string{"chan receive", "chan send", "select", "sync.Cond.Wait", "sync.WaitGroup.Wait"} {
				if strings.Contains(head, st) {
					parked = true
				}
			}
			if strings.Contains(head, "semacquire") && strings.Contains(g, "sync.(*WaitGroup).Wait") {
				parked = true
			}
			if !parked {
				return nil, false
			}
		}
		return mutexWaiters, n > 0
	}
	mw, ok := snap()
	if !ok {
		return false
	}
	if len(mw) == 0 {
		return true
	}
	time.Sleep(2 * time.Millisecond)
	mw2, ok := snap()
	if !ok || len(mw2) != len(mw) {
		return false
	}
	for i := range mw {
		if mw[i] != mw2[i] {
			return false
		}
	}
	return true
}

// WaitQuiet waits until the server cannot make progress without the harness.
func (w *Wire) WaitQuiet() string {
	for i := 0; ; i++ {
		st := w.waitQuietOnce()
		if st != QGate {
			return st
		}
		// A parked gate is a lasting condition: make sure the rest of the
		// server has come to rest too (the command loop may still be working
		// on the input, e.g. when only a delivery goroutine is parked).
		w.R.Hub.Lock()
		idle := w.S.BlockedInReadLocked() || w.S.ClosedLocked()
		w.R.Hub.Unlock()
		if idle {
			continue // re-evaluate: idle / closed take precedence
		}
		if allParked() {
			// everything is at rest now; the command loop may have parked
			// in Read (waiting for input) in the meantime: that is idleness
			w.R.Hub.Lock()
			idle = w.S.BlockedInReadLocked() || w.S.ClosedLocked()
			w.R.Hub.Unlock()
			if idle {
				continue
			}
			return QGate
		}
		if i < 200 {
			runtime.Gosched()
		} else {
			time.Sleep(200 * time.Microsecond)
		}
		if i > 100000 {
			return QWatchdog
		}
	}
}

func (w *Wire) waitQuietOnce() string {
	st := ""
	bad := w.waitOrDeadlock(func() bool {
		switch {
		case w.S.ClosedLocked():
			st = QClosed
		case w.S.BlockedInReadLocked():
			st = QIdle
		case w.R.B.AtGateLocked():
			st = QGate
		default:
			return false
		}
		if w.tlsc != nil && w.pumpEr == nil {
			// the pump must have drained what the server wrote
			if !(w.C.in.readers > 0 && len(w.C.in.segs) == 0) {
				return false
			}
		}
		return true
	})
	if bad != "" {
		return bad
	}
	return st
}

// WaitClosed waits until the server has closed the connection. It returns
// false on a deadlock (Wire.Deadlock is set) or when the watchdog expires.
func (w *Wire) WaitClosed() bool {
	return w.waitOrDeadlock(func() bool { return w.S.ClosedLocked() }) == ""
}

// Recv returns the octets received since the previous Recv (non-blocking).
func (w *Wire) Recv() []byte {
	var b []byte
	if w.tlsc != nil {
		w.R.Hub.Lock()
		b = w.pumped
		w.pumped = nil
		w.R.Hub.Unlock()
	} else {
		b = w.C.TakeAll()
	}
	w.Out = append(w.Out, b...)
	return b
}

// Exchange sends one segment, waits for quiescence and returns the new output.
func (w *Wire) Exchange(b []byte) ([]byte, string) {
	w.Send(b)
	st := w.WaitQuiet()
	return w.Recv(), st
}

// CloseWrite half-closes the client side (clean EOF for the server).
func (w *Wire) CloseWrite() {
	if w.tlsc != nil {
		w.tlsc.CloseWrite()
	}
	w.C.CloseWrite()
}

// Abort resets the connection.
func (w *Wire) Abort() { w.C.Abort() }

// Finish ends the case: clean EOF towards the server, gates released, all
// handlers joined. It returns the remaining output and false when a watchdog
// expired.
func (w *Wire) Finish() ([]byte, bool) {
	w.CloseWrite()
	w.R.B.ReleaseAll()
	ok := w.WaitClosed()
	if !ok && w.Deadlock != "" {
		// nothing will ever finish: do not sit through the remaining
		// watchdogs; the stuck goroutines are remembered as leaked
		w.Abort()
		w.R.ForceClose()
		for _, g := range ServerGoroutines() {
			knownLeaked[goroutineID(g)] = true
		}
		return w.Recv(), false
	}
	ok = w.R.Shutdown() && ok
	if w.tlsc != nil {
		// let the pump see EOF
		w.R.Hub.WaitUntil(func() bool { return w.pumpEr != nil }, Watchdog)
	}
	return w.Recv(), ok
}

// DialConn opens a connection for use by a go-smtp Client: the returned
// net.Conn is the client end (wrapped in a TLS client when the rig serves
// implicit TLS; the handshake happens on first use).
func (r *Rig) DialConn() (net.Conn, *Wire) {
	c, s := r.L.Dial()
	s.SetEOFWithData(r.Cfg.EOFWithData)
	s.SetFragment(r.Cfg.FragmentReplies)
	if r.Cfg.Synchronous {
		c.SetSynchronous(true)
		s.SetSynchronous(true)
	}
	w := &Wire{R: r, C: c, S: s}
	r.B.SetWireMark(func() int64 { return s.out.written })
	if r.Cfg.ImplicitTLS() {
		return tls.Client(c, ClientTLS()), w
	}
	return c, w
}
